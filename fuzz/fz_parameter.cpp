// libFuzzer target for C19: bytes -> (parameter kind, comparators, domain, initial value, history of up to 12
// operations) -> the reference-model check of harness/c19_parameter.cpp (check_hcase).  Domains and operands are
// drawn from tables of boundary values (type limits, 2^53, bounds +- 1 / 1 ulp, NaN, inf, denormals) or taken raw
// from the input; strings come from a numeric-looking alphabet so that the string->number conversion is reached.
#define VERIF_NO_MAIN
#include "../harness/c19_parameter.cpp"
#include "fuzz_common.h"

namespace
{
int64_t pick_int(FuzzedDataProvider& fdp)
{
    static const int64_t table[] = {std::numeric_limits<int64_t>::min(), std::numeric_limits<int64_t>::min() + 1, -(int64_t(1) << 53) - 1, -(int64_t(1) << 53),
                                    -(int64_t(1) << 31) - 1, -(int64_t(1) << 31), -1000, -10, -2, -1, 0, 1, 2, 3, 10, 100, 1000,
                                    (int64_t(1) << 31) - 1, int64_t(1) << 31, int64_t(1) << 53, (int64_t(1) << 53) + 1,
                                    std::numeric_limits<int64_t>::max() - 1, std::numeric_limits<int64_t>::max()};
    if (fdp.ConsumeBool())
    {
        return fdp.PickValueInArray(table);
    }
    return fdp.ConsumeIntegralInRange<int64_t>(-100, 100);
}

double pick_real(FuzzedDataProvider& fdp)
{
    static const double table[] = {-std::numeric_limits<double>::infinity(), -1e300, -9007199254740993.0, -1e10, -2.5, -1.0, -0.5, -1e-300, -4.9e-324, -0.0, 0.0,
                                   4.9e-324, 1e-300, 0.1, 0.5, 1.0, 1.5, 2.0, 10.0, 1e10, 9007199254740992.0, 9223372036854775807.0, 1e300,
                                   std::numeric_limits<double>::infinity(), std::numeric_limits<double>::quiet_NaN()};
    switch (fdp.ConsumeIntegralInRange<int>(0, 3))
    {
    case 0: return fdp.PickValueInArray(table);
    case 1: return static_cast<double>(fdp.ConsumeIntegralInRange<int>(-40, 40)) / 4.0;
    case 2:
    {
        const auto base = fdp.PickValueInArray(table);
        return std::nextafter(base, fdp.ConsumeBool() ? 1e308 : -1e308);
    }
    default: return fdp.ConsumeFloatingPoint<double>();
    }
}

std::string pick_string(FuzzedDataProvider& fdp)
{
    static const char alphabet[] = "0123456789.-+eE ,;:naif_x";
    std::string       s;
    const auto        n = fdp.ConsumeIntegralInRange<size_t>(0, 12);
    for (size_t i = 0; i < n; ++i)
    {
        s.push_back(alphabet[fdp.ConsumeIntegralInRange<size_t>(0, sizeof(alphabet) - 2)]);
    }
    return s;
}
} // namespace

extern "C" int LLVMFuzzerTestOneInput(const uint8_t* data, size_t size)
{
    FuzzedDataProvider fdp(data, size);
    hcase_t            c;
    c.kind   = fdp.ConsumeIntegralInRange<int>(0, K_COUNT - 1);
    c.min_le = fdp.ConsumeBool();
    c.val_le = fdp.ConsumeBool();
    c.max_le = fdp.ConsumeBool();
    {
        int64_t v[4] = {pick_int(fdp), pick_int(fdp), pick_int(fdp), pick_int(fdp)};
        std::sort(v, v + 4);
        c.imin = v[0];
        c.iv1  = v[1];
        c.iv2  = v[2];
        c.imax = v[3];
    }
    {
        double v[4] = {pick_real(fdp), pick_real(fdp), pick_real(fdp), pick_real(fdp)};
        for (auto& x : v)
        {
            if (std::isnan(x))
            {
                x = 0.0;
            }
        }
        std::sort(v, v + 4);
        c.fmin = v[0];
        c.fv1  = v[1];
        c.fv2  = v[2];
        c.fmax = v[3];
    }
    c.sv         = pick_string(fdp);
    const auto n = fdp.ConsumeIntegralInRange<size_t>(1, 12);
    for (size_t i = 0; i < n; ++i)
    {
        c.op_type.push_back(fdp.ConsumeIntegralInRange<int>(0, OP_COUNT - 1));
        // operands near the domain bounds are the interesting ones
        const auto near = [&](int64_t b) { return b > std::numeric_limits<int64_t>::min() + 2 && b < std::numeric_limits<int64_t>::max() - 2 ? b + fdp.ConsumeIntegralInRange<int>(-1, 1) : b; };
        c.op_i1.push_back(fdp.ConsumeBool() ? pick_int(fdp) : near(fdp.ConsumeBool() ? c.imin : c.imax));
        c.op_i2.push_back(fdp.ConsumeBool() ? pick_int(fdp) : near(fdp.ConsumeBool() ? c.imin : c.imax));
        const auto nearf = [&](double b) { const int k = fdp.ConsumeIntegralInRange<int>(-1, 1); return k == 0 ? b : std::nextafter(b, k > 0 ? 1e308 : -1e308); };
        c.op_d1.push_back(fdp.ConsumeBool() ? pick_real(fdp) : nearf(fdp.ConsumeBool() ? c.fmin : c.fmax));
        c.op_d2.push_back(fdp.ConsumeBool() ? pick_real(fdp) : nearf(fdp.ConsumeBool() ? c.fmin : c.fmax));
        c.op_s.push_back(pick_string(fdp));
    }
    ctx_t ctx;
    verif::fuzz::account(check_hcase(c, ctx), ctx, serialize("history", c));
    return 0;
}
