// libFuzzer target for C15: input bytes = (object selector, fault program) applied to a corpus of VALID streams
// built at start-up (tensors of the 10 scalar types, parameters of every kind, features, every id of the
// solver / lsearch0 / lsearchk / loss / splitter / tuner / wlearner / linear factories, the 8 weak learners,
// the 4 linear models and a gboost model fitted on a fixed small dataset).  The fault program is restricted to
// the fault classes of the property: one truncation offset, 1..3 altered tensor payload bytes, one altered
// tensor header byte (lenient rule), or an alteration followed by a truncation.  Arbitrary byte soup is never
// fed to the readers.  Oracles = those of harness/c15_stream.cpp (shared through c15_stream.h).
#include "../harness/c15_stream.h"
#include "fuzz_common.h"

using namespace c15;
using verif::ctx_t;
using verif::verdict_t;

namespace
{
struct entry_t
{
    subject_t             subject;
    std::vector<region_t> regions;
    size_t                max_elements{0};
};

std::vector<entry_t>& corpus()
{
    static auto* entries = new std::vector<entry_t>; // leaked on purpose (no destruction order issues at exit)
    return *entries;
}

void add(subject_t s)
{
    entry_t e;
    e.regions = locate_regions(s.bytes, s.images);
    for (const auto& r : e.regions)
    {
        e.max_elements = std::max(e.max_elements, r.count);
    }
    e.subject = std::move(s);
    corpus().push_back(std::move(e));
}

template <class T>
void add_tensors(const char* name, prng_t& rng)
{
    const auto fill = [&](auto& t)
    {
        auto* bytes = reinterpret_cast<unsigned char*>(t.data());
        for (size_t i = 0; i < static_cast<size_t>(t.size()) * sizeof(T); ++i)
        {
            bytes[i] = static_cast<unsigned char>(rng.next());
        }
    };
    nano::tensor_mem_t<T, 1> t1(5);
    nano::tensor_mem_t<T, 2> t2(2, 3);
    nano::tensor_mem_t<T, 3> t3(0, 2, 1);
    nano::tensor_mem_t<T, 4> t4(2, 1, 2, 2);
    nano::tensor_mem_t<T, 5> t5(1, 2, 1, 3, 1);
    fill(t1);
    fill(t2);
    fill(t4);
    fill(t5);
    add(tensor_subject<T, 1>(t1, 0, cat("tensor<", name, ",1> [5]")));
    add(tensor_subject<T, 2>(t2, 0, cat("tensor<", name, ",2> [2 3]")));
    add(tensor_subject<T, 3>(t3, 0, cat("tensor<", name, ",3> [0 2 1]")));
    add(tensor_subject<T, 4>(t4, 0, cat("tensor<", name, ",4> [2 1 2 2]")));
    add(tensor_subject<T, 5>(t5, 0, cat("tensor<", name, ",5> [1 2 1 3 1]")));
}

template <class tbase>
void add_factory(const char* family, std::function<std::string(const tbase&)> observe, std::function<std::vector<bytes_t>(const tbase&)> images = {})
{
    prng_t rng{verif::fnv1a(family)};
    for (const auto& id : tbase::all().ids())
    {
        auto                object = tbase::all().get(id);
        std::vector<double> u;
        for (int i = 0; i < 9; ++i)
        {
            u.push_back(rng.unit());
        }
        randomize(*object, u);
        auto s = factory_subject<tbase>(family, cat(family, " ", id, " (nano::write/nano::read of the factory object)"), object, observe);
        if (images)
        {
            s.images = images(*object);
        }
        add(std::move(s));
    }
}

verif::ds::data_spec_t fixed_data()
{
    using verif::ds::feature_type;
    verif::ds::data_spec_t d;
    d.samples = 24;
    d.target  = 4;
    d.types   = {static_cast<int>(feature_type::float64), static_cast<int>(feature_type::sclass), static_cast<int>(feature_type::mclass),
                 static_cast<int>(feature_type::float32), static_cast<int>(feature_type::float64)};
    d.dims    = {1, 1, 1, 1, 1, 1, 1, 1, 1, 1, 1, 1, 1, 1, 1};
    d.classes = {0, 3, 2, 0, 0};
    d.values.resize(5);
    d.mask.assign(5, std::vector<int>(24, 1));
    prng_t rng{20260926};
    for (int i = 0; i < d.samples; ++i)
    {
        const double x0 = static_cast<double>(static_cast<int>(rng.below(17)) - 8) / 4.0;
        const double c1 = static_cast<double>(rng.below(3));
        const double x3 = static_cast<double>(static_cast<float>(static_cast<int>(rng.below(9)) - 4) / 2.0F);
        d.values[0].push_back(x0);
        d.values[1].push_back(c1);
        d.values[2].push_back(static_cast<double>(rng.below(2)));
        d.values[2].push_back(static_cast<double>(rng.below(2)));
        d.values[3].push_back(x3);
        d.values[4].push_back(0.75 * x0 - 0.5 + (c1 == 1.0 ? 0.8 : -0.2) + 0.1 * x3);
    }
    d.mask[3][5] = 0;
    d.mask[1][7] = 0;
    return d;
}

uint64_t g_programs = 0;

void build_corpus()
{
    ::setenv("NANO_VERIF_MAX_THREADS", "2", 0);
    nano::verif::rng_state().store(12345U);
    prng_t rng{7};
    add_tensors<int8_t>("int8", rng);
    add_tensors<int16_t>("int16", rng);
    add_tensors<int32_t>("int32", rng);
    add_tensors<int64_t>("int64", rng);
    add_tensors<uint8_t>("uint8", rng);
    add_tensors<uint16_t>("uint16", rng);
    add_tensors<uint32_t>("uint32", rng);
    add_tensors<uint64_t>("uint64", rng);
    add_tensors<float>("float", rng);
    add_tensors<double>("double", rng);

    // parameters of every kind, features
    {
        using nano::parameter_t;
        const std::vector<parameter_t> params = {
            parameter_t{},
            parameter_t::make_enum("enum", nano::feature_type::sclass),
            parameter_t::make_integer("integer", 0, nano::LE, 4, nano::LT, 10),
            parameter_t::make_scalar("scalar", -1.0, nano::LT, 0.25, nano::LE, std::numeric_limits<double>::infinity()),
            parameter_t::make_integer_pair("ipair", 0, nano::LE, 3, nano::LT, 7, nano::LE, 9),
            parameter_t::make_scalar_pair("fpair", 0.0, nano::LT, 1e-4, nano::LT, 0.9, nano::LT, 1.0),
            parameter_t::make_string("string", "a value"),
        };
        for (const auto& p : params)
        {
            add(member_subject<parameter_t>("parameter", cat("parameter_t kind=", p.storage().index()), p, [] { return std::make_unique<parameter_t>(); },
                                            [](const parameter_t& x) { return dump(x); }));
        }
        const std::vector<nano::feature_t> features = {
            nano::feature_t{"scalar"}.scalar(nano::feature_type::int16),
            nano::feature_t{"struct"}.scalar(nano::feature_type::float64, nano::make_dims(3, 2, 1)),
            nano::feature_t{"sclass"}.sclass(nano::strings_t{"a", "bb", "ccc"}),
            nano::feature_t{"mclass"}.mclass(size_t(4)),
        };
        for (const auto& f : features)
        {
            add(member_subject<nano::feature_t>("feature", cat("feature_t ", f.name()), f, [] { return std::make_unique<nano::feature_t>(); },
                                                [](const nano::feature_t& x) { return dump(x); }));
        }
    }

    // configured factory objects (random in-domain parameters)
    add_factory<nano::solver_t>("solver", [](const nano::solver_t& x) { return observe_solver(x, 1, 20, false); });
    add_factory<nano::lsearch0_t>("lsearch0", [](const nano::lsearch0_t& x) { return observe_lsearch0(x, 1, 20, false); });
    add_factory<nano::lsearchk_t>("lsearchk", [](const nano::lsearchk_t& x) { return observe_lsearchk(x, 1, 20, false); });
    add_factory<nano::loss_t>("loss", [](const nano::loss_t& x) { return observe_loss(x, 3); });
    add_factory<nano::splitter_t>("splitter", [](const nano::splitter_t& x) { return observe_splitter(x, 3); });
    add_factory<nano::tuner_t>("tuner", [](const nano::tuner_t& x) { return observe_tuner(x, 3, false); });
    add_factory<nano::wlearner_t>(
        "wlearner", [](const nano::wlearner_t& x) { return observe_wlearner(x, nullptr) + dtree_nodes(x); }, [](const nano::wlearner_t& x) { return images_of(x); });
    add_factory<nano::linear_t>(
        "linear", [](const nano::linear_t& x) { return observe_linear(x, nullptr); },
        [](const nano::linear_t& x) { return std::vector<bytes_t>{image_of(x.bias()), image_of(x.weights())}; });

    // fitted objects on a fixed dataset (kept alive for the observations)
    static auto* data    = new data_t(fixed_data());
    const auto&  dataset = *data->dataset;
    {
        nano::tensor4d_t gradients(nano::cat_dims(dataset.samples(), dataset.target_dims()));
        prng_t           grng{99};
        for (nano::tensor_size_t i = 0; i < gradients.size(); ++i)
        {
            gradients(i) = 2.0 * grng.unit() - 1.0 + (i % 3 == 0 ? 1.0 : 0.0);
        }
        for (const auto& id : nano::wlearner_t::all().ids())
        {
            auto w = nano::wlearner_t::all().get(id);
            if (auto* depth = w->parameter_if("wlearner::dtree::max_depth"); depth != nullptr)
            {
                *depth = 2;
            }
            w->fit(dataset, data->all, gradients);
            add(wlearner_subject(*w, data, true));
        }
    }
    const auto loss     = nano::loss_t::all().get("mse");
    auto       solver   = nano::solver_t::all().get("lbfgs");
    auto       splitter = nano::splitter_t::all().get("k-fold");
    auto       tuner    = nano::tuner_t::all().get("local-search");
    solver->parameter("solver::max_evals") = 40;
    splitter->parameter("splitter::folds") = 2;
    tuner->parameter("tuner::max_evals")   = 10;
    const auto fit_params = nano::ml::params_t{}.solver(*solver).splitter(*splitter).tuner(*tuner).logger(nano::make_null_logger());
    for (const auto& id : nano::linear_t::all().ids())
    {
        auto m = nano::linear_t::all().get(id);
        m->fit(dataset, data->all, *loss, fit_params);
        add(linear_subject(*m, data));
    }
    {
        nano::gboost_model_t m;
        m.parameter("gboost::max_rounds") = 10;
        m.parameter("gboost::patience")   = 2;
        m.prototypes(make_prototypes({0, 1, 3, 7}, {}));
        m.fit(dataset, data->all, *loss, fit_params);
        add(gboost_subject(m, data, true));
    }

    // every corpus member round-trips (otherwise the fault verdicts would be meaningless)
    for (const auto& e : corpus())
    {
        if (const auto f = round_trip(e.subject); f.kind != 0)
        {
            std::fprintf(stderr, "ORACLE %s\n%s\n", f.sig.substr(4).c_str(), f.msg.c_str());
            __builtin_trap();
        }
    }
}

} // namespace

extern "C" int LLVMFuzzerInitialize(int*, char***)
{
    build_corpus();
    verif::fuzz::init_once();
    return 0;
}

extern "C" int LLVMFuzzerTestOneInput(const uint8_t* data, size_t size)
{
    FuzzedDataProvider fdp(data, size);
    const auto&        entries = corpus();
    const auto&        e       = entries[fdp.ConsumeIntegralInRange<size_t>(0, entries.size() - 1)];
    const auto&        s       = e.subject;
    auto               bytes   = s.bytes;
    size_t             length  = bytes.size();

    // ---- decode the fault program -------------------------------------------------------------
    // kind 0: truncation; 1: 1..3 payload bytes; 2: one header byte; 3: payload byte(s) + truncation; 4: header byte + truncation
    const int   kind = fdp.ConsumeIntegralInRange<int>(0, 4);
    std::string text = cat("object=", s.label, " bytes=", bytes.size(), " program:");
    bool        payload_changed = false, header_changed = false, truncated = false, inside_big = false;
    region_t    touched;

    const auto pick_region = [&](bool need_payload) -> const region_t*
    {
        std::vector<const region_t*> usable;
        for (const auto& r : e.regions)
        {
            if (!need_payload || r.payload_len > 0)
            {
                usable.push_back(&r);
            }
        }
        return usable.empty() ? nullptr : usable[fdp.ConsumeIntegralInRange<size_t>(0, usable.size() - 1)];
    };
    const auto alter = [&](size_t at, bool heavy)
    {
        const auto old = static_cast<unsigned char>(bytes[at]);
        auto       x   = fdp.ConsumeIntegralInRange<int>(1, 255);
        if (heavy)
        {
            x = (x & 1) != 0 ? 0x01 : 0x80; // extents: keep the requested allocations small or refused at once
        }
        bytes[at] = static_cast<char>(old ^ x);
        text += cat(" [", at, "]:", static_cast<int>(old), "->", static_cast<int>(old ^ x));
    };

    if (kind == 1 || kind == 3)
    {
        if (const auto* r = pick_region(true); r != nullptr)
        {
            const int n = fdp.ConsumeIntegralInRange<int>(1, 3);
            for (int i = 0; i < n; ++i)
            {
                alter(r->payload_begin() + fdp.ConsumeIntegralInRange<size_t>(0, r->payload_len - 1), false);
            }
            payload_changed = bytes.compare(r->payload_begin(), r->payload_len, s.bytes, r->payload_begin(), r->payload_len) != 0;
            touched         = *r;
            inside_big      = r->count >= 2;
        }
    }
    else if (kind == 2 || kind == 4)
    {
        if (const auto* r = pick_region(false); r != nullptr)
        {
            const auto pos   = fdp.ConsumeIntegralInRange<size_t>(0, r->header_len - 1);
            const bool heavy = pos >= 8 && pos < 8 + 4 * r->dims.size() && (pos - 8) % 4 >= 1;
            alter(r->begin + pos, heavy);
            header_changed = true;
            touched        = *r;
            inside_big     = r->count >= 2;
        }
    }
    if (kind == 0 || kind == 3 || kind == 4)
    {
        length    = fdp.ConsumeIntegralInRange<size_t>(0, bytes.size() - 1);
        truncated = true;
        text += cat(" truncate@", length);
    }
    ++g_programs;

    // ---- oracle --------------------------------------------------------------------------------
    ctx_t     ctx;
    verdict_t v = verdict_t::ok();
    const auto o = s.read(bytes.data(), length, false);

    // the open checksum-collision finding of the rapidcheck harness (same mechanism predicate), not re-reported here
    const auto collision = [&] { return touched.header_len > 0 && provable_hash_collision(s.bytes, touched, bytes); };

    if (!truncated && !payload_changed && !header_changed)
    {
        if (o.failed || o.rewritten != s.bytes)
        {
            v = verdict_t::violation("C15/" + s.family + "/roundtrip/read-failed", text);
        }
    }
    else if (!o.failed)
    {
        const auto again = s.read(bytes.data(), length, true);
        if (truncated && !header_changed && !payload_changed)
        {
            v = verdict_t::violation("C15/" + s.family + "/truncation/accepted", text + ": " + describe_success(s, again));
        }
        else if (collision())
        {
            v = verdict_t::known(known_collision_sig(), text);
        }
        else if (truncated)
        {
            v = verdict_t::violation("C15/" + s.family + "/alteration+truncation/accepted", text + ": " + describe_success(s, again));
        }
        else if (payload_changed)
        {
            v = verdict_t::violation("C15/" + s.family + "/payload-alteration/accepted", text + ": " + describe_success(s, again));
        }
        else if (payloads(o.rewritten) != payloads(s.bytes))
        {
            v = verdict_t::violation("C15/" + s.family + "/header-alteration/accepted-different-elements", text + ": " + describe_success(s, again));
        }
    }
    ctx.nontrivial = (truncated || payload_changed || header_changed) && (s.nested >= 2 || inside_big || (truncated && e.max_elements >= 2));
    if (v.kind == verif::kind_t::violation && v.sig.rfind("C15/", 0) == 0)
    {
        v.sig = v.sig.substr(4); // the driver prefixes the property id
    }
    verif::fuzz::account(v, ctx, text);
    return 0;
}
