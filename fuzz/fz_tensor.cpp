// libFuzzer target for C16 (ranks 1..3): bytes -> (shape, scalar type, slices, reshape mix, gather list, remove_if
// mask) -> the oracles of harness/c16_tensor.h (check_large for free shapes up to 1e5 elements, check_small for the
// enumerated shapes with fuzzer-chosen gather lists / masks).  Built with ASan: every tensor owns or maps an exactly
// sized block, so any touch outside it aborts the run.
#define VERIF_NO_MAIN
#define C16_RANK_MIN 1
#define C16_RANK_MAX 3
#define C16_SUFFIX ""
#include "../harness/c16_tensor.h"
#include "fuzz_common.h"

extern "C" int LLVMFuzzerTestOneInput(const uint8_t* data, size_t size)
{
    FuzzedDataProvider fdp(data, size);
    ctx_t              ctx;
    const auto ints = [&](size_t max_count, int lo, int hi)
    {
        std::vector<int> v;
        const auto       n = fdp.ConsumeIntegralInRange<size_t>(0, max_count);
        for (size_t i = 0; i < n; ++i)
        {
            v.push_back(fdp.ConsumeIntegralInRange<int>(lo, hi));
        }
        return v;
    };
    if (fdp.ConsumeBool())
    {
        large_t c;
        const auto rank = fdp.ConsumeIntegralInRange<int>(1, 3);
        long       left = 20000; // keep single executions fast; the rapidcheck harness covers up to 1e5 elements
        for (int i = 0; i < rank; ++i)
        {
            const auto cap = static_cast<int>(std::min<long>(left, rank == 1 ? 20000 : 200));
            const auto d   = fdp.ConsumeBool() ? fdp.ConsumeIntegralInRange<int>(0, std::min(cap, 6)) : fdp.ConsumeIntegralInRange<int>(0, cap);
            c.dims.push_back(d);
            left = d == 0 ? left : std::max<long>(1, left / d);
        }
        c.type   = fdp.ConsumeIntegralInRange<int>(0, types_for_rank(rank) - 1);
        c.salt   = fdp.ConsumeIntegralInRange<int>(0, 1 << 20);
        c.slices = ints(8, 0, 20000);
        c.mix    = ints(6, 0, 1 << 16);
        c.gather = ints(24, 0, 20000);
        c.mask   = ints(24, 0, 1);
        verif::fuzz::account(check_large(c, ctx), ctx, serialize("large", c));
    }
    else
    {
        small_t c;
        c.rank   = fdp.ConsumeIntegralInRange<int>(1, 3);
        c.shape  = fdp.ConsumeIntegralInRange<int>(0, shapes_of_rank(c.rank) - 1);
        c.type   = fdp.ConsumeIntegralInRange<int>(0, types_for_rank(c.rank) - 1);
        c.salt   = fdp.ConsumeIntegralInRange<int>(0, 1 << 20);
        c.reals  = fdp.ConsumeBool();
        c.gather = ints(12, 0, 64);
        c.mask   = ints(8, 0, 1);
        verif::fuzz::account(check_small(c, ctx), ctx, serialize("small", c));
    }
    return 0;
}
