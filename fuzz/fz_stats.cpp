// libFuzzer target for C20: bytes -> (value list, percentages | thresholds, queries) -> the oracles of
// harness/c20_stats.cpp.  Coverage guidance explores the branchy corners (ties, positions that are
// integral up to rounding, duplicate thresholds, values on thresholds) beyond the rapidcheck generators.
#define VERIF_NO_MAIN
#include "../harness/c20_stats.cpp"
#include "fuzz_common.h"

namespace
{
double decode_value(FuzzedDataProvider& fdp, int style)
{
    switch (style)
    {
    case 0: return static_cast<double>(fdp.ConsumeIntegralInRange<int>(-4, 4));
    case 1: return static_cast<double>(fdp.ConsumeIntegralInRange<int>(-2000, 2000)) / 8.0;
    case 2: return static_cast<double>(fdp.ConsumeIntegralInRange<int>(-30, 30)) / 10.0;
    default: return fdp.ConsumeFloatingPointInRange<double>(-1e6, 1e6);
    }
}
} // namespace

extern "C" int LLVMFuzzerTestOneInput(const uint8_t* data, size_t size)
{
    FuzzedDataProvider fdp(data, size);
    const bool         histogram = fdp.ConsumeBool();
    const bool         integers  = fdp.ConsumeBool();
    const int          style     = fdp.ConsumeIntegralInRange<int>(0, 3);
    const auto         n         = fdp.ConsumeIntegralInRange<size_t>(1, 64);
    std::vector<double> values;
    for (size_t i = 0; i < n; ++i)
    {
        const auto v = decode_value(fdp, style);
        values.push_back(integers ? std::floor(v) : v);
    }
    ctx_t ctx;
    if (!histogram)
    {
        pcase_t c;
        c.integers = integers;
        c.values   = values;
        for (int i = 0; i < 6; ++i)
        {
            switch (fdp.ConsumeIntegralInRange<int>(0, 2))
            {
            case 0: c.percentages.push_back(fdp.ConsumeIntegralInRange<int>(0, 800) / 8.0); break;
            case 1: c.percentages.push_back(fdp.ConsumeFloatingPointInRange<double>(0.0, 100.0)); break;
            default:
                c.percentages.push_back(std::min(100.0, 50.0 * fdp.ConsumeIntegralInRange<int>(0, 2 * 64) / std::max(1.0, static_cast<double>(n) - 1.0)));
                break;
            }
        }
        verif::fuzz::account(check_percentiles(c, ctx), ctx, serialize("percentile", c));
    }
    else
    {
        hcase_t c;
        c.integers = integers;
        c.values   = values;
        c.mode     = fdp.ConsumeIntegralInRange<int>(0, 5);
        const auto k = fdp.ConsumeIntegralInRange<size_t>(1, 12);
        switch (c.mode)
        {
        case 0:
            for (size_t i = 0; i < k; ++i)
            {
                c.params.push_back(fdp.ConsumeBool() ? values[fdp.ConsumeIntegralInRange<size_t>(0, n - 1)] : decode_value(fdp, style));
            }
            break;
        case 1:
            for (size_t i = 0; i < k; ++i)
            {
                c.params.push_back(fdp.ConsumeIntegralInRange<int>(1, 999) / 1000.0);
            }
            break;
        case 2:
            for (size_t i = 0; i < k; ++i)
            {
                c.params.push_back(fdp.ConsumeIntegralInRange<int>(1, 999) / 10.0);
            }
            break;
        case 3: c.params.push_back(fdp.PickValueInArray({2.0, 10.0, 2.718281828459045, 1.5})); break;
        default: c.params.push_back(static_cast<double>(fdp.ConsumeIntegralInRange<int>(2, 12))); break;
        }
        for (int i = 0; i < 8; ++i)
        {
            const auto base = values[fdp.ConsumeIntegralInRange<size_t>(0, n - 1)];
            switch (fdp.ConsumeIntegralInRange<int>(0, 3))
            {
            case 0: c.queries.push_back(base); break;
            case 1: c.queries.push_back(std::nextafter(base, 1e300)); break;
            case 2: c.queries.push_back(std::nextafter(base, -1e300)); break;
            default: c.queries.push_back(base + fdp.ConsumeIntegralInRange<int>(-16, 16) / 8.0); break;
            }
        }
        verif::fuzz::account(check_histogram(c, ctx), ctx, serialize("histogram", c));
    }
    return 0;
}
