// Shared by the libFuzzer targets: verdict accounting, stats file for the driver, oracle trap.
// A target decodes the fuzzer's bytes into the SAME case_t the rapidcheck harness uses and calls
// the SAME check function (the harness source is included with VERIF_NO_MAIN), so the semantic
// oracle lives inside the target.  On a violation: print `ORACLE <signature>` + the decoded case
// to stderr and trap (libFuzzer saves the input as crash-*; the driver confirms it 3x).
#pragma once

#include "common.h"

#include <fuzzer/FuzzedDataProvider.h>

namespace verif::fuzz
{
struct stats_t
{
    uint64_t                 execs{0}, nontrivial{0}, discards{0}, borderline{0}, known{0};
    std::set<uint64_t>       hashes;
    std::vector<std::string> samples;
};

inline stats_t& stats()
{
    static stats_t* s = new stats_t; // leaked on purpose: read by the atexit handler
    return *s;
}

inline void flush_stats()
{
    const char* path = std::getenv("VERIF_FUZZ_STATS");
    if (path == nullptr)
    {
        return;
    }
    auto&              s = stats();
    std::ostringstream json;
    json << "{\"execs\":" << s.execs << ",\"nontrivial\":" << s.hashes.size() << ",\"discards\":" << s.discards << ",\"borderline\":" << s.borderline
         << ",\"known\":" << s.known << ",\"samples\":[";
    for (size_t i = 0; i < s.samples.size(); ++i)
    {
        json << (i ? "," : "") << "\"" << json_escape(s.samples[i]) << "\"";
    }
    json << "]}\n";
    write_file(path, json.str());
}

inline void init_once()
{
    static bool done = false;
    if (!done)
    {
        done = true;
        std::atexit(&flush_stats);
    }
}

// account one execution; traps on a violation
inline void account(const verdict_t& v, const ctx_t& ctx, const std::string& text)
{
    init_once();
    auto& s = stats();
    ++s.execs;
    switch (v.kind)
    {
    case kind_t::ok:
        if (ctx.nontrivial && s.hashes.size() < 2000000 && s.hashes.insert(fnv1a(text)).second && s.samples.size() < 3)
        {
            s.samples.push_back(text);
        }
        break;
    case kind_t::discard: ++s.discards; break;
    case kind_t::borderline: ++s.borderline; break;
    case kind_t::known: ++s.known; break;
    case kind_t::violation:
        std::fprintf(stderr, "ORACLE %s\n%s\n--- decoded case ---\n%s\n", v.sig.c_str(), v.msg.c_str(), text.c_str());
        flush_stats();
        __builtin_trap();
    }
}
} // namespace verif::fuzz
