"""C10 configuration."""

CHECK = {
    "harnesses": [
        {"exe": "c10_wlearner", "flavour": "plain", "cases": (40000, 1200000), "procs": (8, 14), "subs": ["optimal", "consistency"]},
    ],
    "min_nontrivial": (4000, 120000),
    "timeout": (900, 7200),
    "rule": ("rapidcheck-generated data sources (2..60 samples, 1..8 input features: scalar with ties / few distinct values over the 10 storage "
             "types, sclass and mclass with 1..6 classes, structured ones that must be ignored; missing masks none/random/all/first/last/"
             "all-but-one; |values| <= 300), 1..3 outputs laid out along any target dimension, gradient tensors in [-3,3] (reals, small "
             "integers, two-valued, constant, sparse), fit sample lists (all, subset, with repetition, reversed, few, single), 1..16 threads, "
             "4 orders of the feature generators. Sub-check 'optimal' (rss criterion; stump, hinge, affine, dense table, dstep table): the "
             "returned score is compared with a brute-force minimum over the hypothesis class computed in long double with two-pass sums "
             "(every scalar feature x every mid-point between distinct sorted values x both hinge directions with the least-squares slope "
             "through the hinge; per-feature least-squares line; per-labelling means; best single labelling; samples without a value keep "
             "their full squared residual; the 1e3*eps floor; no usable feature <=> the no-fit score), tolerance 1e3*eps*(sum of magnitudes "
             "of the terms of the closed forms), borderline up to 10x; the RSS of the fitted learner's own predictions must reproduce that "
             "minimum. Sub-check 'consistency' (all 8 learners incl. kbest/ksplit tables and trees of depth 1..4, all 4 criteria): over 5 "
             "sample lists (arbitrary, with repeats, single sample, all, the fit list) predictions equal the table / coefficients of the "
             "group reported by split(), are added to pre-filled outputs, are exactly zero where the selected feature (any feature on the "
             "tree path) is missing in the reference data, and are the same for a sample wherever it appears; scale(s) with a scalar and with "
             "a per-group vector (s >= 0, incl. 0) multiplies them; wlearner::merge of up to 24 fitted learners (each type fitted to two "
             "gradient tensors plus a scaled clone, shuffled) keeps the sum of predictions (1e-12 relative to the term magnitudes); a tree of "
             "depth 1 has the stump's score and, when it chose the same split, its predictions. Non-trivial: the selected/winning feature "
             "of some learner has >= 3 distinct values (scalar) or >= 2 labellings among the fit samples, some feature value of a fit sample "
             "is missing and the gradients of the fit samples are not constant. Distinct = distinct serialised cases (64-bit hash)."),
    "assumptions": ["the harness-side brute force (long double, two-pass) and the generated data_spec_t as reference for feature values / missing masks are correct",
                    "feature magnitudes are kept <= 300: the one-pass moment formulas of hinge/affine lose precision when |offset|/spread >> 1e6; such inputs are covered only through the magnitude-scaled tolerance",
                    "affine on a feature that is constant (or never given) among the fit samples: singular normal equations; both skipping the feature and fitting the best constant are accepted (DESIGN.md 4.3), any other value is classified as the finding C10/affine/fit/constant-feature-noise-fit; dstep on a feature without any labelling: skipping it or scoring the zero predictor are both accepted",
                    "ties between features/thresholds: only the optimal value is compared; depth-1 tree vs stump predictions are compared only when both chose the same split",
                    "the per-group scale vector has one entry per table (stump, tables, tree leaves) or one entry (affine, hinge), which equals split().groups() except for trees with several outputs"],
    "technique": "property-based testing (rapidcheck) against a brute-force search over the hypothesis class and metamorphic relations (add / scale / merge / list independence); forked probes keep crash mechanisms of known findings from killing the run",
    "level_text": ("Generated-input exploration: thousands (quick) to hundreds of thousands (thorough) of generated datasets, gradient tensors and "
                   "sample lists; every fit of the five optimal learners is compared with an independent brute-force minimum and every learner's "
                   "predictions with its split, scale and merge algebra; held on everything generated, no claim beyond that."),
    "level_note": "trusted: the harness-side brute force and reference data model, rapidcheck, Eigen; dataset views are the subject of C08; thread schedules are not controlled (1..16 pool threads)",
}
