"""C19 configuration: parameters stay inside their declared domain; clones are configuration-equal."""

# Sub-check weights in harness/c19_parameter.cpp: history 150000 : history_exhaustive 540 : factory 2900.
# 26 = kind x comparator combinations (enum 1, integer 4, scalar 4, integer pair 8, scalar pair 8, string 1);
# 143 = objects registered in the 11 factories of the current tree (the harness reads the ids at run time).
CHECK = {
    "harnesses": [
        {"exe": "c19_parameter", "flavour": "plain", "cases": (153440, 3068800), "procs": (8, 8),
         "subs": ["history", "history_exhaustive", "factory"]},
        # thorough only: all histories of length <= 4, one (combination, first operation) cell per case (693 cells, 20-fold)
        {"exe": "c19_parameter", "flavour": "plain", "cases": (0, 13860), "procs": (1, 6),
         "subs": ["history_exhaustive"], "args": ["--sub", "history_exhaustive", "--deep"]},
    ],
    "fuzzers": [{"exe": "fz_parameter", "runs": (200000, 20000000), "max_len": 256, "jobs": (4, 12)}],
    "min_nontrivial": (20000, 400000),
    "timeout": (900, 7200),
    "rule": ("history: one parameter of a generated kind (enum, integer, scalar, integer pair, scalar pair, string) x <=/< comparators x domain "
             "(small, degenerate min == max, medium, int64 limits, +-1e300 / DBL_MAX, denormal, around 2^53), registered in a configurable_t between "
             "two other parameters, then 1..10 operations: assign int64/int32/double (bounds, bounds +- 1 / +- 1 ulp / +- 0.5, NaN, +-inf, +-0, +-1e300, "
             "+-2^63), assign int32/int64/double pairs, assign strings (clean literals, blanks, trailing characters, '+', hex, overflow, inf/nan, "
             "empty, garbage, pairs with each delimiter ';,:|/ ', one / three tokens), assign enumerators (valid, invalid, of another enumeration; the harness enumeration alpha/beta/gamma/delta/alp/betamax has names that are proper prefixes of other names, like the library's aic/aicc), "
             "write+read of the parameter and of the configurable, typed reads of every kind, copies, lookups of unregistered names. Oracle = the "
             "reference model in the harness: must-accept if the value is exactly representable in the kind and inside the domain, must-reject if it "
             "is of another kind / non-finite / not representable / violates a bound or the pair ordering after conversion, open (either outcome) if "
             "it is inside the domain only after a lossy conversion or a lenient reading of the string; after each operation: threw => stored value "
             "unchanged, accepted => stored value == converted value, always stored value inside the declared domain, domain and neighbours "
             "untouched; wrong-kind reads and unknown names throw; an initial value outside the domain is refused at construction. "
             "history_exhaustive: every history of length <= 3 (thorough: <= 4) over a fixed alphabet of 17..28 operations for each of the 26 kind x "
             "comparator combinations. factory: every id of the 11 factories: get(id)->type_id() == id, every default inside its own domain and "
             "re-assignable, clone / second object: same id, same dynamic type, equal parameters and serialised bytes, behaviour probe identical bit "
             "for bit (solver: minimise two 4-D functions; line-searches: steps on a fixed state; loss: error/value/vgrad; splitter: split of 0..29; "
             "tuner: fixed landscape; function: value + gradient; others: bytes + id), every parameter of the clone moved to another in-domain value "
             "without changing the original's bytes and vice versa, the factory prototype stays untouched, solvers: the clone owns equal but distinct "
             "line-search objects. Non-trivial: a history with an accepted assignment followed by a rejected one; a factory object with at least one "
             "modifiable parameter. Distinct = distinct serialised cases (64-bit hash)."),
    "assumptions": ["harness-side reference model of parameter assignment (string classes: clean literal / must reject / open) is correct",
                    "the float -> int64 conversion of an unrepresentable double is undefined in the library: the class where x86-64's result (INT64_MIN) "
                    "lies inside the domain is left open (DESIGN.md 4.4) and counted",
                    "rapidcheck generators; Eigen"],
    "technique": "model-based stateful property testing (rapidcheck) of parameter histories + exhaustive short histories + enumeration of all factory objects + coverage-guided fuzzing (libFuzzer) of histories against the same reference model",
    "level_text": ("Generated-input exploration against an executable reference model: 1.5e5 (quick) to 3e6 (thorough) random histories of up to 10 "
                   "operations, every history of length <= 3 (quick, also replayed deterministically on every run) / <= 4 (thorough) over a fixed "
                   "alphabet for all 26 kind x comparator combinations, and every object of the 11 factories (each id drawn ~20 times with different "
                   "replacement values); held on everything generated, no claim beyond that."),
    "level_note": ("trusted: the harness-side reference model, rapidcheck, Eigen; behaviour probes of generators, weak learners, linear models and data "
                   "sources compare the serialised configuration and the id only (fitting needs data sets, covered by other properties); the libFuzzer "
                   "target of DESIGN.md is not built (the random history generator already draws free-form strings)"),
    "exhaustive_subspaces": [
        "parameter histories of length <= 3 over the fixed 17..28-operation alphabets, all 26 kind x comparator combinations (replays/C19/history-exhaustive-all-26-combinations-depth-3.case, deterministic, every run; ~4.2e5 operations)",
        "thorough: the same with length <= 4, one (combination, first operation) cell per generated case, >= 20-fold oversampling, per-cell hit counts in the class histogram",
        "all ids of the 11 factories (uniformly drawn (factory, id) pairs, >= 20 x 143 cases, per-id hit counts in the class histogram)",
    ],
}
