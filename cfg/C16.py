"""C16 configuration: tensor indexing / slicing / reshaping / gathers / storage conversions / summed-area table (asan flavour).

Two executables (ranks 1..3 and ranks 4..5 + nano::stack) share harness/c16_tensor.h; the split only keeps the
ASan+UBSan compile time of each translation unit below three minutes.  The `sweep` sub-checks enumerate the finite
space of small shapes deterministically (one case per (rank, shape, scalar type) combination, in a fixed order that
does not depend on the seed): 1050 combinations for ranks 1..3 and 9894 for ranks 4..5 (`<exe> --combinations`).
"""

SWEEP_LO = 1050   # ranks 1..3: (5 + 25) shapes x 10 scalar types + 125 shapes x 6 scalar types
SWEEP_HI = 9894   # ranks 4..5: (625 + 1024) shapes x 6 scalar types

CHECK = {
    "harnesses": [
        # complete, deterministic enumeration of the small shapes (independent of VERIF_SEED)
        {"exe": "c16_tensor", "flavour": "asan", "cases": (SWEEP_LO, SWEEP_LO), "procs": (1, 1), "args": ["--sub", "sweep"], "subs": ["sweep"]},
        {"exe": "c16_tensor_hi", "flavour": "asan", "cases": (SWEEP_HI, SWEEP_HI), "procs": (1, 1), "args": ["--sub", "sweep-hi"], "subs": ["sweep-hi"]},
        # random: small shapes with random salts / gather lists / masks / real-valued integrals (30/31 resp. 30/41 of the
        # cases), shapes up to 1e5 elements (1/31 resp. 1/41), nano::stack (10/41)
        {"exe": "c16_tensor", "flavour": "asan", "cases": (20000, 620000), "procs": (3, 6), "subs": ["small", "large"]},
        {"exe": "c16_tensor_hi", "flavour": "asan", "cases": (26000, 492000), "procs": (3, 6), "subs": ["small-hi", "large-hi", "stack"]},
    ],
    "fuzzers": [{"exe": "fz_tensor", "runs": (4000, 600000), "max_len": 256, "jobs": (4, 12)}],
    "min_nontrivial": (9900, 9900),
    "timeout": (900, 7200),
    "rule": ("For every rank 1..5, every shape with all extents in 0..4 (rank 5: 0..3) and every scalar type (int8, uint8, int32, uint64, "
             "float, double; for rank <= 2 also int16, uint16, uint32, int64) - 10944 combinations enumerated completely and "
             "deterministically - the harness builds an owning tensor, a map and a constant map over exactly-sized heap blocks and loops "
             "over ALL index tuples (offset / index / operator() = row-major rank, address = data + rank), ALL prefixes (offset0, dims0, "
             "vector, array, matrix, tensor views: address, extents, contents), ALL first-axis slices [b, e), ALL ordered factorisations of "
             "size() into 1..4 positive extents for reshape (plus each position of one inferred -1 whose remaining extents are positive, plus "
             "zero-extent targets for empty tensors), all storage conversions (aliasing: same address; copying: different address, equal "
             "contents), index gathers (identity, reversed, repeated, single, random lists; all three overloads and a casting one), "
             "remove_if for all 2^d0 masks, and nano::integral against the definition (sum over the component-wise smaller cells; integers "
             "exact, dyadic reals exact, arbitrary reals within 1e3*eps*sum|terms|).  Element identity: every write goes through one access "
             "path with values identifying the linear index and is read back through full indexing and the raw block (a harness-side "
             "mirror says what every cell must hold).  Random part: the same on random small shapes with random salts, lists and masks, "
             "on random shapes up to 1e5 elements (sampled slices and reshape targets, separable prefix-sum reference), and nano::stack "
             "for five block layouts.  Every block is exactly sized, so AddressSanitizer aborts on any touch outside the tensor.  "
             "Non-trivial: rank >= 2 with at least one extent equal to 0 or 1 (small shapes; the -1 inference is exercised for every "
             "shape), >= 100 elements (large shapes), a block matrix (stack).  Distinct = distinct serialised cases (64-bit hash)."),
    "assumptions": ["harness-side row-major arithmetic and mirror are correct", "AddressSanitizer / UBSan (memory-safety subset) report out-of-block accesses",
                    "Eigen allocates the owning tensors' blocks with plain malloc (exactly sized)", "rapidcheck generators"],
    "technique": "exhaustive enumeration of small shapes + property-based testing (rapidcheck) + coverage-guided fuzzing (libFuzzer) against a row-major mirror model, under AddressSanitizer",
    "level_text": ("Generated-input exploration with a completely enumerated finite sub-space: all 10944 (rank, shape, scalar type) combinations with "
                   "extents in 0..4 (rank 5: 0..3) are checked for every index tuple, prefix, slice and reshape factorisation on every run; beyond "
                   "that tens of thousands (quick) to millions (thorough) of random cases including shapes up to 1e5 elements.  Held on everything "
                   "generated, no claim for other shapes, ranks above 5 or other scalar types."),
    "level_note": ("trusted: the harness-side mirror / stride arithmetic, AddressSanitizer + UBSan runtimes, Eigen, rapidcheck; domain: reshape with -1 only "
                   "with positive remaining extents (documented NB in tensor.h, F7), gathers with non-empty in-range index lists, stack blocks with positive extents"),
    "exhaustive_subspaces": ["all shapes of rank 1..4 with extents in 0..4 and of rank 5 with extents in 0..3, for 6 (rank <= 2: 10) scalar types: every index "
                             "tuple, prefix, first-axis slice, ordered reshape factorisation into 1..4 extents (and each inferred position), all 2^d0 "
                             "remove_if masks (sub-checks sweep, sweep-hi; deterministic, seed independent)"],
}
