"""C20 configuration (see cfg/README in HARNESS_GUIDE.md)."""

CHECK = {
    "harnesses": [
        {"exe": "c20_stats", "flavour": "plain", "cases": (1200000, 20000000), "procs": (8, 14), "subs": ["percentile", "histogram"]},
    ],
    "fuzzers": [{"exe": "fz_stats", "runs": (800000, 40000000), "max_len": 256, "jobs": (4, 12)}],
    "min_nontrivial": (1000, 10000),
    "rule": ("rapidcheck-generated lists of 1..500 integers/reals (ties, negatives) x 6 percentages (k/8 grid, reals, positions integral "
             "up to rounding) and histograms in 6 construction modes x 12+ query values; oracle = sorted-array reference with the exact "
             "rational position / the counting rule #{thresholds <= v}. Non-trivial: percentile case with >= 3 values, not all equal and a "
             "fractional position; histogram case with >= 2 non-empty bins, a data value equal to a threshold and a non-integer query. "
             "Distinct = distinct serialised cases (64-bit hash)."),
    "assumptions": ["harness-side sorted-array reference is correct", "rapidcheck generators; Eigen"],
    "technique": "property-based testing (rapidcheck) + coverage-guided fuzzing (libFuzzer, ASan/UBSan) against a sorted-array reference model with exact rational positions",
    "level_text": ("Generated-input exploration: hundreds of thousands (quick) to tens of millions (thorough) of generated value lists, "
                   "percentages, threshold sets and query values are compared with an independent sorted-array reference; held on everything "
                   "generated, no claim beyond that."),
    "level_note": "trusted: the harness-side reference (sorting + exact position in long double), rapidcheck, Eigen; ambiguous near-integer positions accept both roundings",
}
