"""C06 configuration: values, gradients and convexity flags are truthful."""

CHECK = {
    "harnesses": [
        {"exe": "c06_calculus", "flavour": "plain", "cases": (180000, 3600000), "procs": (3, 5),
         "subs": ["functions", "constraints", "surrogate"]},
        {"exe": "c06_losses", "flavour": "plain", "cases": (120000, 2400000), "procs": (2, 4), "subs": ["losses"]},
        {"exe": "c06_objectives", "flavour": "plain", "cases": (30000, 900000), "procs": (3, 5), "subs": ["objectives"]},
    ],
    "min_nontrivial": (100000, 2000000),
    "timeout": (900, 7200),
    "rule": ("object in {48 registered benchmark functions made at dims 1..32 (and 1..60 summands), 17 losses x 1..13 outputs x valid and "
             "arbitrary +-1 / real target patterns, 11 constraint kinds with generated coefficients (P: low-rank PSD, PD, symmetric indefinite, general non-symmetric, non-symmetric upper triangular with a positive diagonal, "
             "diagonal, zero; functional constraints wrap benchmark functions), quadratic surrogate fit/opt functions, linear::function_t and "
             "the 3 gboost objectives over generated datasets (5..40 samples, 1..6 inputs, 1..3 targets, every loss of the matching family, "
             "l1/l2 in {0} U logu(1e-6,1e3), 4 scalings, batch 1..samples+1, sample subsets)}; x, z in boxes of radius logu(1e-3, 10) (30 for "
             "loss predictions), uniform / coarse-grid / sparse points. Oracle: (1) central differences at h=1e-4*max(1,|x|) and h/2 along 3 "
             "directions at x and z with truncation estimate E_t, rounding estimate E_r and the skip-when-not-differentiable rule, failures "
             "confirmed at 3 finer step pairs; (2) value-only == value+gradient bit for bit; (3) declared convex => "
             "f(z) >= f(x)+g.(z-x)+(mu/2)|z-x|^2 - 1e3*eps*(terms), on the generated pairs and after a random-restart coordinate hill-climb "
             "(3 starts, 60..200 generated steps) maximising the violation; (4) losses: value/error/gradient of a sample unchanged when the "
             "batch around it changes, value >= 0, error >= 0, 0-1 error == arg-max / sign rule recomputed in the harness. Non-trivial: "
             "non-zero gradient, at least one derivative test not skipped, x != z for convex objects, and for classification losses the "
             "error rule was actually compared. Distinct = distinct serialised cases (64-bit hash)."),
    "assumptions": ["quadratic constraint terms P are symmetric in 5 of 7 generated modes and general in 2 (the gradient of 0.5 x'Px + q'x + r is 0.5 (P+P')x + q)",
                    "class targets are +-1; single-label targets have exactly one positive label for non-negativity and the error rule "
                    "(one-output binary layout: +-1; class-NLL needs a positive label)",
                    "rounding scale of a value = |f| + |f| at 0, +-1, (+1,-1,..) (constants hidden by internal cancellation) + argument magnitudes for losses",
                    "datasets are evaluated with one thread (thread counts are C09's subject)"],
    "technique": "property-based testing (rapidcheck): directional finite differences with error estimates, sub-gradient inequality with hill-climbing on the violation, metamorphic batch independence",
    "level_text": ("Generated-input exploration: every registered function / loss / constraint kind / objective is instantiated over its "
                   "whole parameter range and checked at hundreds of thousands (quick) to millions (thorough) of generated points and point "
                   "pairs, the convexity inequality additionally after an adversarial local search; held on everything generated except the "
                   "open known finding F4 (linear objective's strong-convexity coefficient ignores the unregularised bias), no claim beyond that."),
    "level_note": ("trusted: the harness-side finite-difference / inequality arithmetic (long double accumulations), rapidcheck, Eigen; kinks are "
                   "skipped by rule (counted per family), tolerances 1e3*eps*terms with a 10x borderline band; F4 is excluded by its mechanism "
                   "predicate (holds with mu=0 and holds with mu on weight-block directions), everything else about that object stays under test"),
}
