"""C11 configuration: fitted models reproduce the reported statistics; early stopping keeps the right round."""

# c11_early_stopping: sub-check weights exhaustive : random = 1 : 9 (harness/c11_early_stopping.cpp main()).
#   The finite early-stopping space is cut into 160 chunks = {patience 1..4} x {with | without validation samples} x
#   {"above epsilon" training value 1 | exactly epsilon} x {first symbol of the 10-symbol alphabet}; one generated case = one
#   uniformly drawn chunk, walked completely (all continuations up to 8 calls without validation samples; with validation
#   samples the tree is finite - every history stops by call 13 - and is walked to its leaves, vdepth 16).
#   quick: 33 000 cases / 4 processes = 8 250 per process, 1/10 of them = 825 exhaustive cases per process, 3 300 in total
#   >= 20 x 160: P(some chunk never drawn) < 160 * exp(-20) < 1e-6; per-cell hit counts (16 cells of 10 chunks) are in the
#   class histogram.  Independently of the generator, replays/C11/early-stopping-all-chunks.case walks all 160 chunks
#   deterministically on every run (9 188 960 done() calls, ~1.5 s).
CHECK = {
    "harnesses": [
        {"exe": "c11_early_stopping", "flavour": "plain", "cases": (33000, 400000), "procs": (4, 4), "subs": ["exhaustive", "random"]},
        {"exe": "c11_models", "flavour": "plain", "cases": (6000, 80000), "procs": (4, 8), "subs": ["linear", "gboost"]},
    ],
    "min_nontrivial": (8000, 100000),
    "timeout": (900, 7200),
    "rule": ("[a quarter of the model cases fit the SAME model object twice and check the second result] (a) early stopping: gboost::early_stopping_t driven like its caller does (rounds 0,1,2,... with wlearners.size() == round, never "
             "after a stop) against a reference monitor written from the statement (list of accepted rounds, best value, snapshot); after every "
             "done() call the answer, round(), values() (bitwise) and value() must agree. Exhaustive: alphabet (train below eps | above eps) x "
             "validation values {1, 1.125, 1.25, 1.5, 2} with eps = 0.25 (differences <, ==, > eps), dyadic per-sample values so all arithmetic "
             "is exact, sample lists that do not cover all samples (poison values elsewhere). Random: histories of 1..60 rounds, eps in "
             "[1e-12, 1] (log-uniform) or dyadic, patience 1..12, 1..4 training and 0..4 validation samples, validation error = random walk in "
             "units of eps with exact / near ties, a dyadic-grid style (exact ties) and a real style (comparisons within 16 ulp of the threshold "
             "end the history, counted 'ambiguous-threshold'). "
             "(b) model fits: data sources from the shared generator (20..120 samples, 1..6 inputs incl. categorical / structured / missing "
             "values (boosting only), targets = noisy planted function of the inputs: scalar or structured regression, single-label, "
             "multi-label), samples given to fit = all or a subset; linear ordinary | lasso | ridge | elastic_net x 4 scalings x batch, or "
             "gradient boosting with 1..4 prototypes from the 8 weak learners x shrinkage off | global | local x 5 subsample modes x subsample_ratio over (0, 1] (incl. ratio x #train < 1) x wscale "
             "gboost | tboost x max_rounds 10..12 x patience 1..4 x eps in [1e-12, 1]; 17 losses matched to the target; k-fold | random "
             "splitter, 2..5 folds, any seed; local-search | surrogate tuner, max_evals 10..20; lbfgs with 10..100 evaluations; 1 | 2 | 4 threads. "
             "Oracle: the splitter is re-run to obtain each fold's indices; for each (trial, fold) the stored model (extra(trial, fold)) is "
             "evaluated by the harness's own composition (W x + b on the un-scaled flatten inputs; bias + sum of the individual weak learners' "
             "predictions), loss_t::error/value give the per-sample values, and mean / stdev / count / 9 percentiles are recomputed and compared "
             "with stats(trial, fold, split, value) at 1e-9 relative (+ the change a 4e-9 relative perturbation of the predictions induces); "
             "the same for the final statistics with the final model on the fitted samples; model.predict == own composition; final boosting "
             "prediction == mean over folds of the fold models of an arg-min trial (ties: any arg-min within 1e-9); per fold model: "
             "m_statistics has optimum_round + 1 rows, its last row equals the recomputed train/valid error and loss of the stored (truncated) "
             "model, #weak learners == optimum round (<= when the pool has mergeable learners), and the reference monitor fed with the reported "
             "rounds never stops before the optimum round and has its last accepted improvement exactly there. "
             "Non-trivial: exhaustive chunk whose first symbol does not stop; random history with >= 5 rounds, >= 2 accepted improvements and a "
             "stop or an improvement after waiting; fit with >= 2 folds whose validation error means are non-zero and pairwise different "
             "(classification: at least two different non-zero values) and, for boosting, a fold model whose optimum round is neither 0 nor "
             "max_rounds. Distinct = distinct serialised cases (64-bit hash); the exhaustive sub-check has 64 distinct non-trivial cases (chunks with >= 100 "
             "done() calls) by construction."),
    "assumptions": [
        "the harness-side reference monitor, model composition and statistics (harness/c11_reference.h, c11_models.cpp) are correct",
        "lower-level API used as given: dataset_t::flatten/targets (C08), wlearner_t::predict (C10), loss_t::error/value (C09), splitter_t::split (C12)",
        "readings of what the statement leaves open: a stop by training error < eps reports the stopping round (R1); without validation samples "
        "every round is accepted and only the training error stops (R2); 'stdev' is the library's tensor.stdev() statistic "
        "sqrt(population variance / (n-1)) pinned by test/test_stats.cpp, accepted inside the rounding band of its one-pass variance",
        "classification errors are step functions: a (trial, fold, split) whose predictions lie within 1e-7 relative of a decision boundary is "
        "compared on the loss statistics only (counted 'fragile-classification-error')",
        "fits that diverge (non-finite statistics, a fold or final model with a prediction above 1e30 in magnitude, tuner 'invalid value' exception) or hit the surrogate tuner's documented critical are discarded and counted",
    ],
    "technique": ("exhaustive enumeration of short error histories + stateful property-based testing (rapidcheck) of the early-stopping monitor against "
                  "a reference model; recompute-from-scratch of every stored statistic through the lower-level API for generated model fits"),
    "level_text": ("Generated-input exploration plus a completely enumerated finite sub-space: every early-stopping history over the 2 x 5 "
                   "alphabet x patience 1..4 x with/without validation samples (up to 8 calls without validation samples, of any length with "
                   "them: 9.2 million done() calls) is checked deterministically on every run through the replay file and again through >= 20-fold "
                   "oversampled generated chunks; beyond that thousands (quick) to hundreds of thousands (thorough) of random histories and of "
                   "model fits whose every stored statistic is recomputed from the stored models; held on everything generated, no claim beyond that."),
    "level_note": ("trusted: the harness-side reference monitor / composition / statistics, the lower-level library API used to evaluate a stored model "
                   "(flatten, targets, weak-learner predict, loss error/value, splitter), rapidcheck, Eigen; rounds after the optimum round are not "
                   "observable in the returned result (statistics are truncated), so 'stops exactly when' is decided on the monitor itself (part a) and "
                   "only checked for consistency on fits (part b); thread schedules are not explored here"),
    "exhaustive_subspaces": [
        "early stopping, with validation samples: ALL histories (any length; every one stops within 13 calls) over (train below | above eps) x validation values {1, 1.125, 1.25, 1.5, 2}, eps 0.25, patience 1..4, above-eps training value 1 or exactly eps (replays/C11/early-stopping-all-chunks.case, deterministic, every run)",
        "early stopping, without validation samples: all histories of up to 8 calls over the same alphabet x patience 1..4 (same replay file; 3 125 000 histories reach 8 calls)",
        "the same 160 chunks through generated cases: one uniformly drawn chunk per case, >= 20 x 160 cases on the quick tier, per-cell hit counts in the class histogram",
    ],
}
