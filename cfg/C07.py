"""C07 configuration (see HARNESS_GUIDE.md)."""

CHECK = {
    "harnesses": [
        {"exe": "c07_lsearch", "flavour": "plain", "cases": (2400000, 30000000), "procs": (8, 14), "subs": ["lsearch"]},
    ],
    "min_nontrivial": (400000, 5000000),
    "timeout": (900, 7200),
    "rule": ("one lsearchk_t::get call per case: function = generated convex quadratic (50 %, n 1..16, kappa up to 1e6, s in [1e-3,1e3]) or a registered "
             "smooth function at 1..16 dims; state in a box of radius 1e-2..1e3; direction = -g | -g rotated by atan(1e-2..1e3) | -(BB'+delta I)g, scaled by "
             "1e-3..1e3 (70 %) or a non-descent direction: +g | exactly orthogonal (g.d == 0) | 0 | orthogonal + 1e-6 g (30 %); initial step in [1e-3,1e3] "
             "(75 %) or NaN, +-inf, 0, negative; (c1,c2) anywhere in 0<c1<c2<1 (log-uniform towards 0 and towards 1); interpolation bisection|quadratic|cubic; "
             "max_iterations in [1,10000]; the five registered line-searches. Oracle (everything recomputed on a second instance of the function, slopes in "
             "long double): non-descent => failure and (x, f, g) of the state bit-identical; success => t finite > 0, state.x = x0+t*d, state.f/g = the "
             "function at state.x bit for bit; backtrack: Armijo, lemarechal: Armijo+Wolfe, fletcher: Armijo+strong Wolfe with slack 1e3*eps*(|f0|+|f|+|t g0.d|) "
             "and 1e3*eps*(sum|g0_i d_i|+sum|g_i d_i|), violation beyond 10x; on the generated quadratics (descent direction, max_iterations >= 128, initial step "
             "as quantified, the steps satisfying the conditions form an interval at least 16 stpmin wide inside [16 stpmin, stpmax/16], c1 < 1/2 for CG_DESCENT): all five succeed and satisfy their condition "
             "(More-Thuente strong Wolfe, CG_DESCENT Wolfe or approximate Wolfe). Non-trivial: success after more than one trial step, or a refused non-zero "
             "non-descent direction. Distinct = distinct serialised cases (64-bit hash)."),
    "assumptions": ["harness-side construction of the quadratic and of the directions is correct",
                    "the registered benchmark functions evaluate deterministically (a second instance reproduces value and gradient bit for bit)",
                    "rapidcheck generators; Eigen"],
    "technique": "property-based testing (rapidcheck): every accepted step is re-judged against the advertised inequalities recomputed from an independent evaluation",
    "level_text": ("Generated-input exploration: millions (quick) to tens of millions (thorough) of generated line-search calls, each re-judged from an independent "
                   "evaluation of the function; held on everything generated, no claim beyond that."),
    "level_note": ("trusted: harness-side recomputation (long double slopes, second function instance), rapidcheck, Eigen; rounding band 1e3*eps with violations only beyond 10x; "
                   "the quadratic clause is applied where an admissible acceptable step exists (see notes/C07.md)"),
}
