"""C04 configuration: LP/QP primal-dual interior point, `converged` means feasible and optimal (harness/c04_program.cpp)."""

CHECK = {
    "harnesses": [
        {"exe": "c04_program", "flavour": "plain", "cases": (640000, 16000000), "procs": (8, 14), "subs": ["kkt", "small"]},
    ],
    "min_nontrivial": (50000, 1000000),
    "timeout": (900, 7200),
    "rule": ("sub 'kkt' (85 %): LPs / convex QPs (Q = D'D, rank 0..n) with n in 1..12, 0..n-1 equalities, 1..2n+2 inequalities whose optimum "
             "(x*,u*,v*) is fixed by KKT construction (random active sets incl. degenerate vertices and weakly active rows, row magnitudes "
             "1e-2..1e2, optional box/simplex bounding rows so bounded and unbounded optimal faces both occur), default start or a strictly "
             "feasible start built by construction; sub 'small' (15 %): arbitrary integer programs n<=3, m<=6 (12 %: m=0, no inequality at all: the solver's direct KKT solve), p<=2, coefficients -5..5 "
             "(LP or positive definite QP), status and optimum decided by an exact rational oracle (Fourier-Motzkin with equality pivots / "
             "active-set enumeration, every answer re-verified by an exact certificate). 30 % of the cases are solved a second time under an "
             "equivalent restatement (duplicated / linearly combined equality rows, rescaled inequality rows / objective / equality rows, "
             "permuted rows / variables, all together). Oracle: `converged` => the four clauses of the statement against the caller's "
             "matrices, and never `converged` on an exactly infeasible / unbounded program; a non-converged status is never a violation. "
             "Non-trivial: converged, >= 2 inequalities, at least one active and one inactive at x* (small sub, infeasible/unbounded "
             "programs: the iteration was actually entered). Distinct = distinct serialised cases (64-bit hash)."),
    "assumptions": ["harness-side exact rational oracle (certificates re-verified exactly) and the KKT construction are correct",
                    "the objective-consistency clause is read relative to the sum of the magnitudes of the elementary terms |c_i x_i|, |x_i Q_ij x_j|/2 (the weaker reading)",
                    "rapidcheck generators; Eigen (SVD + a small dense simplex are used only to classify the optimal face, an 'unbounded' answer carries a verified direction)"],
    "technique": "property-based testing (rapidcheck): KKT-constructed programs with analytic optimum, exact rational oracle on small integer programs, metamorphic restatements",
    "level_text": ("Generated-input exploration: 6e5 (quick) to 1.6e7 (thorough) generated programs are solved by program::solver_t and every `converged` "
                   "result is compared with the constructed / exactly computed optimum and with the caller's own constraint matrices, also under "
                   "equivalent restatements; held on everything generated outside the two open known findings, no claim beyond that."),
    "level_note": ("trusted: the harness-side KKT construction and exact rational oracle (int128 rationals, certificates re-verified), Eigen, rapidcheck; "
                   "known findings C04/unbounded-optimal-face/iterate-divergence and C04/objective-consistency/stale-trial-point are classified by mechanism and excluded"),
}
