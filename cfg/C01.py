"""C01 configuration (see HARNESS_GUIDE.md)."""

CHECK = {
    "harnesses": [
        {"exe": "c01_quadratic", "flavour": "plain", "cases": (1200000, 24000000), "procs": (8, 14), "subs": ["solve", "truthful"]},
    ],
    "min_nontrivial": (200000, 4000000),
    "timeout": (900, 7200),
    "rule": ("[solve also runs BFGS with the documented `scaled` initialisation as a third solver variant] sub-check solve (3/4 of the cases): rapidcheck-generated quadratics 0.5x'Ax+a'x, A = s*Q*diag(kappa^e_i)*Q' with Q from the Householder QR of a "
             "generated Gaussian matrix, n in 1..16, kappa in [1,1e3] (30 % exactly 1e3), s in [1e-3,1e3] (10 % on each end), three spectrum layouts, 30 % of the instances from the region that costs most evaluations (n >= 12, "
             "kappa mostly 1e3, s mostly 1e-3), "
             "x* in [-5,5]^n (also corners, origin), x0 in [-10,10]^n (also corners, x0 = x*), solver lbfgs|bfgs at epsilon 1e-8, max_evals 1500; oracle: "
             "status converged, function+gradient evaluations counted by the harness' own function object <= 1500, "
             "||x-x*||_2 <= sqrt(n)*eps*max(1,|f(x)|)/lambda_min with f in long double and x* corrected for the rounding of a, and the recomputed "
             "stopping criterion < epsilon. Non-trivial: n >= 2 and kappa >= 10. "
             "sub-check truthful (1/4): 17 line-search solvers x 4 lsearch0 x 5 lsearchk x (c1,c2) in 0<c1<c2<1 x epsilon in [1e-12,1e-2] x max_evals in "
             "[10,5000] on generated quadratics (kappa up to 1e6) and every registered function with smooth() at 1..32 dims, |x0|_inf in [1e-3,10], plus "
             "starts on the sphere function where the criterion equals epsilon exactly; oracle: status converged => max|g|/max(1,|f|) < epsilon with f, g "
             "evaluated on a second, independently constructed instance of the function. Non-trivial: converged at a point different from x0. "
             "Distinct = distinct serialised cases (64-bit hash)."),
    "assumptions": ["harness-side construction of the quadratic (long double Householder QR, known spectrum and minimiser) is correct",
                    "the registered benchmark functions evaluate deterministically (a second instance reproduces value and gradient bit for bit; observed on every case)",
                    "rapidcheck generators; Eigen"],
    "technique": "property-based testing (rapidcheck) against analytic ground truth built into the generated instance and independent re-evaluation of the stopping criterion",
    "level_text": ("Generated-input exploration: about a million (quick) to tens of millions (thorough) generated problems and solver configurations; every run is "
                   "judged against the known minimiser / an independent re-evaluation; held on everything generated, no claim beyond that."),
    "level_note": "trusted: the harness-side quadratic construction and long double reference arithmetic, rapidcheck, Eigen; the evaluation budget is counted by the harness' own function object",
}
