"""C05 configuration: penalty / augmented-Lagrangian functions vs their formulas, AL solver feasibility (harness/c05_penalty.cpp)."""

CHECK = {
    "harnesses": [
        {"exe": "c05_penalty", "flavour": "plain", "cases": (1500000, 20000000), "procs": (8, 14), "subs": ["function", "solver"]},
    ],
    "min_nontrivial": (50000, 1000000),
    "timeout": (900, 7200),
    "rule": ("sub 'function' (90 %): objective = generated quadratic or one of the registered smooth functions (n = 1..8), 0..8 constraints drawn "
             "uniformly over the 11 registered kinds (constant, minimum, maximum, ball eq/ineq, linear eq/ineq, quadratic eq/ineq with symmetric P of "
             "either definiteness or (35 %) a general non-symmetric P, functional eq/ineq wrapping a generated quadratic or a non-smooth l1 function), real or small-integer data, x in "
             "[-5,5]^n, penalty in [1e-3,1e6], multipliers lambda in [-10,10], miu in [0,10] (15 % all zero); one third of the cases make every "
             "constraint hold at x by construction, one third a mix. Oracle: h_j, g_i and their gradients re-implemented from the constraint data, then "
             "the three defining formulas with their (sub)gradients (membership in the sub-differential at kinks of the linear penalty), agreement to "
             "1e3*eps*sum|terms| (violation beyond 10x), and equality with the objective at feasible points with zero multipliers. "
             "sub 'solver' (10 %): solver_augmented_lagrangian_t on KKT-constructed LPs/QPs (n <= 6) passed through make_function(program) and on "
             "ball/box/linear-equality constrained convex quadratics, epsilon in [1e-10,1e-4], x0 in [-5,5]^n; `converged` => every |h_j| and max(0,g_i) "
             "recomputed by the harness <= epsilon, state.ceq()/cineq() and kkt_optimality_test1/2 equal the recomputed values. "
             "Non-trivial: function case with >= 1 equality, >= 1 violated and >= 1 satisfied inequality at x; solver case converged with >= 1 equality "
             "and >= 1 inequality. Distinct = distinct serialised cases (64-bit hash)."),
    "assumptions": ["harness-side re-implementation of the 11 constraint kinds and of the three formulas is correct",
                    "'exactly' is read as agreement to 1e3*eps*sum of the magnitudes of the elementary terms (summation order is not part of the definition)",
                    "rapidcheck generators; Eigen"],
    "technique": "property-based testing (rapidcheck) against an independent re-implementation of the defining formulas; recomputation of solver-reported feasibility",
    "level_text": ("Generated-input exploration: 1.5e6 (quick) to 2e7 (thorough) generated (objective, constraint set, point, penalty, multipliers) tuples are "
                   "compared with independently coded formulas, and 1.5e5 to 2e6 augmented-Lagrangian runs are checked for truthful `converged` flags and "
                   "stored constraint values; held on everything generated, no claim beyond that."),
    "level_note": "trusted: the harness-side constraint / penalty formulas, Eigen, rapidcheck; registered objectives are evaluated through their own vgrad (the penalty layer is what is checked)",
}
