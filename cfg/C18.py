"""C18 configuration."""

CHECK = {
    "harnesses": [
        # the tsan flavour is listed first: replay files (regression inputs, saved failures, known-finding reproducers) are
        # routed to the first harness serving their sub-check, and a data race only shows under ThreadSanitizer
        {"exe": "c18_shared", "flavour": "tsan", "cases": (500, 5000), "procs": (2, 3),
         "subs": ["solver", "loss", "dataset", "predict", "fit", "wfit"]},
        {"exe": "c18_shared", "flavour": "plain", "cases": (2400, 40000), "procs": (4, 8),
         "subs": ["solver", "loss", "dataset", "predict", "fit", "wfit"]},
    ],
    "confirm": (5, 2),
    "min_nontrivial": (600, 8000),
    "timeout": (1500, 7200),
    "rule": ("Six sub-checks, generated cases run in the plain flavour and (a sixth of them, with other seeds) under ThreadSanitizer. (solver) one shared instance of each of the "
             "32 deterministic solver types (all ids of solver_t::all() but gs/ags*), generated epsilon 1e-10..1e-2, max_evals 50..400, line-search "
             "initialisation/strategy ids; 2..8 threads each minimising ITS OWN function object (clone of a benchmark function at 1..8 dims or a "
             "generated convex quadratic) from its own start point, 1..3 times. (loss) each of the 17 losses on shared read-only target/output "
             "tensors (1..200 samples, 1..27 outputs, valid class targets), threads call value/error/vgrad into their own buffers. (dataset) a shared "
             "dataset_t over a generated data source with a generated stack of 1..5 generators (identity x4, pairwise product, gradient); threads "
             "call flatten/select/targets/select-target with their own sample lists and buffers. (predict) a shared fitted model - each of the 8 "
             "weak learners, the 4 linear models, gradient boosting - threads call predict (both overloads) with their own sample lists, generated "
             "delays at the dataset pool's schedule points. In these four the oracle is: every call of every thread was first executed ALONE "
             "(sequentially, before the threads exist); the threads are released together by a spin barrier and every concurrent result must be "
             "bit-identical (any NaN equals any NaN) to the recorded one, exceptions included. (fit) full fit() of ordinary/lasso/ridge/elastic-net "
             "and of gradient boosting (pools of affine/stump/hinge/dtree/table learners, 5 subsampling modes with fixed seed, 3 shrinkage modes, "
             "k-fold/random splits, local-search/surrogate tuner) on generated continuous tie-free data under 3 configurations from "
             "{dataset pool 1,2,16} x {NANO_VERIF_MAX_THREADS 1,2,16} (always including the serial 1x1) with generated delays: same exception "
             "outcome, same number of weak learners, same selected features, predictions within 1e-5*max(1,max|prediction|) (10x band = borderline); "
             "models are compared only where re-association noise cannot decide a discrete step (smooth loss, no L1 term, no partition-scoring "
             "weak learner) - the other fits run for the race check only. (wfit) fit of ONE weak learner with given gradients on data with planted "
             "order-duplicate features and (half of the cases) missing values under dataset pools 1/2/16, repeated up to 20 times: score, features and predictions bit-identical. "
             "Non-trivial: >= 2 threads observed inside calls on the shared object at the same time (atomic in-flight counter; for fits: >= 2 "
             "fold/trial tasks running at once, from the worker_run/worker_ran schedule points) and a non-degenerate result (>= 2 threads whose "
             "minimisation used >= 3 evaluations; non-zero loss values / views / predictions; boosting kept >= 1 weak learner; the fit is in the "
             "compared class). Distinct = distinct serialised cases (64-bit hash)."),
    "assumptions": ["OS schedules are sampled (spin-barrier release, generated start staggers, generated delays at the pool's schedule points), not enumerated",
                    "ThreadSanitizer sees only the accesses of the schedules that ran; libstdc++ itself is not instrumented",
                    "fit comparison domain: smooth objective and no partition-scoring weak learner (elsewhere rounding-level re-association noise "
                    "legitimately decides line-search steps / tied candidates); those fits are still run for races and exceptions",
                    "prediction tolerance 1e-5 relative to max(1, largest |prediction|) of the serial model"],
    "technique": "differential property-based testing: concurrent vs alone (bit-exact) and fit under 1/2/16 threads, generated schedule perturbation, ThreadSanitizer",
    "level_text": ("Generated-input exploration: thousands (quick) to >100k (thorough) generated sharing scenarios over every deterministic solver, "
                   "every loss, generated generator stacks and every model type, each compared bit-for-bit with the same calls executed alone, a share "
                   "of them under ThreadSanitizer; plus hundreds to thousands of full fits repeated under different thread counts with perturbed pool "
                   "schedules. Schedules are sampled: a race or an order dependence that needs an interleaving neither the perturbation nor TSan's "
                   "happens-before analysis exposes is missed."),
    "level_note": ("trusted: the harness's atomics/barrier and one-slot-per-thread result buffers, TSan's analysis, rapidcheck, Eigen; the fit "
                   "comparison is restricted to the class where the property's tolerance is meaningful (see assumptions)"),
}
