"""C15 configuration: serialization round trips, truncated / corrupted streams are rejected."""

CHECK = {
    "harnesses": [
        {"exe": "c15_stream", "flavour": "plain", "cases": (6000, 240000), "procs": (3, 8), "subs": ["tensor", "value", "config", "model"]},
        {"exe": "c15_stream", "flavour": "asan", "cases": (400, 20000), "procs": (1, 4), "subs": ["tensor", "value", "config", "model"]},
    ],
    "fuzzers": [{"exe": "fz_stream", "runs": (40000, 8000000), "max_len": 64, "jobs": (2, 8)}],
    "min_nontrivial": (1500, 40000),
    "timeout": (900, 7200),
    "rule": ("rapidcheck-generated objects in four sub-checks: (tensor) 10 scalar types x rank 1..5 x dims 0..6 with payloads given as raw bytes "
             "(zeros, small integers, random bits, NaN payloads/-0/inf/denormals/type extremes), read into a pristine or an already filled tensor; "
             "(value) parameter_t of all 7 kinds (monostate, enum, integer, scalar, integer pair, scalar pair, string; LE/LT bounds, infinite and "
             "DBL_MAX bounds, binary names) and feature_t (12 types, dims, labels); (config) every id of the solver / lsearch0 / lsearchk / loss / "
             "splitter / tuner / wlearner / linear factories and gboost models with 0..5 prototypes, parameters set to random in-domain values "
             "(domain ends, interior, defaults), through object.write/read and through nano::write/nano::read of the factory object (type id + "
             "object); (model) the 8 weak learners fitted to generated residuals, the 4 linear models and gboost models (10 rounds, 2 folds) fitted "
             "on a generated dataset of 8..64 samples and 1..4 inputs, read into a pristine object or into a copy of the fitted one. "
             "Oracle per object: the complete stream reads back successfully, is consumed entirely, the re-read object is observationally identical "
             "(field-wise dump of every parameter incl. bounds, type id, tensors bit by bit, predictions on the generating dataset for two sample "
             "lists, weak-learner splits, a minimize run for solvers/line-searches, loss values/gradients, splitter folds, tuner steps; the "
             "library's operator== on parameters as well) and re-serialises to identical bytes; EVERY strict prefix (offset 0..len-1) must be "
             "reported as failure (exception, or failed stream state); every tensor region of the stream (non-empty ones located by scanning for "
             "version|rank|dims|sizeof|hash|content with a matching content hash, empty ones by searching for the separately serialised image) "
             "gets single-byte alterations of its payload bytes (all 255 alternatives for streams < 200 B, otherwise 8 per byte, at most 512 byte "
             "positions per tensor incl. first and last element) which must be reported as failure, and of its header bytes, which must be reported "
             "as failure or yield an unchanged element sequence; the asan flavour turns any out-of-bounds access / heap misuse into a failure. "
             "Non-trivial: tensor with >= 2 elements; parameter/feature with a non-empty name and a value/domain/labels part; configured object "
             "with >= 2 parameters set from the generated choices (gboost: >= 2 nested prototypes); model that was fitted, holds a tensor of >= 2 "
             "elements and had payload bytes altered inside it (faults strictly inside nested objects). Distinct = distinct serialised cases."),
    "assumptions": [
        "fault model = truncation and single-byte alteration of tensor payload / tensor header bytes; arbitrary byte soup (e.g. corrupted string lengths) is outside the property",
        "header alteration: failure, or a result whose element sequence equals the original's (an altered extent of an empty tensor carries no data)",
        "std::bad_alloc caused by an altered extent is a reported failure (ASan runs with allocator_may_return_null=1:max_allocation_size_mb=1024)",
        "solver objects do not serialise their line-search objects: configured solvers keep the factory's default line-searches",
        "behaviour runs of rqb/fpba1/fpba2 are skipped (open heap overflow of the bundle solvers belongs to C02/C03); datasets avoid inputs that crash weak-learner fitting (entirely missing categorical inputs, values near the 64-bit limits, tiny subsample ratios): C10/C11 subjects",
        "harness-side restatement of the documented wire layout and content hash (used only to locate tensors and to classify checksum collisions)",
    ],
    "technique": "property-based testing (rapidcheck): round trip + exhaustive truncation + single-byte fault injection, AddressSanitizer, libFuzzer fault programs",
    "level_text": ("Generated-input exploration: thousands (quick) to hundreds of thousands (thorough) of generated tensors, parameters, features, configured "
                   "factory objects and fitted models are written, read back and compared observationally; every strict prefix of every stream and "
                   "millions of single-byte alterations of tensor payload and header bytes are fed to the readers, a share of them under "
                   "AddressSanitizer, plus libFuzzer fault programs on a start-up corpus in the thorough tier; held on everything generated, no claim beyond that."),
    "level_note": ("trusted: the harness-side observation functions (field-wise dumps, predictions through the public API), the restated wire layout / hash "
                   "used to locate tensor regions, rapidcheck, libFuzzer, ASan, Eigen; alterations of non-tensor bytes are not in the fault model"),
    "exhaustive_subspaces": ["every truncation offset 0..len-1 of every generated stream", "all 255 single-byte alternatives of every payload and header byte of tensor streams shorter than 200 bytes (plain flavour)"],
}
