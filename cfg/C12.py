"""C12 configuration: splitters and samplers return index sets with the promised set structure."""

# 374 = number of (n, folds) pairs with n in 2..40, folds in 2..min(n,12).  The sub-check weights in
# harness/c12_splits.cpp give each exhaustive sub-check 7484/70000 of the case budget, i.e. >= 20 x 374 generated
# cases (one uniformly drawn pair per case) on the quick tier: P(some pair never drawn) < 374 * exp(-20) < 1e-6.
# Independently of the generator, replays/C12/*.case walk all 374 pairs deterministically on every run.
CHECK = {
    "harnesses": [
        {"exe": "c12_splits", "flavour": "plain", "cases": (70000, 1400000), "procs": (10, 8),
         "subs": ["kfold_exhaustive", "random_exhaustive", "splitter_random", "sampling", "ball", "gboost_sampler"]},
        # thorough only: every pair x all 81 train percentages x all 1025 seeds (83 025 splits per case)
        {"exe": "c12_splits", "flavour": "plain", "cases": (0, 7480), "procs": (1, 6),
         "subs": ["random_exhaustive"], "args": ["--sub", "random_exhaustive", "--full"]},
    ],
    "min_nontrivial": (20000, 200000),
    "timeout": (900, 7200),
    "rule": ("[weights / losses / gradients also at tiny (1e-250..1e-10) and huge overall magnitudes] k-fold / random splitters from the factory on (a) every (n, folds) pair with n in 2..40, folds in 2..min(n,12): one uniformly "
             "drawn pair per case, the check loops over all 1025 seeds of splitter::seed (random splitter: x train percentages {10,25,50,80,90}; "
             "thorough: x all 81 percentages; all 81 percentages x seeds 0..15 for every pair through a replay file), (b) generated lists of 1..5000 distinct, non-contiguous, unsorted "
             "index values x folds 2..100 x seed 0..1024 x train percentage 10..90; oracle on every returned (train, valid) pair: both sorted, "
             "set_intersection empty, merge == sorted input; k-fold: k pairs, validation folds concatenate to the input, max-min validation size "
             "< k; random: |train| == (p*n+50) div 100; equal seeds => identical splits (second call, clone, independently configured object). "
             "sample_without_replacement / sample_with_replacement / weighted (explicit and default-seeded rng, pinned): size == count, sorted, "
             "members of the input, distinct (without replacement), weight > 0 (weighted; weights contain zeros, at least one positive). "
             "sample_from_ball, d in 1..50, radius 1e-6..1e6, centre norm <= 1e3, 8 draws per case: ||x-x0||_2 (long double) <= r(1+1e-12) + "
             "4 eps ||x0|| sqrt(d). gboost::sampler_t in its 5 modes, 3 rounds per case on the SAME sampler object with the losses / gradients rotated among the training samples between rounds (the zero-weight samples change): same oracles, count within 1 of ratio*n. "
             "Non-trivial: n not divisible by folds or n < 2 folds (splitters); count > 0 and (weights contain a zero | count < n | with "
             "replacement) (sampling); d >= 2 and centre != 0 (ball); ratio*n >= 1 and a sampling mode (gboost). Distinct = distinct serialised "
             "cases (64-bit hash); the two exhaustive sub-checks have only 374 / 748 distinct cases by construction."),
    "assumptions": ["harness-side set oracles (std::merge / std::set_intersection on the returned arrays) are correct",
                    "sample lists are non-empty and distinct, count <= n, at least one positive weight (preconditions every caller respects)",
                    "rapidcheck generators; Eigen"],
    "technique": "exhaustive enumeration of the small (n, folds, seed, percentage) space + property-based testing (rapidcheck) against brute-force set oracles",
    "level_text": ("Generated-input exploration plus a completely enumerated finite sub-space: every (n, folds, seed) of the k-fold splitter with "
                   "n in 2..40, folds in 2..min(n,12) (383 350 configurations) is checked deterministically on every run through the replay file, "
                   "and again through the generated cases; the random splitter over the same pairs x 1025 seeds x 5 percentages (quick) / x 81 "
                   "percentages (thorough) is covered by >= 20-fold oversampling of the 374 pairs (coverage measured per pair in the class "
                   "histogram of the evidence). Beyond that: tens of thousands (quick) to millions (thorough) of generated index lists, counts, "
                   "weight vectors and balls; held on everything generated, no claim beyond that."),
    "level_note": ("trusted: the harness-side set oracles, rapidcheck, Eigen, libstdc++'s shuffle/discrete_distribution as called by the library; "
                   "the distribution of the samples (uniformity) is not part of the property and not checked; the number of splits returned by the "
                   "random splitter is recorded (class label) but only required for k-fold, as in the statement"),
    "exhaustive_subspaces": [
        "k-fold splitter: all n in 2..40 x folds in 2..min(n,12) x seeds 0..1024 (replays/C12/kfold-all-pairs-all-seeds.case, deterministic, every run)",
        "random splitter: the same 374 pairs x seeds 0..15 x all train percentages 10..90, and x seeds 0..63 x {10,25,50,80,90} (replay files, deterministic, every run)",
        "random splitter: the same 374 pairs x all 1025 seeds x {10,25,50,80,90} (quick) / x all 81 percentages (thorough): one pair per generated case drawn uniformly, >= 20 x 374 cases, per-pair hit counts in the class histogram",
    ],
}
