"""C09 configuration: ML objectives equal their naive definitions for any thread count, batch size and caching."""

CHECK = {
    "harnesses": [
        {"exe": "c09_objectives", "flavour": "plain", "cases": (40000, 300000), "procs": (8, 14), "subs": ["objectives"]},
    ],
    "min_nontrivial": (3000, 60000),
    "timeout": (900, 7200),
    "confirm": (5, 2),   # the statement quantifies over schedules: a case failing 2 of 5 replays is schedule dependent, hence a violation
    "rule": ("rapidcheck-generated data sources (shared generator: 1..200 samples, 1..10 input features over scalar / structured / single- / "
             "multi-label kinds and all storage types, missing masks none/random/all/first/last/all-but-one, continuous values within +-20) "
             "with a scalar or structured regression target or a single-/multi-label classification target; a sorted sample subset (all, "
             "random, range, every second, one); one of the 17 losses compatible with the target (regression: mae mse cauchy pinball with "
             "alpha in [0,1]; single-label: all 13 classification losses; multi-label: the 6 m-losses); l1, l2 in {0} + log-uniform(1e-6,1e6); "
             "one of the 4 scaling modes (applied to inputs and targets, as the iterators do); 3..6 configurations (threads 1..16, the first "
             "one sequential; batch in {1,2,7,10,100,10000, m-1, m, m+1, 1..10000, 1..m/2}; flatten / targets cached or not); parameter "
             "vectors in [-2,2]^d (sometimes with exact zeros), cluster assignments with 1..4 groups and unassigned samples (weak-learner "
             "outputs zero there, DESIGN.md 4.3), strong / weak learner outputs and gradient-objective outputs in [-2,2]. Oracle: per-sample "
             "loop in the harness over the generated values (checked bit for bit against dataset.flatten / targets), scaled by a harness "
             "re-implementation of the scaling modes from the iterator's statistics (missing -> 0), loss value / gradient of each sample "
             "through the library's loss object on one sample, chain rule, long double sums: linear = mean loss + l1 mean|W| + (l2/2) mean W^2, "
             "gboost bias = mean loss(t_i, b), scale = mean loss(t_i, s_i + x[cluster_i] w_i), gradients = per-sample loss gradients (and "
             "their mean-loss objective). Every configuration is evaluated with gradient, value-only and again with gradient and compared "
             "with the naive definition, with configuration 0 and with itself: |difference| <= 1e-9 x the mean magnitude of the summed "
             "terms (violation beyond 10x), widened only by the jump of a sub-gradient when a sample sits within 1e-11 relative of a kink of "
             "the loss or l1 > 0 at a zero weight. Objectives whose naive value overflows are skipped and counted. Non-trivial: some "
             "configuration with more samples than the batch size on >= 2 threads, and at least one missing input value among the samples. "
             "Distinct = distinct serialised cases (64-bit hash)."),
    "assumptions": ["the library's loss objects evaluated on a single sample are the per-sample loss (validated by C06)",
                    "the scalar statistics used for scaling are the iterator's (validated by C14); the harness re-implements only the scaling formulas",
                    "weak-learner outputs of unassigned samples are zero, so 'unassigned samples unscaled' has a single reading (DESIGN.md 4.3)",
                    "1e-9 relative is measured against the mean magnitude of the summed terms (the natural scale of re-association error), not against a possibly cancelling result",
                    "sample lists are sorted and distinct (what the splitters produce); targets are scaled with the same mode as the inputs (as the iterators do)"],
    "technique": "property-based testing (rapidcheck): naive per-sample reference objective + differential across thread count / batch size / caching / repetition",
    "level_text": ("Generated-input exploration: thousands (quick) to above a hundred thousand (thorough) generated datasets, each evaluated under 3..6 "
                   "(threads, batch, cache) configurations for the four objectives and compared with an independent per-sample computation and with "
                   "each other; held on everything generated, no claim beyond that. Thread schedules are whatever the OS produced (not enumerated)."),
    "level_note": "trusted: the harness-side naive loop (long double), the library's single-sample loss evaluation (C06), rapidcheck, Eigen; schedules are sampled, not controlled",
}
