"""C08 configuration."""

CHECK = {
    "harnesses": [
        {"exe": "c08_dataset", "flavour": "plain", "cases": (45000, 1200000), "procs": (6, 12), "subs": ["views", "iterators"]},
        {"exe": "c08_dataset", "flavour": "asan", "cases": (8000, 200000), "procs": (2, 4), "subs": ["views", "iterators"]},
    ],
    "min_nontrivial": (8000, 50000),
    "timeout": (900, 7200),
    "rule": ("rapidcheck-generated data sources (1..12 features over the 12 feature types, structured dims up to 3x3x3, 1..300 classes, "
             "1..200 samples incl. 7/8/9/63/64/65, missing masks none/random/all/first/last/all-but-one, target of any kind or none), "
             "stacks of 1..5 generators (4 identity kinds, pairwise product with 0/1/2 feature lists, gradient with 3 kernels, feature subsets), "
             "3 sample index lists (repeats, reversed, all equal, containing N-1) and a history of up to 13 operations from {query all views, "
             "drop, undrop, shuffle, unshuffle, invalid-index calls}. Oracle: the generated description itself is the reference model "
             "(stored value cast to the storage type, missing => NaN/-1, documented flatten encodings, product, a reference 3x3 filter); "
             "every buffer is pre-filled with a sentinel so an unwritten view is detected; out-of-range sample/feature indices (N, -1, N+7, "
             "N+64 / -1, F, F+3) must raise an exception; the asan flavour additionally turns any out-of-bounds read into a failure. "
             "Sub-check `iterators`: the multi-threaded select / flatten / targets iterators (1..16 workers, batch 1..2n, cached and "
             "uncached) deliver every feature / every sample range exactly once, with a worker id below the concurrency, and exactly the "
             "values of the direct views (non-trivial: >= 2 features, >= 2 workers, >= 2 batches). "
             "Non-trivial (views): >= 2 generated feature kinds, at least one missing and one present value, an index list with a repeat and a "
             "query after a drop or shuffle. Distinct = distinct serialised cases (64-bit hash)."),
    "assumptions": ["the harness-side reference (dataset_gen.h data_spec_t + model_value) is correct",
                    "undrop() after shuffle() / unshuffle() after drop(): either the original or the last altered view is accepted (DESIGN.md 4.3)",
                    "shuffled() is only queried for a currently shuffled feature (precondition of every caller)"],
    "technique": "stateful property-based testing (rapidcheck) against a reference model of the data source; ASan for out-of-bounds reads",
    "level_text": ("Generated-input exploration: tens of thousands (quick) to a million (thorough) generated data sources, generator stacks and "
                   "drop/shuffle/query histories compared value by value with the reference model, a share of them under AddressSanitizer; "
                   "held on everything generated, no claim beyond that."),
    "level_note": "trusted: the harness-side reference model and its 3x3 filter, rapidcheck, Eigen, ASan; schedules are not explored here (views are computed on the caller's thread)",
}
