"""C17 configuration."""

CHECK = {
    "harnesses": [
        {"exe": "c17_pool", "flavour": "plain", "cases": (4200, 120000), "procs": (6, 10), "subs": ["pool"]},
        {"exe": "c17_pool", "flavour": "tsan", "cases": (600, 20000), "procs": (2, 4), "subs": ["pool"]},
        {"exe": "c17_model", "flavour": "plain", "cases": (8000, 40000), "procs": (2, 4), "subs": ["model"]},
    ],
    "confirm": (5, 2),
    "min_nontrivial": (500, 5000),
    "timeout": (1200, 7200),
    "rule": ("(pool) rapidcheck-generated pool size 1..16, 1..4 submitting threads, 1..6 calls (map by index, map by chunk with chunk sizes "
             "1/2/7/elements-1/elements/elements+1/random, batches of enqueue) of 0..5000 elements, tasks that throw, raise on/off, shutdown "
             "idle / with queued tasks whose futures are kept / dropped, and a generated delay table (none/yield/spin/100us/2ms per "
             "NANO_VERIF schedule point) = the schedule perturbation; oracle = history invariants (every index exactly once, chunks tile, "
             "worker id < size and never used by two tasks of a call at once, nothing running after return, exception re-thrown when asked, "
             "futures ready after destruction, destructor returns) + conformance of the recorded event trace with the protocol rules "
             "(no pop from an empty queue / after stop, wake only with work or stop, every worker stops and is joined) + a progress watchdog "
             "(no schedule-point event for 20 s while work is outstanding, confirmed in >= 2 of 5 replays) + ThreadSanitizer on a share of "
             "the cases. Non-trivial: pool size >= 2 and at least two workers observed serving the same call, trace conformed. "
             "(model) all 396 configurations of the protocol model (1..3 workers x spurious wake-ups on/off x 1..2 submitter scripts from "
             "{map, enqueue+wait, enqueue+forget} with <= 4 tasks in total), each explored exhaustively over all interleavings; the case "
             "count makes missing a configuration improbable (< 1e-6) and the class histogram lists the configurations covered. "
             "Distinct = distinct serialised cases (64-bit hash)."),
    "exhaustive_subspaces": ["protocol model: every interleaving of each of the 396 model configurations (<= 3 workers, <= 2 submitters, <= 4 tasks, shutdown idle/busy/queued)"],
    "assumptions": ["OS schedules are sampled (perturbed by generated delays), not enumerated",
                    "the protocol model has the atomicity of the code (one step per critical section); it is tied to the code only through trace conformance",
                    "a wall-clock watchdog is used only to detect the absence of ANY schedule-point event for 20 s, confirmed by replays"],
    "technique": "property-based testing with generated schedule perturbation + history/trace invariants + ThreadSanitizer; exhaustive interleaving enumeration of a protocol model",
    "level_text": ("Generated-input exploration of configurations and perturbed schedules on the real pool (thousands of cases per run, each with "
                   "tens of thousands of recorded synchronisation events checked against the protocol rules, a share under ThreadSanitizer), plus "
                   "complete enumeration of all interleavings of a small protocol model. Schedules of the implementation are sampled: a bug that "
                   "needs an interleaving neither the perturbation nor TSan exposes is missed."),
    "level_note": "trusted: the harness's atomic counters and trace buffer, TSan's happens-before analysis, the protocol model's fidelity (checked by trace conformance and by rejecting seeded buggy variants)",
}
