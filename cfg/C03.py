"""C03 configuration: bundle / ellipsoid solvers - reported convergence certifies eps-optimality on sharp minima."""

CHECK = {
    "harnesses": [
        # ellipsoid method: < 1 ms per case
        {"exe": "c03_sharp_minimum", "flavour": "plain", "cases": (100000, 3000000), "procs": (2, 2),
         "subs": ["ellipsoid"], "args": ["--sub", "ellipsoid"]},
        # rqb / fpba1 / fpba2, bundle::max_size in 5..100: ~25 ms per case
        {"exe": "c03_sharp_minimum", "flavour": "plain", "cases": (3000, 80000), "procs": (3, 4),
         "subs": ["bundle"], "args": ["--sub", "bundle"]},
        # bundle::max_size in 2..4, the sizes that overflowed before the fix of finding F10
        {"exe": "c03_sharp_minimum", "flavour": "plain", "cases": (1000, 20000), "procs": (1, 1),
         "subs": ["bundle-small"], "args": ["--sub", "bundle-small"]},
        # the corner of the quantifier with the smallest tolerance eps*sqrt(n): n in 1..3, eps = 1e-8 (half) or 1e-8..3e-8,
        # bundle::max_size = 2 (40 %), 3..4 (20 %) or 5..100: ~10 ms per case
        {"exe": "c03_sharp_minimum", "flavour": "plain", "cases": (9000, 150000), "procs": (3, 4),
         "subs": ["bundle-corner"], "args": ["--sub", "bundle-corner"]},
        # ASan share of the bundle solvers (regression guard for F10; ~0.3 s per case there)
        {"exe": "c03_sharp_minimum", "flavour": "asan", "cases": (120, 1500), "procs": (1, 1),
         "subs": ["bundle-asan"], "args": ["--sub", "bundle-asan"]},
    ],
    "min_nontrivial": (40000, 1000000),
    "timeout": (1500, 7200),
    "rule": ("f(x) = |A(x-x*)|_1, |A(x-x*)|_inf or their sum, + mu/2|x-x*|^2 + f*, A (m x n, n in 1..8, m in n..2n) = U diag(sigma) V' built from the SVD of a "
             "generated Gaussian matrix with sigma_min = s*required (s in [1.05,3], required = 1, or sqrt(m) for the pure l_inf family so that "
             "f(x)-f* >= |x-x*|_2), condition number in [1,100]; x* in [-3,3]^n, x0 within distance 4 of x*, mu in {0} u (0,10], epsilon in [1e-8,1e-3], "
             "max_evals in [100,20000] (20000 for half of the ellipsoid cases), bundle::max_size in [2,100] (sub 'bundle-corner': n in 1..3, epsilon = 1e-8 or just above, max_size 2 in 40 %), csearch/proximity parameters default / near "
             "default / anywhere in their declared domains / on the boundary, ellipsoid radius = default or 1.05..8 x |x0-x*|. Oracle: the gap f(x)-f* and "
             "|x-x*| recomputed in long double from (A, x*, mu); converged => gap <= 2 eps sqrt(n)(1+|x-x*|) (rqb, fpba1, fpba2) or gap <= 10 eps (ellipsoid); "
             "ellipsoid with n <= 6 and max_evals = 20000 => status converged. The sharpness precondition is re-derived from the singular values of A on every "
             "case (discard otherwise). Non-trivial: status converged and |x0-x*| > epsilon. Distinct = distinct serialised cases (64-bit hash)."),
    "assumptions": ["harness-side function / exact sub-gradient and the long double reference gap are correct (cross-checked against each other on every case)",
                    "Eigen's JacobiSVD for building A and for re-checking sigma_min",
                    "for the pure l_inf family sigma_min >= sqrt(m) is generated, which is what makes the stated precondition f(x)-f* >= |x-x*|_2 hold"],
    "technique": "property-based testing (rapidcheck) against an analytically known optimum planted in the generated instance; an ASan share for the bundle solvers",
    "level_text": ("Generated-input exploration: 1e5 (quick) to millions (thorough) of ellipsoid solves and thousands to 1e5 bundle solves (a share of them "
                   "under AddressSanitizer) on generated sharp-minimum instances, every reported convergence compared with the known (x*, f*). Held on everything "
                   "generated, no claim beyond that."),
    "level_note": ("trusted: harness-side function and reference, Eigen SVD, rapidcheck, ASan runtime; the framework's 10x band applies: a gap between 1x and 10x "
                   "the stated bound is counted borderline (the evidence reports the worst gap/bound ratio per solver)"),
}
