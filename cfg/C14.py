"""C14 configuration: feature scaling is invertible; the up-scaled linear model is the same predictor."""

CHECK = {
    "harnesses": [
        {"exe": "c14_scaling", "flavour": "plain", "cases": (250000, 2000000), "procs": (8, 14), "subs": ["scaling"]},
    ],
    "min_nontrivial": (20000, 400000),
    "timeout": (900, 7200),
    "rule": ("rapidcheck-generated data sources of 1..300 rows whose identity generators produce 1..20 flatten columns: scalar / structured "
             "continuous features (float64, float32, int16, uint8 storage) mixed with single- and multi-label categorical ones, every "
             "continuous column in one of the styles {magnitude 1e-6..1e6, offset up to 1e6 with relative spread 1e-9..1, exactly constant "
             "(0.1, 3.3, 123456.789, 1e6+0.3, ...), spread below the library's 1e-8 floor, ties, two values} x missing masks {none, random, "
             "all, only first, only last, all but one}; target = scalar / structured regression (1..5 components, same column styles) or "
             "single-/multi-label classification (1..5 classes); statistics computed by make_flatten_stats / make_targets_stats over a sorted "
             "sample subset (all, random, range, every second, one sample) with batch in {1,2,7,1000,n-1,n,n+1,10000}; W (1..5 x 1..20) and b "
             "random with magnitudes 1e-3..1e6. Oracle, for all 4 modes on inputs (2D kernels) and targets (4D kernels) and all 16 mode pairs "
             "of nano::upscale: two-pass long double reference statistics of each column with the missing values removed (count, min, max "
             "exact; mean to 1e3 eps mean|x|; variance to 1e3 eps sum(x^2)/(N-1), the forward bound of the one-pass formula); every "
             "statistic finite; missing -> exactly 0; categorical columns bit-identical; upscale(scale(v)) == v to 1e3 eps (|v|+|mean|+|min|); "
             "minmax inside [0,1] and attaining 0 and 1, mean: zero mean and unit range, standard: zero mean and unit sample deviation "
             "(range / deviation clauses only for columns above the 1e-8 floor, deviation only when the one-pass variance is conditioned "
             "better than 10 %, tolerance 2 kappa); W'x+b' on raw finite rows (data rows with missing values replaced by generated finite "
             "values, and arbitrary rows) == upscale_targets(W scale_inputs(x) + b) to 1e3 eps sum|terms|. Failures only beyond 10x a "
             "tolerance. Non-trivial: at least one degenerate continuous column (constant with N >= 2, one present sample, or all missing) "
             "and one regular column (N >= 2, range above the floor). Distinct = distinct serialised cases (64-bit hash)."),
    "assumptions": ["harness-side two-pass long double statistics and the re-stated definitions of the four scaling modes are correct",
                    "the raw flatten / target values of the generated data source are those generated (checked bit for bit in every case; C08 owns that property)",
                    "the deviation of a single present sample and the statistics of an all-missing column are only required to be finite"],
    "technique": "property-based testing (rapidcheck) against long double two-pass reference statistics, round trip and the algebra of the affine conversion",
    "level_text": ("Generated-input exploration: tens of thousands (quick) to millions (thorough) of generated data sources with degenerate, badly "
                   "conditioned and categorical columns; statistics, scaled values, round trips and converted linear models are compared with an "
                   "independent reference within tolerances derived from forward error bounds; held on everything generated, no claim beyond that."),
    "level_note": "trusted: the harness-side reference statistics (long double), rapidcheck, Eigen; tolerances: 1e3 eps x summed magnitudes, verdicts only beyond 10x",
}
