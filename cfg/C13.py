"""C13 configuration: tuners (grid-only, no repeats, budget, non-finite rejection, sorted steps) and ml::tune bookkeeping."""

CHECK = {
    "harnesses": [
        # weights inside the executable: tuner 23 : tune 1
        {"exe": "c13_tuning", "flavour": "plain", "cases": (400000, 8000000), "procs": (8, 14), "subs": ["tuner", "tune"]},
    ],
    "min_nontrivial": (50000, 1000000),
    "timeout": (900, 7200),
    "rule": ("[landscapes include tiny-valued (1e-16..1e-20) and one-ulp-apart values] tuner: 1..3 grids of 2..31 strictly increasing values (linear: integer / 0.125 / real steps; log10: decades, half decades, real "
             "exponent steps), 8 landscapes over the full grid (smooth bowl, plateau, quantised bowl, minimum in a corner, random in [-1e3,1e3], "
             "monotone, constant, random with 4 levels), max_evals 10..1000, local-search and surrogate tuner, in 30 % of the cases one grid "
             "point evaluates to NaN / +inf / -inf.  The harness callback is the reference model of the history: every requested value must be "
             "a value of its own grid (exact), no point twice, at most max_evals + 3^d points, a returned non-finite value must end in an "
             "exception with no further callback batch, otherwise the returned steps are exactly the evaluated points with the returned values "
             "(bitwise), igrid/param consistent, sorted non-decreasing, first = minimum observed.  tune: 20..120 (30 %: 10..24, giving folds with a single sample) distinct sample indices, "
             "k-fold / random splitter with 2..10 folds, 0..2 parameter spaces, local-search / surrogate tuner with max_evals 10..40, pools of "
             "1 / 2 / 16 threads (NANO_VERIF_MAX_THREADS), optional table-driven delays at the pool's schedule points; the callback is thread "
             "safe, records (params, train, valid) and returns per-sample error/loss tensors that are a deterministic function of (params, "
             "fold contents, sample id) with values on a 1/64 grid (exact sums; trials tie exactly or differ by >= 1/64).  Oracle: one call per "
             "(trial, fold) of the result with the indices of splitter.split(samples)[fold] (folds with identical contents are "
             "interchangeable), stats(trial, fold, split, kind) = count / mean (1e3 eps) / percentiles inside [min, max] of that call's tensors, "
             "extra(trial, fold) = that call's payload, optimum_trial() within 1e3 eps of the minimum mean validation error (any arg-min).  "
             "Non-trivial: tuner run with >= 5 evaluated points and >= 2 distinct values (or >= 5 points before a rejected non-finite value); "
             "tune run with >= 2 trials and >= 2 folds.  Distinct = distinct serialised cases (64-bit hash)."),
    "assumptions": ["harness-side landscape / recording callback are correct", "splitters are deterministic for a fixed splitter::seed",
                    "thread interleavings of ml::tune are sampled (3 pool sizes x delay tables), not enumerated", "rapidcheck generators"],
    "technique": "property-based testing (rapidcheck) with a recording callback as reference model of the evaluation history; differential over pool sizes / perturbed schedules",
    "level_text": ("Generated-input exploration: hundreds of thousands (quick) to tens of millions (thorough) of tuner runs and tens of thousands to a million "
                   "ml::tune runs are checked against a history model; held on everything generated, thread interleavings are sampled only."),
    "level_note": ("trusted: the harness-side landscape and bookkeeping model, rapidcheck; the surrogate tuner's documented 'failed to fit/optimize the surrogate "
                   "model' critical counts as discard; ties in the optimum accept any arg-min"),
}
