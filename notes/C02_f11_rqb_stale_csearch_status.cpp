// build: g++ -std=c++17 -O1 -I/repo/include -I/repo/src -I/verif/.build/plain/gen -I/usr/include/eigen3 -DNANO_HAS_FROM_CHARS_FLOAT -DNDEBUG <this file> /verif/.build/plain/libnano_all.a -lpthread   (exit code 1 = defect reproduced)
// F11 (fixed in 891f189): exits 0 on the fixed tree, 1 before.
// standalone reproducer: RQB returns a point worse than the start on a convex piecewise-linear function
#include <nano/solver.h>
#include <iostream>
using namespace nano;
struct pl_t final : function_t
{
    // f(x) = max(0 . x... ) see below
    matrix_t A; vector_t b;
    pl_t() : function_t("pl", 4), A(8, 4), b(8)
    {
        convex(convexity::yes); smooth(smoothness::no);
        for (int k = 0; k < 7; ++k) { for (int i = 0; i < 4; ++i) A(k, i) = -3.0; b(k) = -2.0; }
        A(6, 3) = -2.986485818400979; b(4) = 1.0307152979075909; b(6) = -1.6452964432537556;
        for (int i = 0; i < 4; ++i) { A(7, i) = 0; for (int k = 0; k < 7; ++k) A(7, i) -= A(k, i); } b(7) = 0.0;
    }
    rfunction_t clone() const override { return std::make_unique<pl_t>(*this); }
    scalar_t do_vgrad(vector_cmap_t x, vector_map_t gx) const override
    {
        int best = 0; double vmax = -1e300;
        for (int k = 0; k < 8; ++k) { double v = b(k); for (int i = 0; i < 4; ++i) v += A(k, i) * x(i); if (v > vmax) { vmax = v; best = k; } }
        if (gx.size() == 4) for (int i = 0; i < 4; ++i) gx(i) = A(best, i);
        return vmax - 23.523085378110409;
    }
};
int main(int argc, char**)
{
    pl_t f;
    auto solver = solver_t::all().get("rqb");
    solver->parameter("solver::epsilon") = 1e-12;
    solver->parameter("solver::max_evals") = 25;
    solver->parameter("solver::rqb::bundle::max_size") = 5;
    vector_t x0(4); x0(0) = 0.15724060138186963; x0(1) = 0.1550669440167293; x0(2) = -0.137915234158595; x0(3) = -0.24031426569208425;
    const auto f0 = f.vgrad(x0);
    const auto state = solver->minimize(f, x0, argc > 1 ? make_stdout_logger() : make_null_logger());
    std::cout.precision(17);
    std::cout << "f(x0)=" << f0 << " f(x)=" << state.fx() << " recomputed=" << f.vgrad(state.x()) << " status=" << state.status() << " calls=" << state.fcalls() << "|" << state.gcalls() << "\n";
    return state.fx() > f0 ? 1 : 0;
}
