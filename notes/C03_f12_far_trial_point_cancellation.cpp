// build: g++ -std=c++17 -O1 -I/repo/include -I/repo/src -I/verif/.build/plain/gen -I/usr/include/eigen3 -DNANO_HAS_FROM_CHARS_FLOAT -DNDEBUG <this file> /verif/.build/plain/libnano_all.a -lpthread   (exit code 1 = defect reproduced)
// standalone reproducer (F12): RQB reports `converged` at epsilon = 1e-8 with f(x)-f* = 2.5e-6 (70 x the bound
// 2*eps*sqrt(n)*(1+|x-x*|)) on f(x) = |A (x - x*)|_inf - 100, sigma_min(A) = 2.35 >= sqrt(5) (sharp minimum),
// with csearch/proximity parameters inside their declared domains: the proximity parameter is only clamped at
// initialisation, it collapses, a trial point lands at |f| ~ 4e10 and the linearisation errors become rounding noise.
#include <nano/solver.h>
#include <iostream>
using namespace nano;
static const double As[15] = {1.0516652956057131, 1.8347855797571502,    -1.0407578471449728, 1.0516652956057218, -0.082243371510934138,
                              0.87627110412310372, 1.0516652956057218,   -0.082243371510933916, 0.87627110412310349, 1.0516652956057218,
                              -0.082243371510934304, 0.87627110412310383, -1.3102007328343332, 1.50826796287137,   1.5082679628713804};
struct linf_t final : function_t
{
    mutable double maxf{0.0};
    linf_t() : function_t("linf", 3) { convex(convexity::yes); smooth(smoothness::no); }
    rfunction_t clone() const override { return std::make_unique<linf_t>(*this); }
    scalar_t    do_vgrad(vector_cmap_t x, vector_map_t gx) const override
    {
        int imax = 0; double rmax = 0.0, smax = 1.0;
        for (int k = 0; k < 5; ++k)
        {
            double r = 0.0;
            for (int i = 0; i < 3; ++i) r += As[3 * k + i] * (x(i) + 3.0);
            if (std::fabs(r) > rmax) { rmax = std::fabs(r); imax = k; smax = r > 0 ? 1.0 : -1.0; }
        }
        if (gx.size() == 3) for (int i = 0; i < 3; ++i) gx(i) = rmax > 0 ? smax * As[3 * imax + i] : 0.0;
        maxf = std::max(maxf, rmax);
        return rmax - 100.0;
    }
};
int main()
{
    linf_t f;
    auto   solver = solver_t::all().get("rqb");
    solver->parameter("solver::epsilon")              = 1.0000000107222445e-08;
    solver->parameter("solver::max_evals")            = 20000;
    solver->parameter("solver::rqb::bundle::max_size") = 5;
    solver->parameter("solver::rqb::csearch::m3")      = 0.1;
    solver->parameter("solver::rqb::csearch::m1m2")    = std::make_tuple(0.53258308740470639, 0.53258308826507905);
    solver->parameter("solver::rqb::prox::miu0_range") = std::make_tuple(9.9999999999999998e-13, 0.00021308995090976387);
    vector_t x0(3); x0(0) = -4.1721818086575846; x0(1) = -2.7550772230220484; x0(2) = -2.9894870692614015;
    const auto state = solver->minimize(f, x0, make_null_logger());
    double dist = 0; for (int i = 0; i < 3; ++i) dist += (state.x()(i) + 3.0) * (state.x()(i) + 3.0);
    const auto bound = 2e-8 * std::sqrt(3.0) * (1.0 + std::sqrt(dist));
    std::cout.precision(12);
    std::cout << "status=" << state.status() << " calls=" << state.fcalls() << "|" << state.gcalls() << " f(x)-f*=" << (state.fx() + 100.0)
              << " bound=" << bound << " largest f-f* shown to the solver=" << f.maxf << "\n";
    return (state.status() == solver_status::converged && state.fx() + 100.0 > bound) ? 1 : 0;
}
