// C18 finding: the feature selected by a weak learner depends on the thread schedule when two features reach
// exactly the same score (src/wlearner/{stump,hinge,affine,table}.cpp + include/nano/core/reduce.h).
//
// The feature search runs chunk-wise on the dataset's pool; every worker keeps its own best (score, feature) in
// caches[tnum] and min_reduce() returns the FIRST cache with the minimal score.  Which chunk of features a worker
// processes is decided by the scheduler, so on an exact tie the winner is "the feature seen by the worker with the
// smaller id" - a different feature from run to run.  Exact ties are common: two features that order the samples of a
// node the same way (x and 10*x below; any two features on a 2-sample node of a decision tree) induce the same
// partitions and therefore bit-identical scores.
//
// build (library as built by /verif, no hook needed):
//   g++ -std=c++17 -O2 -DNDEBUG -DNANO_VERIF -DNANO_HAS_FROM_CHARS_FLOAT -I/repo/include -I/repo/src -I/verif/.build/plain/gen \
//       -I/usr/include/eigen3 /verif/notes/C18_repro.cpp /verif/.build/plain/libnano_all.a -lpthread -o /var/tmp/c18_repro
//   (the two defines only match the way /verif builds the library; no hook is used)
// run:  /var/tmp/c18_repro        (prints how often each feature was selected by 2000 identical fits; exit 1 if > 1 feature)
// expected on a correct library: always the same feature.
// observed on the unchanged tree:  feature 0 (x) selected 1995 times, feature 2 (ten_times_x) selected 5 times
// with the tie-break on the feature index in min_reduce: feature 0 selected 2000 times.
#include <cstdio>
#include <map>
#include <nano/dataset.h>
#include <nano/datasource.h>
#include <nano/generator/elemwise_identity.h>
#include <nano/wlearner/criterion.h>
#include <nano/wlearner/stump.h>

using namespace nano;

class tie_datasource_t final : public datasource_t
{
public:
    tie_datasource_t()
        : datasource_t("tie")
    {
    }

    rdatasource_t clone() const override { return std::make_unique<tie_datasource_t>(*this); }

private:
    void do_load() override
    {
        features_t features;
        for (const char* name : {"x", "scrambled1", "ten_times_x", "scrambled2", "target"})
        {
            features.push_back(feature_t{name}.scalar(feature_type::float64));
        }
        resize(8, features, 4U);

        const double scrambled1[] = {0.1, 0.7, 0.3, 0.5, 0.2, 0.8, 0.4, 0.6};
        const double scrambled2[] = {5.0, 3.0, 9.0, 1.0, 7.0, 2.0, 8.0, 4.0};
        for (tensor_size_t i = 0; i < 8; ++i)
        {
            set(i, 0, static_cast<double>(i));        // x
            set(i, 1, scrambled1[i]);
            set(i, 2, 10.0 * static_cast<double>(i)); // same order as x => same partitions => same scores
            set(i, 3, scrambled2[i]);
            set(i, 4, i < 4 ? -1.0 : +1.0);
        }
    }
};

int main()
{
    auto source = tie_datasource_t{};
    source.load();

    auto dataset = dataset_t{source, 2U}; // two worker threads: the 4 features are searched in 2 chunks of 2
    dataset.add<scalar_identity_generator_t>();

    const auto samples = arange(0, dataset.samples());
    auto       grads   = tensor4d_t{make_dims(8, 1, 1, 1)};
    for (tensor_size_t i = 0; i < 8; ++i)
    {
        grads(i, 0, 0, 0) = i < 4 ? -1.0 : +1.0; // the split x < 3.5 (or 10*x < 35) is perfect
    }

    std::map<tensor_size_t, int> selected;
    for (int trial = 0; trial < 2000; ++trial)
    {
        auto stump                            = stump_wlearner_t{};
        stump.parameter("wlearner::criterion") = wlearner_criterion::rss;
        stump.fit(dataset, samples, grads);
        selected[stump.feature()]++;
    }
    for (const auto& [feature, count] : selected)
    {
        std::printf("feature %d (%s) selected %d times\n", static_cast<int>(feature), dataset.feature(feature).name().c_str(), count);
    }
    return selected.size() == 1U ? 0 : 1;
}
