// Standalone reproducers of the weak-learner defects found while building the C10 check.
// Only the public libnano API is used (no harness headers).
//
//   g++ -O1 -DNDEBUG -std=c++17 -DNANO_HAS_FROM_CHARS_FLOAT -I/repo/include -I/repo/src -I/verif/.build/plain/gen \
//       -isystem /usr/include/eigen3 notes/C10_repro.cpp -o /var/tmp/c10_repro /verif/.build/plain/libnano_all.a -lpthread
//   /var/tmp/c10_repro 1      # dstep-table: fit on a categorical feature without any given value      -> SIGSEGV
//   /var/tmp/c10_repro 2      # dtree (depth 2): predict() of a single sample                           -> SIGSEGV
//   /var/tmp/c10_repro 3      # kbest-table: fit reports RSS ~0, its predictions are all zero (RSS 53)   (outside C10)
//   /var/tmp/c10_repro 4      # affine on a CONSTANT feature: neither skipped nor fitted with the best constant (rounding noise decides)
#include <cstdio>
#include <cstdlib>
#include <nano/dataset.h>
#include <nano/datasource.h>
#include <nano/generator/elemwise_identity.h>
#include <nano/wlearner/affine.h>
#include <nano/wlearner/criterion.h>
#include <nano/wlearner/dtree.h>
#include <nano/wlearner/table.h>

using namespace nano;

// 8 samples: f0 = sclass(3) (optionally never given), f1, f2 = float64 scalars, target = float64 scalar
class source_t final : public datasource_t
{
public:
    explicit source_t(bool sclass_given)
        : datasource_t("repro")
        , m_sclass_given(sclass_given)
    {
    }

    rdatasource_t clone() const override { return std::make_unique<source_t>(*this); }

private:
    void do_load() override
    {
        features_t features;
        features.push_back(feature_t{"f0"}.sclass(3));
        features.push_back(feature_t{"f1"}.scalar(feature_type::float64));
        features.push_back(feature_t{"f2"}.scalar(feature_type::float64));
        features.push_back(feature_t{"target"}.scalar(feature_type::float64));
        resize(8, features, 3U);

        const double f2[] = {3, 1, 0, 2, 7, 5, 6, 4};
        for (tensor_size_t i = 0; i < 8; ++i)
        {
            if (m_sclass_given)
            {
                set(i, 0, i % 3);
            }
            set(i, 1, static_cast<double>(i));
            set(i, 2, f2[i]);
            set(i, 3, 0.0);
        }
    }

    bool m_sclass_given{true};
};

// n samples, one float64 feature with the same value c everywhere, scalar target
class constant_source_t final : public datasource_t
{
public:
    constant_source_t(double c, tensor_size_t n)
        : datasource_t("repro-constant")
        , m_c(c)
        , m_n(n)
    {
    }

    rdatasource_t clone() const override { return std::make_unique<constant_source_t>(*this); }

private:
    void do_load() override
    {
        features_t features;
        features.push_back(feature_t{"f0"}.scalar(feature_type::float64));
        features.push_back(feature_t{"target"}.scalar(feature_type::float64));
        resize(m_n, features, 1U);
        for (tensor_size_t i = 0; i < m_n; ++i)
        {
            set(i, 0, m_c);
            set(i, 1, 0.0);
        }
    }

    double        m_c{0};
    tensor_size_t m_n{0};
};

static void affine_on_constant_feature()
{
    const double g[] = {0.5, -1, 2, 0.3, -0.7, 1.5, -2, 0.1};
    for (const double c : {0.1, 0.7, 2.7})
    {
        for (const tensor_size_t n : {3, 5, 6, 8})
        {
            auto source = constant_source_t{c, n};
            source.load();
            auto dataset = dataset_t{source, size_t{1}};
            dataset.add<scalar_identity_generator_t>();
            auto   grads = tensor4d_t{n, 1, 1, 1};
            double mean = 0.0, rss_constant = 0.0, rss_zero = 0.0;
            for (tensor_size_t i = 0; i < n; ++i)
            {
                grads(i) = g[i];
                mean -= g[i] / static_cast<double>(n);
            }
            for (tensor_size_t i = 0; i < n; ++i)
            {
                rss_constant += (-g[i] - mean) * (-g[i] - mean);
                rss_zero += g[i] * g[i];
            }
            auto wlearner                             = affine_wlearner_t{};
            wlearner.parameter("wlearner::criterion") = wlearner_criterion::rss;
            const auto score                          = wlearner.fit(dataset, arange(0, n), grads);
            if (score == wlearner_t::no_fit_score())
            {
                std::printf("affine, feature == %g for all %d samples: feature skipped (no fit); best constant has RSS %.6g\n", c, static_cast<int>(n), rss_constant);
            }
            else
            {
                std::printf("affine, feature == %g for all %d samples: score %.6g (w=%g b=%g); best constant has RSS %.6g, predicting zero %.6g\n", c,
                            static_cast<int>(n), score, wlearner.tables()(0), wlearner.tables()(1), rss_constant, rss_zero);
            }
        }
    }
}

int main(int argc, char** argv)
{
    const int which = argc > 1 ? std::atoi(argv[1]) : 1;
    std::setvbuf(stdout, nullptr, _IONBF, 0);
    if (which == 4)
    {
        affine_on_constant_feature();
        return 0;
    }

    auto source = source_t{which != 1};
    source.load();
    auto dataset = dataset_t{source, size_t{1}};
    dataset.add<sclass_identity_generator_t>();
    dataset.add<scalar_identity_generator_t>();

    const auto samples = arange(0, 8);
    auto       grads   = tensor4d_t{8, 1, 1, 1};

    if (which == 1)
    {
        const double g[] = {0.5, -1, 2, 0.3, -0.7, 1.5, -2, 0.1};
        for (tensor_size_t i = 0; i < 8; ++i) { grads(i) = g[i]; }

        auto wlearner                             = dstep_table_wlearner_t{};
        wlearner.parameter("wlearner::criterion") = wlearner_criterion::rss;
        std::printf("dstep-table: fitting, feature f0 (sclass) has no given value ...\n");
        const auto score = wlearner.fit(dataset, samples, grads); // src/wlearner/table.cpp:104: mapping[0] of an empty vector
        std::printf("dstep-table: score=%g (no crash)\n", score);
    }
    else if (which == 2)
    {
        const double g[] = {0.5, -1, 2, 0.3, -0.7, 1.5, -2, 0.1};
        for (tensor_size_t i = 0; i < 8; ++i) { grads(i) = g[i]; }

        auto wlearner                                    = dtree_wlearner_t{};
        wlearner.parameter("wlearner::criterion")        = wlearner_criterion::rss;
        wlearner.parameter("wlearner::dtree::max_depth") = 2;
        wlearner.parameter("wlearner::dtree::min_split") = 1;
        const auto score = wlearner.fit(dataset, samples, grads);
        std::printf("dtree: score=%g nodes=%zu leaves=%d\n", score, wlearner.nodes().size(), static_cast<int>(wlearner.tables().size<0>()));
        const auto all = wlearner.predict(dataset, samples);
        std::printf("dtree: predict(all samples) ok, first=%g\n", all(0));
        const auto one = make_indices(0);
        std::printf("dtree: predict(sample 0 alone) ...\n");
        const auto single = wlearner.predict(dataset, one); // the other branch receives an empty sample list -> dataset_t::check -> minCoeff of an empty vector
        std::printf("dtree: single=%g (no crash)\n", single(0));
    }
    else
    {
        const double g[] = {0.1, -1, 5, 0.1, -1, 5, 0.1, -1}; // constant per class of f0 => an exact fit exists
        for (tensor_size_t i = 0; i < 8; ++i) { grads(i) = g[i]; }

        auto wlearner                             = kbest_table_wlearner_t{};
        wlearner.parameter("wlearner::criterion") = wlearner_criterion::rss;
        const auto score   = wlearner.fit(dataset, samples, grads);
        const auto outputs = wlearner.predict(dataset, samples);
        double     rss     = 0.0;
        for (tensor_size_t i = 0; i < 8; ++i) { rss += (-grads(i) - outputs(i)) * (-grads(i) - outputs(i)); }
        std::printf("kbest-table: fit score=%g, RSS of its predictions=%g, hashes=[%d %d %d] (not sorted, searched with lower_bound)\n", score, rss,
                    static_cast<int>(wlearner.hashes()(0)), static_cast<int>(wlearner.hashes()(1)), static_cast<int>(wlearner.hashes()(2)));
    }
    return 0;
}
