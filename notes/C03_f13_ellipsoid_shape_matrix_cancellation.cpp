// build: g++ -std=c++17 -O1 -I/repo/include -I/repo/src -I/verif/.build/plain/gen -I/usr/include/eigen3 -DNANO_HAS_FROM_CHARS_FLOAT -DNDEBUG <this file> /verif/.build/plain/libnano_all.a -lpthread   (exit code 1 = defect reproduced)
// standalone reproducer (F13): the ellipsoid method reports `converged` at epsilon = 1e-8 on
// f(x) = |A (x - x*)|_inf + f*  (sharp minimum: f(x) - f* >= |x - x*|_2, sigma_min(A) = 4.46 >= sqrt(5))
// with f(x) - f* = 5e-5, i.e. 500 x the 10*epsilon the convergence is supposed to certify.
#include <nano/solver.h>
#include <iostream>
using namespace nano;
static const double As[15] = {-8.8147148230411982, -16.188330469826951, 10.483269423739756, -21.224299618545107, -21.182949135219026,
                              23.738976523774301,  -54.918683664762035, -53.163017403678985, 49.390019833810811, 11.210682281257672,
                              11.042546279912337,  -7.4972503972218769, 5.4214960474920311,  -15.858763860326146, 7.969353078547381};
static const double xs[3] = {1.0142037319019437, -1.2133085215464234, -0.99817151483148336};
static const double fs    = 63.999868929386139;
struct linf_t final : function_t
{
    linf_t() : function_t("linf", 3) { convex(convexity::yes); smooth(smoothness::no); }
    rfunction_t clone() const override { return std::make_unique<linf_t>(*this); }
    scalar_t    do_vgrad(vector_cmap_t x, vector_map_t gx) const override
    {
        int imax = 0; double rmax = 0.0, smax = 1.0;
        for (int k = 0; k < 5; ++k)
        {
            double r = 0.0;
            for (int i = 0; i < 3; ++i) r += As[3 * k + i] * (x(i) - xs[i]);
            if (std::fabs(r) > rmax) { rmax = std::fabs(r); imax = k; smax = r > 0 ? 1.0 : -1.0; }
        }
        if (gx.size() == 3) for (int i = 0; i < 3; ++i) gx(i) = rmax > 0 ? smax * As[3 * imax + i] : 0.0;
        return fs + rmax;
    }
};
int main()
{
    linf_t f;
    auto   solver = solver_t::all().get("ellipsoid");   // default R = 10 > |x0 - x*| = 3.64
    solver->parameter("solver::epsilon")   = 1e-8;
    solver->parameter("solver::max_evals") = 20000;
    vector_t x0(3); x0(0) = 3.2433884209902843; x0(1) = -2.746813431913588; x0(2) = -3.4357721796559195;
    const auto state = solver->minimize(f, x0, make_null_logger());
    std::cout.precision(12);
    std::cout << "status=" << state.status() << " calls=" << state.fcalls() << "|" << state.gcalls() << " f(x)-f*=" << (state.fx() - fs)
              << " allowed 10*eps=" << 1e-7 << "\n";
    return (state.status() == solver_status::converged && state.fx() - fs > 1e-7) ? 1 : 0;
}
