// C15 — serialization round-trips; truncated / corrupted streams are rejected (DESIGN.md section 5, C15).
//
// Sub-checks (each: round trip of the complete stream + EVERY strict prefix + single-byte alterations of the
// tensor payload bytes and, under the lenient rule, of the tensor header bytes):
//   tensor  10 scalar types x rank 1..5 x dims 0..6, payloads given as raw bytes (NaN payloads, -0, extremes)
//   value   parameter_t of every kind (monostate, enum, integer, scalar, integer pair, scalar pair, string), feature_t
//   config  every id of the solver / lsearch0 / lsearchk / loss / splitter / tuner / wlearner / linear factories and
//           gboost models with prototypes, parameters set to random in-domain values, through the member API
//           (object.write / object.read) and through the free functions (type id + object, re-created by the factory)
//   model   the 8 weak learners, the 4 linear models and gboost models fitted on a small generated dataset
#include "c15_stream.h"

#include <nano/gboost/enums.h>
#include <nano/wlearner/criterion.h>
#include <nano/wlearner/dtree.h>
#include <nano/wlearner/single.h>
#include <nano/wlearner/table.h>

using namespace verif;
using namespace c15;
using verif::ds::data_spec_t;

namespace
{
// totals over the whole process (printed at exit when C15_TOTALS is set: numbers for notes/C15.md)
struct totals_t
{
    fault_stats_t st;
    uint64_t      subjects{0}, bytes{0};
} g_totals;

void add(fault_stats_t& a, const fault_stats_t& b)
{
    a.truncations += b.truncations;
    a.payload_alterations += b.payload_alterations;
    a.header_alterations += b.header_alterations;
    a.by_state += b.by_state;
    a.by_exception += b.by_exception;
    a.by_bad_alloc += b.by_bad_alloc;
    a.header_lenient += b.header_lenient;
    a.regions += b.regions;
    a.nonempty_regions += b.nonempty_regions;
    a.max_elements = std::max(a.max_elements, b.max_elements);
    a.collisions += b.collisions;
    a.child_runs += b.child_runs;
    a.child_crashes += b.child_crashes;
}

// once a sub-check has produced a violation the remaining sub-checks of this process are skipped: a reader defect that
// lets a corrupted header through makes the nested readers loop over garbage lengths (up to 4 Gi characters per string),
// and a process that runs into the driver's time limit loses the violation it has already found
std::string g_failed_sub;

bool skipped(const char* sub)
{
    return !g_failed_sub.empty() && g_failed_sub != sub;
}

verdict_t finish(const char* sub, verdict_t v)
{
    if (v.kind == kind_t::violation)
    {
        g_failed_sub = sub;
    }
    return v;
}

verdict_t to_verdict(const finding_t& f)
{
    if (f.kind == 2 && std::getenv("C15_PRINT_KNOWN") != nullptr)
    {
        std::fprintf(stderr, "C15_KNOWN %s %s\n", f.sig.c_str(), f.msg.c_str());
    }
    return f.kind == 1 ? verdict_t::violation(f.sig, f.msg) : f.kind == 2 ? verdict_t::known(f.sig, f.msg) : verdict_t::ok();
}

// round trip + faults of one subject; `known` collects the first known-class finding
finding_t examine(const subject_t& s, const fault_plan_t& plan, fault_stats_t& st, ctx_t& ctx)
{
    g_totals.subjects++;
    g_totals.bytes += s.bytes.size();
    if (const auto f = round_trip(s); f.kind != 0)
    {
        return f;
    }
    fault_stats_t mine;
    const auto    f = sweep(s, plan, mine);
    add(st, mine);
    add(g_totals.st, mine);
    ctx.maximum("stream-bytes", static_cast<double>(s.bytes.size()));
    ctx.maximum("tensor-regions-per-stream", static_cast<double>(mine.regions));
    return f;
}

void label_faults(const fault_stats_t& st, ctx_t& ctx)
{
    ctx.label_if(st.by_state > 0, "rejected:stream-state");
    ctx.label_if(st.by_exception > 0, "rejected:exception");
    ctx.label_if(st.by_bad_alloc > 0, "rejected:bad_alloc");
    ctx.label_if(st.header_lenient > 0, "header:accepted-same-elements");
    ctx.label_if(st.payload_alterations > 0, "fault:payload-byte");
    ctx.label_if(st.header_alterations > 0, "fault:header-byte");
    ctx.label_if(st.truncations > 0, "fault:truncation");
    ctx.label_if(st.collisions > 0, "checksum-collision");
    ctx.label_if(st.child_runs > 0, "header:bad_alloc-into-non-empty-object(child-process)");
    ctx.label_if(st.child_crashes > 0, "header:bad_alloc-into-non-empty-object:crashed");
    ctx.maximum("truncations-per-case", static_cast<double>(st.truncations));
    ctx.maximum("payload-alterations-per-case", static_cast<double>(st.payload_alterations));
    ctx.maximum("header-alterations-per-case", static_cast<double>(st.header_alterations));
    ctx.maximum("tensor-elements", static_cast<double>(st.max_elements));
}

// =======================================================================================
// tensor
// =======================================================================================
struct tcase_t
{
    int              type{0}; // 0..9: int8 int16 int32 int64 uint8 uint16 uint32 uint64 float double
    std::vector<int> dims;    // rank = dims.size()
    std::string      payload; // raw element bytes (prod(dims) * sizeof(scalar))
    int              prefill{0};
    uint64_t         fault_seed{1};

    template <class A>
    void io(A& a)
    {
        a("type", type);
        a("dims", dims);
        a("payload", payload);
        a("prefill", prefill);
        a("fault_seed", fault_seed);
    }
};

const size_t      esizes[10]     = {1, 2, 4, 8, 1, 2, 4, 8, 4, 8};
const char* const type_names[10] = {"int8", "int16", "int32", "int64", "uint8", "uint16", "uint32", "uint64", "float", "double"};

// one element as a 64-bit pattern (the low sizeof(scalar) bytes are used)
rc::Gen<uint64_t> gen_element(int type, int style)
{
    const bool   is_float = type >= 8;
    const size_t esize    = esizes[type];
    const auto   smallint = rc::gen::map(gen::range<int>(-3, 3),
                                         [=](int v) -> uint64_t
                                         {
                                           if (type == 8)
                                           {
                                               const auto f = static_cast<float>(v);
                                               uint32_t   u = 0;
                                               std::memcpy(&u, &f, 4);
                                               return u;
                                           }
                                           if (type == 9)
                                           {
                                               const auto d = static_cast<double>(v);
                                               uint64_t   u = 0;
                                               std::memcpy(&u, &d, 8);
                                               return u;
                                           }
                                           return static_cast<uint64_t>(static_cast<int64_t>(v));
                                       });
    const auto   random   = gen::range<uint64_t>(0, ~uint64_t(0) - 1);
    std::vector<uint64_t> specials;
    if (type == 8)
    {
        specials = {0x00000000U, 0x80000000U, 0x7f800000U, 0xff800000U, 0x7fc00000U, 0x7fa00001U, 0xffc12345U, 0x7f800001U, 0x00000001U,
                    0x807fffffU, 0x7f7fffffU, 0x00800000U, 0x34000000U, 0x3f800000U};
    }
    else if (type == 9)
    {
        specials = {0x0000000000000000ULL, 0x8000000000000000ULL, 0x7ff0000000000000ULL, 0xfff0000000000000ULL, 0x7ff8000000000000ULL,
                    0x7ff4000000000001ULL, 0xfff8000000abcdefULL, 0x7ff0000000000001ULL, 0x0000000000000001ULL, 0x800fffffffffffffULL,
                    0x7fefffffffffffffULL, 0x0010000000000000ULL, 0x3cb0000000000000ULL, 0x3ff0000000000000ULL};
    }
    else
    {
        const uint64_t top = uint64_t(1) << (8 * esize - 1);
        specials           = {0, 1, top, top - 1, ~uint64_t(0), top + 1, 0x55555555555555ULL, 0xaaaaaaaaaaaaaaaaULL, 6, 7, 0xbf, 0xc0};
    }
    (void)is_float;
    const auto special = rc::gen::elementOf(specials);
    switch (style)
    {
    case 0: return rc::gen::just(uint64_t(0));
    case 1: return smallint;
    case 2: return random;
    case 3: return special;
    default: return rc::gen::oneOf(smallint, random, special);
    }
}

rc::Gen<tcase_t> gen_tcase()
{
    const auto dim  = rc::gen::oneOf(rc::gen::element(0, 1, 1, 2, 2, 2, 3, 3, 4), gen::range<int>(0, 6));
    const auto dims = rc::gen::mapcat(rc::gen::pair(gen::range<int>(1, 5), gen::chance(6)),
                                      [dim](const std::pair<int, bool>& rb)
                                      {
                                          const auto d = rb.second ? gen::range<int>(3, 6) : dim;
                                          return rc::gen::container<std::vector<int>>(static_cast<size_t>(rb.first), d);
                                      });
    return rc::gen::mapcat(rc::gen::tuple(gen::range<int>(0, 9), dims, gen::range<int>(0, 5)),
                           [](const std::tuple<int, std::vector<int>, int>& tds)
                           {
                               const auto type  = std::get<0>(tds);
                               const auto dims  = std::get<1>(tds);
                               const auto style = std::get<2>(tds);
                               size_t     count = 1;
                               for (const auto d : dims)
                               {
                                   count *= static_cast<size_t>(d);
                               }
                               return rc::gen::map(rc::gen::tuple(rc::gen::noShrink(rc::gen::container<std::vector<uint64_t>>(count, gen_element(type, style))), gen::range<int>(0, 2),
                                                                  gen::range<uint64_t>(1, uint64_t(1) << 40)),
                                                   [=](const std::tuple<std::vector<uint64_t>, int, uint64_t>& eps)
                                                   {
                                                       tcase_t c;
                                                       c.type  = type;
                                                       c.dims  = dims;
                                                       const auto esize = esizes[type];
                                                       for (const auto e : std::get<0>(eps))
                                                       {
                                                           c.payload.append(reinterpret_cast<const char*>(&e), esize);
                                                       }
                                                       c.prefill    = std::get<1>(eps);
                                                       c.fault_seed = std::get<2>(eps);
                                                       return c;
                                                   });
                           });
}

template <class T, size_t R>
verdict_t check_tensor_typed(const tcase_t& c, ctx_t& ctx)
{
    using tensor_type = nano::tensor_mem_t<T, R>;
    nano::tensor_dims_t<R> dims;
    for (size_t i = 0; i < R; ++i)
    {
        dims[i] = c.dims[i];
    }
    tensor_type original(dims);
    if (static_cast<size_t>(original.size()) * sizeof(T) != c.payload.size())
    {
        return verdict_t::discard("malformed-case");
    }
    if (!c.payload.empty())
    {
        std::memcpy(original.data(), c.payload.data(), c.payload.size());
    }

    const auto observe = [](const tensor_type& t) { return tensor_bits(t); };
    auto       s       = tensor_subject<T, R>(original, c.prefill,
                                              cat("tensor<", type_names[c.type], ",", R, "> dims [", [&] { std::string d; for (auto x : c.dims) { d += cat(x, " "); } return d; }(), "]"));

    // the documented wire layout: version, rank, dims (int32), sizeof(scalar), hash(content), content
    {
        region_t   r;
        const bool ok = parse_region(s.bytes, 0, true, r);
        if (!ok || r.end() != s.bytes.size() || r.header_len != 4 + 4 + 4 * R + 4 + 8 || r.esize != sizeof(T) ||
            s.bytes.compare(r.payload_begin(), r.payload_len, c.payload) != 0 || !std::equal(r.dims.begin(), r.dims.end(), c.dims.begin()))
        {
            return verdict_t::violation("C15/tensor/wire-layout", cat(s.label, ": the written image (", s.bytes.size(), " bytes: ", clip(hex(s.bytes.data(), s.bytes.size()), 200),
                                                                       ") is not version|rank|dims|sizeof|hash|content of the tensor"));
        }
    }
    // a mapped (non-owning) tensor over the same memory serialises to the same bytes
    if (image_of(nano::map_tensor(static_cast<const T*>(original.data()), dims)) != s.bytes)
    {
        return verdict_t::violation("C15/tensor/map-writes-differently", s.label);
    }
    // the stream class used by the library's callers
    {
        std::istringstream in(s.bytes);
        tensor_type        t;
        if (!::nano::read(in, t) || !in || observe(t) != s.state || static_cast<size_t>(in.tellg()) != s.bytes.size())
        {
            return verdict_t::violation("C15/tensor/roundtrip/istringstream", s.label);
        }
    }

    fault_plan_t plan;
    plan.exhaustive_alternatives = s.bytes.size() < 200;
    plan.seed                    = c.fault_seed;
    fault_stats_t st;
    const auto    f = examine(s, plan, st, ctx);

    const auto count = static_cast<size_t>(original.size());
    ctx.label(cat("tensor:", type_names[c.type]));
    ctx.label(cat("tensor:rank", R));
    ctx.label(count == 0 ? "tensor:empty" : count == 1 ? "tensor:one-element" : count < 100 ? "tensor:2..99-elements" : "tensor:100+-elements");
    ctx.label(c.prefill != 0 ? "target:non-empty" : "target:pristine");
    ctx.label_if(plan.exhaustive_alternatives, "alternatives:all-255");
    ctx.label_if(!plan.exhaustive_alternatives, "alternatives:8-sampled");
    if (c.type >= 8 && count > 0)
    {
        bool nan = false;
        for (size_t i = 0; i < count; ++i)
        {
            nan = nan || original.data()[i] != original.data()[i];
        }
        ctx.label_if(nan, "tensor:nan-payload");
    }
    label_faults(st, ctx);
    ctx.nontrivial = count >= 2;
    return to_verdict(f);
}

template <class T>
verdict_t check_tensor_ranked(const tcase_t& c, ctx_t& ctx)
{
    switch (c.dims.size())
    {
    case 1: return check_tensor_typed<T, 1>(c, ctx);
    case 2: return check_tensor_typed<T, 2>(c, ctx);
    case 3: return check_tensor_typed<T, 3>(c, ctx);
    case 4: return check_tensor_typed<T, 4>(c, ctx);
    default: return check_tensor_typed<T, 5>(c, ctx);
    }
}

verdict_t check_tcase_impl(const tcase_t& c, ctx_t& ctx)
{
    if (c.type < 0 || c.type > 9 || c.dims.empty() || c.dims.size() > 5)
    {
        return verdict_t::discard("malformed-case");
    }
    for (const auto d : c.dims)
    {
        if (d < 0 || d > 16)
        {
            return verdict_t::discard("malformed-case");
        }
    }
    try
    {
        switch (c.type)
        {
        case 0: return check_tensor_ranked<int8_t>(c, ctx);
        case 1: return check_tensor_ranked<int16_t>(c, ctx);
        case 2: return check_tensor_ranked<int32_t>(c, ctx);
        case 3: return check_tensor_ranked<int64_t>(c, ctx);
        case 4: return check_tensor_ranked<uint8_t>(c, ctx);
        case 5: return check_tensor_ranked<uint16_t>(c, ctx);
        case 6: return check_tensor_ranked<uint32_t>(c, ctx);
        case 7: return check_tensor_ranked<uint64_t>(c, ctx);
        case 8: return check_tensor_ranked<float>(c, ctx);
        default: return check_tensor_ranked<double>(c, ctx);
        }
    }
    catch (const std::exception& e)
    {
        return verdict_t::violation("C15/exception/tensor", e.what());
    }
}

// =======================================================================================
// value: parameter_t, feature_t
// =======================================================================================
struct vcase_t
{
    int                      kind{0}; // 0 monostate 1 enum 2 integer 3 scalar 4 integer pair 5 scalar pair 6 string 7 feature
    std::string              name;
    int                      enum_type{0}, enum_index{0};
    int64_t                  imin{0}, iwidth{1}, iv1{0}, iv2{0};
    double                   fmin{0}, fwidth{1}, t1{0.5}, t2{0.5};
    int                      bounds{0}; // 0 finite, 1 min=-inf, 2 max=+inf, 3 both infinite, 4 max=DBL_MAX
    int                      mincomp{0}, maxcomp{0}, valcomp{0};
    std::string              sval;
    std::vector<std::string> labels;
    int                      ftype{0}, d0{1}, d1{1}, d2{1};
    int                      reassign{0};
    int                      prefill{0};
    uint64_t                 fault_seed{1};

    template <class A>
    void io(A& a)
    {
        a("kind", kind);
        a("name", name);
        a("enum_type", enum_type);
        a("enum_index", enum_index);
        a("imin", imin);
        a("iwidth", iwidth);
        a("iv1", iv1);
        a("iv2", iv2);
        a("fmin", fmin);
        a("fwidth", fwidth);
        a("t1", t1);
        a("t2", t2);
        a("bounds", bounds);
        a("mincomp", mincomp);
        a("maxcomp", maxcomp);
        a("valcomp", valcomp);
        a("sval", sval);
        a("labels", labels);
        a("ftype", ftype);
        a("d0", d0);
        a("d1", d1);
        a("d2", d2);
        a("reassign", reassign);
        a("prefill", prefill);
        a("fault_seed", fault_seed);
    }
};

rc::Gen<std::string> gen_string(int maxlen)
{
    const auto ch = rc::gen::oneOf(rc::gen::map(gen::range<int>('a', 'z'), [](int v) { return static_cast<char>(v); }),
                                   rc::gen::map(gen::range<int>(0, 255), [](int v) { return static_cast<char>(v); }), rc::gen::element(':', '_', '0', ' ', '\0'));
    return rc::gen::mapcat(gen::range<int>(0, maxlen), [ch](int n) { return rc::gen::container<std::string>(static_cast<size_t>(n), ch); });
}

rc::Gen<vcase_t> gen_vcase()
{
    const auto ints  = rc::gen::tuple(rc::gen::oneOf(gen::range<int64_t>(-20, 20), rc::gen::element<int64_t>(0, -1000000007LL, INT64_MIN / 2, INT64_MAX / 2 - 5000, 1LL << 40)),
                                      rc::gen::oneOf(gen::range<int64_t>(1, 12), gen::range<int64_t>(1, 4000)), gen::range<int64_t>(0, 100000), gen::range<int64_t>(0, 100000));
    const auto reals = rc::gen::tuple(rc::gen::oneOf(gen::sym(10.0), rc::gen::element(0.0, -0.0, 1e-300, -1e300, 1e15, 4.9406564584124654e-324)),
                                      rc::gen::oneOf(gen::logu(1e-9, 1e9), rc::gen::element(1.0, 1e300, 4.9406564584124654e-324)), gen::real(0.0, 1.0), gen::real(0.0, 1.0));
    const auto misc  = rc::gen::tuple(gen::range<int>(0, 7), gen::range<int>(0, 5), gen::range<int>(0, 11), gen::range<int>(0, 4), gen::range<int>(0, 7),
                                      rc::gen::element(0, 1, 2, 3, 4, 5, 6, 7, 8, 9, 10, 10, 10, 11, 11, 11), gen::range<int>(0, 2), gen::range<int>(0, 2));
    const auto strs  = rc::gen::tuple(gen_string(12), gen_string(20),
                                      rc::gen::mapcat(gen::range<int>(0, 5), [](int n) { return rc::gen::container<std::vector<std::string>>(static_cast<size_t>(n), gen_string(6)); }));
    const auto dims  = rc::gen::tuple(gen::range<int>(1, 5), gen::range<int>(1, 5), gen::range<int>(1, 8), gen::range<uint64_t>(1, uint64_t(1) << 40));
    return rc::gen::map(rc::gen::tuple(ints, reals, misc, strs, dims),
                        [](const auto& t)
                        {
                            vcase_t c;
                            std::tie(c.imin, c.iwidth, c.iv1, c.iv2) = std::get<0>(t);
                            std::tie(c.fmin, c.fwidth, c.t1, c.t2)   = std::get<1>(t);
                            int comps                                = 0;
                            std::tie(c.kind, c.enum_type, c.enum_index, c.bounds, comps, c.ftype, c.reassign, c.prefill) = std::get<2>(t);
                            c.mincomp                                = comps & 1;
                            c.maxcomp                                = (comps >> 1) & 1;
                            c.valcomp                                = (comps >> 2) & 1;
                            std::tie(c.name, c.sval, c.labels)       = std::get<3>(t);
                            std::tie(c.d0, c.d1, c.d2, c.fault_seed) = std::get<4>(t);
                            return c;
                        });
}

nano::parameter_t make_enum_parameter(const std::string& name, int type, int index)
{
    using nano::parameter_t;
    const auto pick = [&](auto values)
    {
        using tenum           = typename decltype(values)::value_type;
        const auto enumerated = nano::enum_string<tenum>();
        return parameter_t::make_enum(name, enumerated[static_cast<size_t>(index) % enumerated.size()].first);
    };
    switch (type)
    {
    case 0: return pick(std::vector<nano::feature_type>{});
    case 1: return pick(std::vector<nano::scaling_type>{});
    case 2: return pick(std::vector<nano::wlearner_criterion>{});
    case 3: return pick(std::vector<nano::gboost_shrinkage>{});
    case 4: return pick(std::vector<nano::gboost_subsample>{});
    default: return pick(std::vector<nano::solver_status>{});
    }
}

verdict_t check_vcase_impl(const vcase_t& c, ctx_t& ctx)
{
    using nano::parameter_t;
    try
    {
        const auto comp = [](int le) { return le != 0 ? nano::LEorLT{nano::LE} : nano::LEorLT{nano::LT}; };
        subject_t  s;
        fault_plan_t plan;
        plan.seed = c.fault_seed;

        if (c.kind == 7)
        {
            auto feature = nano::feature_t{c.name};
            const auto type = static_cast<nano::feature_type>(std::min(std::max(c.ftype, 0), 11));
            if (type == nano::feature_type::sclass)
            {
                feature.sclass(c.labels);
            }
            else if (type == nano::feature_type::mclass)
            {
                feature.mclass(c.labels);
            }
            else
            {
                feature.scalar(type, nano::make_dims(std::max(c.d0, 1), std::max(c.d1, 1), std::max(c.d2, 1)));
            }
            const int prefill = c.prefill;
            s = member_subject<nano::feature_t>(
                "feature", cat("feature_t type=", static_cast<int>(type), " labels=", feature.labels().size()), feature,
                [prefill]
                {
                    auto f = std::make_unique<nano::feature_t>();
                    if (prefill == 1)
                    {
                        *f = nano::feature_t{"previous"}.sclass(nano::strings_t{"a", "b", "c"});
                    }
                    else if (prefill == 2)
                    {
                        *f = nano::feature_t{"previous"}.scalar(nano::feature_type::int16, nano::make_dims(3, 2, 1));
                    }
                    return f;
                },
                [](const nano::feature_t& f) { return dump(f); });
            ctx.label("value:feature");
            ctx.label(cat("feature:", type == nano::feature_type::sclass ? "sclass" : type == nano::feature_type::mclass ? "mclass" : "continuous"));
            ctx.nontrivial = !c.name.empty() && (!feature.labels().empty() || feature.dims() != nano::make_dims(1, 1, 1));
        }
        else
        {
            parameter_t param;
            try
            {
            switch (c.kind)
            {
            case 0: break; // monostate
            case 1: param = make_enum_parameter(c.name, c.enum_type, c.enum_index); break;
            case 2:
            case 4:
            {
                const auto width = std::max<int64_t>(c.iwidth, 3);
                const auto min   = c.imin;
                const auto max   = min + width;
                const auto lo    = min + (c.mincomp != 0 ? 0 : 1);
                const auto hi    = max - (c.maxcomp != 0 ? 0 : 1);
                auto       v1    = lo + std::abs(c.iv1) % (hi - lo + 1);
                auto       v2    = lo + std::abs(c.iv2) % (hi - lo + 1);
                if (c.kind == 2)
                {
                    param = parameter_t::make_integer(c.name, min, comp(c.mincomp), v1, comp(c.maxcomp), max);
                    if (c.reassign != 0)
                    {
                        param = v2;
                    }
                }
                else
                {
                    if (v1 > v2)
                    {
                        std::swap(v1, v2);
                    }
                    if (c.valcomp == 0 && v1 == v2)
                    {
                        v1 == lo ? ++v2 : --v1; // width >= 3 keeps both inside
                    }
                    param = parameter_t::make_integer_pair(c.name, min, comp(c.mincomp), v1, comp(c.valcomp), v2, comp(c.maxcomp), max);
                    if (c.reassign != 0)
                    {
                        param = std::make_tuple(v1, v2);
                    }
                }
                break;
            }
            case 3:
            case 5:
            {
                const auto inf = std::numeric_limits<double>::infinity();
                double     min = c.fmin, max = c.fmin + std::max(c.fwidth, 4.9406564584124654e-324);
                if (!(min < max))
                {
                    max = std::nextafter(std::nextafter(std::nextafter(min, inf), inf), inf);
                }
                double lo = min, hi = max; // finite sampling window
                switch (c.bounds)
                {
                case 1: min = -inf; lo = max - 1e6; break;
                case 2: max = +inf; hi = min + 1e6; break;
                case 3: min = -inf; max = +inf; lo = -1e6; hi = 1e6; break;
                case 4: max = DBL_MAX; hi = std::max(min + 1.0, 1e300); break;
                default: break;
                }
                const auto place = [&](double t)
                {
                    double v = lo + t * (hi - lo);
                    if (!std::isfinite(v))
                    {
                        v = std::isfinite(lo) ? lo : std::isfinite(hi) ? hi : 0.0;
                    }
                    v = std::min(std::max(v, lo), hi);
                    // strict bounds: move inside
                    if (!(c.mincomp != 0 ? min <= v : min < v))
                    {
                        v = std::nextafter(min, inf);
                    }
                    if (!(c.maxcomp != 0 ? v <= max : v < max))
                    {
                        v = std::nextafter(max, -inf);
                    }
                    return v;
                };
                auto v1 = place(c.t1), v2 = place(c.t2);
                if (c.kind == 3)
                {
                    param = parameter_t::make_scalar(c.name, min, comp(c.mincomp), v1, comp(c.maxcomp), max);
                    if (c.reassign != 0)
                    {
                        param = v2;
                    }
                }
                else
                {
                    if (v1 > v2)
                    {
                        std::swap(v1, v2);
                    }
                    if (c.valcomp == 0 && !(v1 < v2))
                    {
                        return verdict_t::discard("degenerate-scalar-pair");
                    }
                    param = parameter_t::make_scalar_pair(c.name, min, comp(c.mincomp), v1, comp(c.valcomp), v2, comp(c.maxcomp), max);
                }
                break;
            }
            default:
                param = parameter_t::make_string(c.name, c.sval);
                if (c.reassign != 0)
                {
                    param = c.sval + c.name;
                }
                break;
            }
            }
            catch (const std::exception& e)
            {
                if (std::getenv("C15_PRINT_KNOWN") != nullptr)
                {
                    std::fprintf(stderr, "C15_REJECTED %s\n", e.what());
                }
                // the constructor re-validates the state built above (parameter validity is C19's subject)
                return verdict_t::discard("parameter-construction-rejected");
            }

            const int prefill = c.prefill;
            s = member_subject<parameter_t>(
                "parameter", cat("parameter_t kind=", param.storage().index()), param,
                [prefill]
                {
                    auto p = std::make_unique<parameter_t>();
                    if (prefill == 1)
                    {
                        *p = parameter_t::make_string("previous", "some value");
                    }
                    else if (prefill == 2)
                    {
                        *p = parameter_t::make_scalar_pair("previous", 0.0, nano::LE, 0.25, nano::LT, 0.75, nano::LE, 1.0);
                    }
                    return p;
                },
                [](const parameter_t& p) { return dump(p); });

            // the library's own equality on the re-read object
            {
                std::istringstream in(s.bytes);
                parameter_t        again;
                again.read(in);
                if (!in || !(again == param) || again != param)
                {
                    return verdict_t::violation("C15/parameter/roundtrip/not-equal", cat(s.label, ": ", dump(param), " re-read as ", dump(again)));
                }
            }
            static const char* const kinds[] = {"monostate", "enum", "integer", "scalar", "integer-pair", "scalar-pair", "string"};
            ctx.label(cat("value:parameter:", kinds[param.storage().index()]));
            ctx.nontrivial = !c.name.empty() && param.storage().index() != 0;
        }

        fault_stats_t st;
        const auto    f = examine(s, plan, st, ctx);
        label_faults(st, ctx);
        return to_verdict(f);
    }
    catch (const std::exception& e)
    {
        return verdict_t::violation("C15/exception/value", e.what());
    }
}

// =======================================================================================
// config: factory objects with random in-domain parameters
// =======================================================================================
struct ccase_t
{
    int                 family{0}; // 0 solver 1 lsearch0 2 lsearchk 3 loss 4 splitter 5 tuner 6 wlearner 7 linear 8 gboost
    int                 index{0};
    std::vector<double> u;
    std::vector<int>    protos; // gboost: prototype weak learners
    uint64_t            seed{1};
    int                 evals{20};

    template <class A>
    void io(A& a)
    {
        a("family", family);
        a("index", index);
        a("u", u);
        a("protos", protos);
        a("seed", seed);
        a("evals", evals);
    }
};

rc::Gen<ccase_t> gen_ccase()
{
    return rc::gen::map(rc::gen::tuple(rc::gen::element(0, 0, 0, 0, 1, 2, 2, 3, 3, 4, 5, 6, 6, 7, 8, 8), gen::range<int>(0, 999),
                                       rc::gen::mapcat(gen::range<int>(0, 24), [](int n) { return rc::gen::container<std::vector<double>>(static_cast<size_t>(n), gen::real(0.0, 1.0)); }),
                                       rc::gen::mapcat(gen::range<int>(0, 5), [](int n) { return rc::gen::container<std::vector<int>>(static_cast<size_t>(n), gen::range<int>(0, 7)); }),
                                       gen::range<uint64_t>(1, uint64_t(1) << 40), gen::range<int>(10, 120)),
                        [](const auto& t)
                        {
                            ccase_t c;
                            std::tie(c.family, c.index, c.u, c.protos, c.seed, c.evals) = t;
                            return c;
                        });
}

// member API + free-function API of one factory object
template <class tbase>
finding_t examine_factory_object(const char* family, const std::unique_ptr<tbase>& object, std::function<std::string(const tbase&)> observe_full,
                                 std::function<std::string(const tbase&)> observe_cheap, const fault_plan_t& plan, fault_stats_t& st, ctx_t& ctx)
{
    const auto id = object->type_id();
    // round trip with the behaviour run, faults with the cheap observation (it is only evaluated to report a failure)
    {
        auto s = member_subject<tbase>(family, cat(family, " ", id, " (member read/write)"), *object, [id] { return tbase::all().get(id); }, observe_full);
        if (const auto f = round_trip(s); f.kind != 0)
        {
            return f;
        }
        // the library's own equality
        {
            std::istringstream in(s.bytes);
            auto               again = tbase::all().get(id);
            again->read(in);
            if (!in || !same_parameters(*again, *object))
            {
                return {1, cat("C15/", family, "/roundtrip/parameters-not-equal"), s.label};
            }
        }
    }
    finding_t known;
    {
        auto s = member_subject<tbase>(family, cat(family, " ", id, " (member read/write)"), *object, [id] { return tbase::all().get(id); }, observe_cheap);
        const auto f = examine(s, plan, st, ctx);
        if (f.kind == 1)
        {
            return f;
        }
        known = f;
    }
    {
        auto s = factory_subject<tbase>(family, cat(family, " ", id, " (nano::write/nano::read of the factory object)"), object, observe_cheap);
        const auto f = examine(s, plan, st, ctx);
        if (f.kind == 1)
        {
            return f;
        }
        known = known.kind != 0 ? known : f;
    }
    return known;
}

verdict_t check_ccase_impl(const ccase_t& c, ctx_t& ctx)
{
    try
    {
        nano::verif::rng_state().store(c.seed | 1U);
        fault_plan_t plan;
        plan.seed = c.seed;
        fault_stats_t st;
        finding_t     f;
        const auto    seed  = c.seed;
        const auto    evals = std::min(std::max(c.evals, 10), 200);
        int           rejected = 0;
        size_t        nparams  = 0;

        switch (c.family)
        {
        case 0:
        {
            auto object = nano::solver_t::all().get(pick_id<nano::solver_t>(c.index));
            rejected    = randomize(*object, c.u);
            nparams     = object->parameters().size();
            ctx.label(cat("config:solver:", object->type_id()));
            f = examine_factory_object<nano::solver_t>(
                "solver", object, [=](const nano::solver_t& x) { return observe_solver(x, seed, evals, true); },
                [=](const nano::solver_t& x) { return observe_solver(x, seed, evals, false); }, plan, st, ctx);
            break;
        }
        case 1:
        {
            auto object = nano::lsearch0_t::all().get(pick_id<nano::lsearch0_t>(c.index));
            rejected    = randomize(*object, c.u);
            nparams     = object->parameters().size();
            ctx.label(cat("config:lsearch0:", object->type_id()));
            f = examine_factory_object<nano::lsearch0_t>(
                "lsearch0", object, [=](const nano::lsearch0_t& x) { return observe_lsearch0(x, seed, evals, true); },
                [=](const nano::lsearch0_t& x) { return observe_lsearch0(x, seed, evals, false); }, plan, st, ctx);
            break;
        }
        case 2:
        {
            auto object = nano::lsearchk_t::all().get(pick_id<nano::lsearchk_t>(c.index));
            rejected    = randomize(*object, c.u);
            nparams     = object->parameters().size();
            ctx.label(cat("config:lsearchk:", object->type_id()));
            f = examine_factory_object<nano::lsearchk_t>(
                "lsearchk", object, [=](const nano::lsearchk_t& x) { return observe_lsearchk(x, seed, evals, true); },
                [=](const nano::lsearchk_t& x) { return observe_lsearchk(x, seed, evals, false); }, plan, st, ctx);
            break;
        }
        case 3:
        {
            auto object = nano::loss_t::all().get(pick_id<nano::loss_t>(c.index));
            rejected    = randomize(*object, c.u);
            nparams     = object->parameters().size();
            ctx.label(cat("config:loss:", object->type_id()));
            f = examine_factory_object<nano::loss_t>(
                "loss", object, [=](const nano::loss_t& x) { return observe_loss(x, seed); }, [=](const nano::loss_t& x) { return observe_loss(x, seed); }, plan, st,
                ctx);
            break;
        }
        case 4:
        {
            auto object = nano::splitter_t::all().get(pick_id<nano::splitter_t>(c.index));
            rejected    = randomize(*object, c.u);
            nparams     = object->parameters().size();
            ctx.label(cat("config:splitter:", object->type_id()));
            f = examine_factory_object<nano::splitter_t>(
                "splitter", object, [=](const nano::splitter_t& x) { return observe_splitter(x, seed); },
                [=](const nano::splitter_t& x) { return cat("splitter:", x.type_id(), ":", dump(x)); }, plan, st, ctx);
            break;
        }
        case 5:
        {
            auto object = nano::tuner_t::all().get(pick_id<nano::tuner_t>(c.index));
            rejected    = randomize(*object, c.u);
            nparams     = object->parameters().size();
            ctx.label(cat("config:tuner:", object->type_id()));
            f = examine_factory_object<nano::tuner_t>(
                "tuner", object, [=](const nano::tuner_t& x) { return observe_tuner(x, seed, true); },
                [=](const nano::tuner_t& x) { return observe_tuner(x, seed, false); }, plan, st, ctx);
            break;
        }
        case 6:
        {
            auto object = nano::wlearner_t::all().get(pick_id<nano::wlearner_t>(c.index));
            rejected    = randomize(*object, c.u);
            nparams     = object->parameters().size();
            ctx.label(cat("config:wlearner:", object->type_id()));
            const auto observe = [](const nano::wlearner_t& x) { return observe_wlearner(x, nullptr) + dtree_nodes(x); };
            // the empty tensors of the unfitted object are located through their images (member subject built by hand)
            auto s = wlearner_subject(*object, nullptr, false);
            f      = examine(s, plan, st, ctx);
            if (f.kind != 1)
            {
                auto s2   = factory_subject<nano::wlearner_t>("wlearner", cat("wlearner ", object->type_id(), " (nano::write/nano::read of the factory object)"), object, observe);
                s2.images = images_of(*object);
                const auto f2 = examine(s2, plan, st, ctx);
                f             = f2.kind == 1 ? f2 : (f.kind != 0 ? f : f2);
            }
            break;
        }
        case 7:
        {
            auto object = nano::linear_t::all().get(pick_id<nano::linear_t>(c.index));
            rejected    = randomize(*object, c.u);
            nparams     = object->parameters().size();
            ctx.label(cat("config:linear:", object->type_id()));
            const auto observe = [](const nano::linear_t& x) { return observe_linear(x, nullptr); };
            const auto id      = object->type_id();
            auto       s       = member_subject<nano::linear_t>("linear", cat("linear ", id, " (unfitted)"), *object, [id] { return nano::linear_t::all().get(id); }, observe);
            s.images           = {image_of(object->bias()), image_of(object->weights())};
            f                  = examine(s, plan, st, ctx);
            if (f.kind != 1)
            {
                auto s2   = factory_subject<nano::linear_t>("linear", cat("linear ", id, " (unfitted, nano::write/nano::read of the factory object)"), object, observe);
                s2.images = s.images;
                const auto f2 = examine(s2, plan, st, ctx);
                f             = f2.kind == 1 ? f2 : (f.kind != 0 ? f : f2);
            }
            break;
        }
        default:
        {
            nano::gboost_model_t model;
            rejected = randomize(model, c.u);
            model.prototypes(make_prototypes(c.protos, c.u));
            nparams = model.parameters().size();
            ctx.label("config:gboost");
            ctx.label(cat("gboost:prototypes:", std::min<size_t>(c.protos.size(), 3), c.protos.size() >= 3 ? "+" : ""));
            auto s = gboost_subject(model, nullptr, false);
            f      = examine(s, plan, st, ctx);
            ctx.nontrivial = c.protos.size() >= 2;
            break;
        }
        }
        ctx.label_if(rejected > 0, "config:assignment-rejected");
        ctx.label_if(c.u.empty(), "config:defaults");
        if (c.family != 8)
        {
            ctx.nontrivial = nparams >= 2 && !c.u.empty();
        }
        label_faults(st, ctx);
        return to_verdict(f);
    }
    catch (const std::exception& e)
    {
        return verdict_t::violation("C15/exception/config", e.what());
    }
}

// =======================================================================================
// model: fitted weak learners, linear models, gboost models
// =======================================================================================
struct mcase_t
{
    data_spec_t         data;
    int                 kind{0}; // 0..7 weak learner, 8..11 linear model, 12 gboost
    std::vector<double> u;       // parameter choices
    std::vector<int>    protos;  // gboost prototypes
    std::vector<double> grads;   // residuals the weak learner is fitted to
    int                 loss{0};
    int                 evals{20};
    int                 tuner{0};
    int                 api{0};  // weak learners / linear: 0 member API, 1 free functions
    int                 reuse{0}; // member API: 1 = read into a copy of the fitted object instead of a pristine one
    uint64_t            rng{1};

    template <class A>
    void io(A& a)
    {
        data.io(a);
        a("kind", kind);
        a("u", u);
        a("protos", protos);
        a("grads", grads);
        a("loss", loss);
        a("evals", evals);
        a("tuner", tuner);
        a("api", api);
        a("reuse", reuse);
        a("rng", rng);
    }
};

rc::Gen<mcase_t> gen_mcase()
{
    return rc::gen::mapcat(
        rc::gen::tuple(rc::gen::element(0, 1, 2, 3, 4, 5, 6, 7, 7, 8, 9, 10, 11, 12, 12, 12), rc::gen::element(1, 1, 1, 2, 3, 4)),
        [](const std::tuple<int, int>& kt)
        {
            const int kind = std::get<0>(kt);
            verif::ds::gen_options_t o;
            // decision trees and boosting need a few samples per node / fold to fit anything (the stream does not grow with them)
            const bool many = kind == 7 || kind == 12;
            o.min_samples   = many ? 24 : 8;
            o.max_samples   = many ? 64 : 24;
            o.min_inputs    = (kind >= 3 && kind <= 6) ? 2 : 1;
            o.max_inputs    = 4;
            o.max_classes   = 3;
            o.target_kind   = many ? ((std::get<1>(kt) == 4 || kind == 12) && std::get<1>(kt) != 3 ? 1 : std::get<1>(kt)) : std::get<1>(kt);
            // complete data for the linear models; also for gboost: a categorical input without any value inside one of
            // the folds makes the table weak learners index an empty score table (crash inside fitting, C10's subject)
            o.allow_missing = kind < 8;
            // steer towards inputs the chosen weak learner can use (the others still occur)
            if (kind <= 2 || kind == 7)
            {
                o.allow_sclass = o.allow_mclass = o.allow_struct = false; // (the decision tree splits with stumps only)
            }
            else if (kind >= 3 && kind <= 6)
            {
                o.allow_struct = false;
            }
            return rc::gen::mapcat(
                // every input has at least one value: an entirely missing categorical input makes the table weak learners
                // index an empty score table (crash inside fitting: C10's subject, not this property's)
                // (the dataset and the residuals are not shrunk: every shrink attempt costs a fit and a full sweep)
                rc::gen::map(rc::gen::noShrink(verif::ds::gen_data(o)),
                             [](data_spec_t data)
                             {
                                 for (auto& mask : data.mask)
                                 {
                                     if (std::find(mask.begin(), mask.end(), 1) == mask.end())
                                     {
                                         mask.front() = 1;
                                     }
                                 }
                                 // no values near the limits of the 32/64 bit types: the mid-point thresholds of the stumps inside
                                 // a decision tree round onto a data value there and a branch receives no sample (crash inside
                                 // fitting, C10's subject)
                                 for (auto& values : data.values)
                                 {
                                     for (auto& v : values)
                                     {
                                         if (std::fabs(v) > 1e6)
                                         {
                                             v = v > 0 ? 100.0 : -100.0;
                                         }
                                     }
                                 }
                                 // a learnable scalar regression target (first scalar input, affine) instead of noise: boosting
                                 // and trees then keep some rounds / nodes
                                 if (data.target >= 0 && data.spec(data.target).is_scalar())
                                 {
                                     for (const auto f : data.inputs())
                                     {
                                         if (data.spec(f).is_scalar())
                                         {
                                             auto& target = data.values[static_cast<size_t>(data.target)];
                                             for (int i = 0; i < data.samples; ++i)
                                             {
                                                 const auto x = data.given(f, i) ? data.stored(f, i, 0) : 0.0;
                                                 target[static_cast<size_t>(i)] = 0.75 * x - 0.5 + 0.01 * target[static_cast<size_t>(i)];
                                             }
                                             break;
                                         }
                                     }
                                 }
                                 return data;
                             }),
                [kind](const data_spec_t& data)
                {
                    const auto t     = data.spec(data.target);
                    const auto tsize = static_cast<size_t>(t.width() > 0 ? (t.is_sclass() ? t.classes : t.width()) : 1);
                    return rc::gen::map(
                        rc::gen::tuple(rc::gen::mapcat(gen::range<int>(0, 12), [](int n) { return rc::gen::container<std::vector<double>>(static_cast<size_t>(n), gen::real(0.0, 1.0)); }),
                                       rc::gen::mapcat(gen::range<int>(1, 4), [](int n) { return rc::gen::container<std::vector<int>>(static_cast<size_t>(n), gen::range<int>(0, 7)); }),
                                       rc::gen::noShrink(rc::gen::container<std::vector<double>>(static_cast<size_t>(data.samples) * tsize, rc::gen::oneOf(gen::sym(2.0), gen::smallint(-2, 2)))),
                                       gen::range<int>(0, 11), gen::range<int>(10, 40), gen::range<int>(0, 1), gen::range<int>(0, 1), rc::gen::element(0, 0, 1), gen::range<uint64_t>(1, uint64_t(1) << 40)),
                        [kind, data](const auto& t)
                        {
                            mcase_t c;
                            c.data = data;
                            c.kind = kind;
                            std::tie(c.u, c.protos, c.grads, c.loss, c.evals, c.tuner, c.api, c.reuse, c.rng) = t;
                            return c;
                        });
                });
        });
}

std::string loss_for(const data_spec_t& d, int index)
{
    const auto t = d.spec(d.target);
    if (t.is_sclass())
    {
        static const char* const ids[] = {"s-classnll", "s-logistic", "mse", "s-exponential", "s-hinge"};
        return ids[static_cast<size_t>(index) % 5];
    }
    if (t.is_mclass())
    {
        static const char* const ids[] = {"m-logistic", "m-hinge", "mse", "m-exponential"};
        return ids[static_cast<size_t>(index) % 4];
    }
    static const char* const ids[] = {"mse", "mse", "mae", "cauchy", "pinball"};
    return ids[static_cast<size_t>(index) % 5];
}

nano::ml::params_t fit_params(const mcase_t& c)
{
    auto solver                            = nano::solver_t::all().get("lbfgs");
    solver->parameter("solver::max_evals") = std::min(std::max(c.evals, 10), 60);
    solver->parameter("solver::epsilon")   = 1e-6;
    auto splitter                          = nano::splitter_t::all().get("k-fold");
    splitter->parameter("splitter::folds") = 2;
    splitter->parameter("splitter::seed")  = static_cast<int64_t>(c.rng % 1024);
    auto tuner                             = nano::tuner_t::all().get(c.tuner == 0 ? "local-search" : "surrogate");
    tuner->parameter("tuner::max_evals")   = 10;
    return nano::ml::params_t{}.solver(*solver).splitter(*splitter).tuner(*tuner).logger(nano::make_null_logger());
}

verdict_t check_mcase_impl(const mcase_t& c, ctx_t& ctx)
{
    const auto& d = c.data;
    if (!d.valid() || d.target < 0 || d.samples < 4 || c.kind < 0 || c.kind > 12)
    {
        return verdict_t::discard("malformed-case");
    }
    for (const auto& mask : d.mask)
    {
        if (std::find(mask.begin(), mask.end(), 1) == mask.end())
        {
            return verdict_t::discard("entirely-missing-input"); // see gen_mcase
        }
    }
    for (const auto& values : d.values)
    {
        for (const auto v : values)
        {
            if (std::fabs(v) > 1e6)
            {
                return verdict_t::discard("extreme-input-value"); // see gen_mcase
            }
        }
    }
    try
    {
        nano::verif::rng_state().store(c.rng * 2 + 1);
        const data_t data(d);
        const auto&  dataset = *data.dataset;
        fault_plan_t plan;
        plan.seed = c.rng;
        fault_stats_t st;
        finding_t     f;
        bool          fitted = false;
        size_t        elements = 0;

        if (c.kind <= 7)
        {
            auto w = nano::wlearner_t::all().get(pick_id<nano::wlearner_t>(c.kind));
            randomize(*w, c.u);
            if (auto* depth = w->parameter_if("wlearner::dtree::max_depth"); depth != nullptr)
            {
                // deeper trees end in one-sample nodes on this little data and report "no fit"
                *depth                                   = static_cast<int64_t>(1 + (c.rng % 4 == 3 ? 2 : c.rng % 2));
                w->parameter("wlearner::dtree::min_split") = 10;
            }
            nano::tensor4d_t gradients(nano::cat_dims(dataset.samples(), dataset.target_dims()));
            for (nano::tensor_size_t i = 0; i < gradients.size(); ++i)
            {
                gradients(i) = c.grads.empty() ? 0.0 : c.grads[static_cast<size_t>(i) % c.grads.size()];
            }
            double score = 0.0;
            try
            {
                score = w->fit(dataset, data.all, gradients);
            }
            catch (const std::exception& e)
            {
                ctx.label("model:fit-threw");
                return verdict_t::discard(cat("fit-threw:wlearner:", w->type_id()));
            }
            fitted = score != nano::wlearner_t::no_fit_score();
            ctx.label(cat("model:wlearner:", w->type_id(), fitted ? "" : ":no-fit"));
            {
                auto s = wlearner_subject(*w, &data, true);
                if (const auto r = round_trip(s); r.kind != 0)
                {
                    return to_verdict(r);
                }
            }
            if (c.api == 0)
            {
                auto s = wlearner_subject(*w, &data, false, c.reuse != 0);
                f      = examine(s, plan, st, ctx);
            }
            else
            {
                const data_t* pdata = &data;
                auto          s     = factory_subject<nano::wlearner_t>("wlearner", cat("wlearner ", w->type_id(), " (nano::write/nano::read of the factory object)"), w,
                                                                        [pdata](const nano::wlearner_t& x) { return observe_wlearner(x, pdata) + dtree_nodes(x); });
                s.images            = images_of(*w);
                f                   = examine(s, plan, st, ctx);
            }
        }
        else if (c.kind <= 11)
        {
            auto       m    = nano::linear_t::all().get(pick_id<nano::linear_t>(c.kind - 8));
            randomize(*m, c.u);
            const auto loss = nano::loss_t::all().get(loss_for(d, c.loss));
            try
            {
                m->fit(dataset, data.all, *loss, fit_params(c));
            }
            catch (const std::exception& e)
            {
                ctx.label("model:fit-threw");
                return verdict_t::discard(cat("fit-threw:linear:", m->type_id()));
            }
            fitted = true;
            ctx.label(cat("model:linear:", m->type_id()));
            ctx.label(cat("model:loss:", loss->type_id()));
            const auto id = m->type_id();
            {
                auto s = linear_subject(*m, &data);
                if (const auto r = round_trip(s); r.kind != 0)
                {
                    return to_verdict(r);
                }
            }
            if (c.api == 0)
            {
                auto s = linear_subject(*m, nullptr, c.reuse != 0);
                f      = examine(s, plan, st, ctx);
            }
            else
            {
                auto s   = factory_subject<nano::linear_t>("linear", cat("linear ", id, " (nano::write/nano::read of the factory object)"), m,
                                                           [](const nano::linear_t& x) { return observe_linear(x, nullptr); });
                s.images = {image_of(m->bias()), image_of(m->weights())};
                f        = examine(s, plan, st, ctx);
            }
            elements = static_cast<size_t>(m->weights().size());
        }
        else
        {
            nano::gboost_model_t m;
            randomize(m, c.u);
            m.parameter("gboost::max_rounds") = 10; // the smallest admissible value keeps the stream small
            m.parameter("gboost::patience")   = static_cast<int64_t>(1 + c.rng % 3);
            // a tiny ratio makes the sampler hand an EMPTY sample list to the weak learners (samples.max() on an empty
            // tensor, a crash inside gboost fitting): outside this property, avoided here
            m.parameter("gboost::subsample_ratio") = std::max(m.parameter("gboost::subsample_ratio").value<double>(), 0.6);
            m.prototypes(make_prototypes(c.protos, c.u));
            const auto loss = nano::loss_t::all().get(loss_for(d, c.loss));
            try
            {
                m.fit(dataset, data.all, *loss, fit_params(c));
            }
            catch (const std::exception& e)
            {
                ctx.label("model:fit-threw");
                return verdict_t::discard("fit-threw:gboost");
            }
            fitted = !m.wlearners().empty();
            ctx.label(cat("model:gboost:rounds:", m.wlearners().empty() ? "0" : m.wlearners().size() < 3 ? "1-2" : m.wlearners().size() < 7 ? "3-6" : "7+"));
            ctx.label(cat("model:loss:", loss->type_id()));
            for (const auto& w : m.wlearners())
            {
                ctx.label(cat("gboost:uses:", w->type_id()));
            }
            {
                auto s = gboost_subject(m, &data, true);
                if (const auto r = round_trip(s); r.kind != 0)
                {
                    return to_verdict(r);
                }
            }
            auto s = gboost_subject(m, &data, false, c.reuse != 0);
            f      = examine(s, plan, st, ctx);
        }

        label_faults(st, ctx);
        ctx.label_if(!fitted, "model:not-fitted");
        ctx.label_if(c.reuse != 0 && c.api == 0, "model:read-into-fitted-object");
        elements       = std::max<size_t>(elements, st.max_elements);
        ctx.nontrivial = fitted && elements >= 2 && st.payload_alterations > 0;
        return to_verdict(f);
    }
    catch (const std::exception& e)
    {
        return verdict_t::violation("C15/exception/model", e.what());
    }
}

verdict_t check_tcase(const tcase_t& c, ctx_t& ctx)
{
    if (skipped("tensor"))
    {
        return verdict_t::discard("skipped-after-a-violation-in-another-sub-check");
    }
    return finish("tensor", check_tcase_impl(c, ctx));
}

verdict_t check_vcase(const vcase_t& c, ctx_t& ctx)
{
    if (skipped("value"))
    {
        return verdict_t::discard("skipped-after-a-violation-in-another-sub-check");
    }
    return finish("value", check_vcase_impl(c, ctx));
}

verdict_t check_ccase(const ccase_t& c, ctx_t& ctx)
{
    if (skipped("config"))
    {
        return verdict_t::discard("skipped-after-a-violation-in-another-sub-check");
    }
    return finish("config", check_ccase_impl(c, ctx));
}

verdict_t check_mcase(const mcase_t& c, ctx_t& ctx)
{
    if (skipped("model"))
    {
        return verdict_t::discard("skipped-after-a-violation-in-another-sub-check");
    }
    return finish("model", check_mcase_impl(c, ctx));
}

void print_totals()
{
    if (std::getenv("C15_TOTALS") == nullptr)
    {
        return;
    }
    const auto& t = g_totals.st;
    std::fprintf(stderr,
                 "C15_TOTALS subjects=%llu bytes=%llu truncations=%llu payload_alterations=%llu header_alterations=%llu by_state=%llu by_exception=%llu "
                 "by_bad_alloc=%llu header_lenient=%llu regions=%llu nonempty_regions=%llu collisions=%llu\n",
                 static_cast<unsigned long long>(g_totals.subjects), static_cast<unsigned long long>(g_totals.bytes), static_cast<unsigned long long>(t.truncations),
                 static_cast<unsigned long long>(t.payload_alterations), static_cast<unsigned long long>(t.header_alterations), static_cast<unsigned long long>(t.by_state),
                 static_cast<unsigned long long>(t.by_exception), static_cast<unsigned long long>(t.by_bad_alloc), static_cast<unsigned long long>(t.header_lenient),
                 static_cast<unsigned long long>(t.regions), static_cast<unsigned long long>(t.nonempty_regions), static_cast<unsigned long long>(t.collisions));
}
} // namespace

int main(int argc, char** argv)
{
    // the fits create their own thread pools (ml::tune): two workers are plenty for 8..24 samples
    ::setenv("NANO_VERIF_MAX_THREADS", "2", 0);
    std::atexit(print_totals);
    if (default_heavy_alternatives() < 0)
    {
        // plain flavour: altered extents request up to 2^31 x 6^4 elements; with a bounded address space such a request
        // fails at once with std::bad_alloc (a reported failure) instead of depending on the overcommit policy of the
        // machine, and a misaligned parse cannot zero-fill gigabytes (the sanitizer flavours bound allocations themselves)
        const struct rlimit limit = {rlim_t(6) << 30, rlim_t(6) << 30};
        ::setrlimit(RLIMIT_AS, &limit);
    }

    suite_t suite("C15");
    suite.add<tcase_t>("tensor", gen_tcase, check_tcase, 0.50);
    suite.add<vcase_t>("value", gen_vcase, check_vcase, 0.20);
    suite.add<ccase_t>("config", gen_ccase, check_ccase, 0.18);
    suite.add<mcase_t>("model", gen_mcase, check_mcase, 0.12);
    return suite.main(argc, argv);
}
