// C03 — bundle / ellipsoid solvers: reported convergence certifies eps-optimality on functions with a
// sharp, analytically known minimum (DESIGN.md section 5, C03; properties.jsonl "id":"C03").
//
//   f(x) = [ |A(x-x*)|_1 ] + [ |A(x-x*)|_inf ] + mu/2 |x-x*|^2 + f*,   A (m x n) = U diag(sigma) V'
// with sigma_min >= 1 when the l1 term is present and sigma_min >= sqrt(m) for the pure l_inf family,
// which gives f(x) - f* >= |x-x*|_2 (the stated precondition; re-checked on every case from the SVD of A).
//
// sub-checks
//   ellipsoid      ellipsoid method, x* inside the initial radius                                (plain flavour)
//   bundle         rqb, fpba1, fpba2 with bundle::max_size in 5..100                             (plain flavour)
//   bundle-small   rqb, fpba1, fpba2 with bundle::max_size in 2..4 (where finding F10 overflowed) (plain flavour)
//   bundle-asan    rqb, fpba1, fpba2, bundle::max_size in 2..100, smaller budgets: regression guard for the
//                  heap overflow of finding F10 (fixed in 674a0d8)                                (asan flavour)
#include "c02_support.h"

#include <Eigen/SVD>

using namespace verif;
using namespace verif::ss;

namespace
{
struct scase_t
{
    std::string         solver; // rqb | fpba1 | fpba2 | ellipsoid
    int                 n{1}, m{1};
    int                 family{0}; // 0: l1, 1: l_inf, 2: l1 + l_inf
    std::vector<double> A;         // m x n, row major
    std::vector<double> xstar;
    double              fstar{0.0};
    double              mu{0.0};
    std::vector<double> x0;
    double              epsilon{1e-6};
    int                 max_evals{20000};
    int                 bundle_size{100}; // bundle solvers
    double              radius{10.0};     // ellipsoid: solver::ellipsoid::R
    std::vector<int>    pmode;            // csearch / proximity parameters (see c02_support.h)
    std::vector<double> pu1, pu2;

    template <class Ar>
    void io(Ar& a)
    {
        a("solver", solver);
        a("n", n);
        a("m", m);
        a("family", family);
        a("A", A);
        a("xstar", xstar);
        a("fstar", fstar);
        a("mu", mu);
        a("x0", x0);
        a("epsilon", epsilon);
        a("max_evals", max_evals);
        a("bundle_size", bundle_size);
        a("radius", radius);
        a("pmode", pmode);
        a("pu1", pu1);
        a("pu2", pu2);
    }
};

// ---- the function ---------------------------------------------------------------------------
class sharp_t final : public nano::function_t
{
public:
    explicit sharp_t(const scase_t& c)
        : nano::function_t("sharp", c.n)
        , m_c(c)
        , m_r(static_cast<size_t>(c.m))
    {
        convex(nano::convexity::yes);
        smooth(nano::smoothness::no);
    }

    nano::rfunction_t clone() const override { return std::make_unique<sharp_t>(*this); }

    scalar_t do_vgrad(vector_cmap_t x, vector_map_t gx) const override
    {
        const auto n    = m_c.n;
        const auto m    = m_c.m;
        const auto grad = gx.size() == x.size();
        if (grad)
        {
            for (int i = 0; i < n; ++i)
            {
                gx(i) = m_c.mu * (x(i) - m_c.xstar[static_cast<size_t>(i)]);
            }
        }
        double sq = 0.0;
        for (int i = 0; i < n; ++i)
        {
            const auto d = x(i) - m_c.xstar[static_cast<size_t>(i)];
            sq += d * d;
        }
        double l1 = 0.0, linf = 0.0;
        int    imax = -1;
        for (int k = 0; k < m; ++k)
        {
            double r = 0.0;
            for (int i = 0; i < n; ++i)
            {
                r += m_c.A[static_cast<size_t>(k * n + i)] * (x(i) - m_c.xstar[static_cast<size_t>(i)]);
            }
            m_r[static_cast<size_t>(k)] = r;
            l1 += std::fabs(r);
            if (std::fabs(r) > linf)
            {
                linf = std::fabs(r);
                imax = k;
            }
        }
        double fx = m_c.fstar + 0.5 * m_c.mu * sq;
        if (m_c.family != 1)
        {
            fx += l1;
            if (grad)
            {
                for (int k = 0; k < m; ++k)
                {
                    const auto r = m_r[static_cast<size_t>(k)];
                    const auto s = r > 0.0 ? 1.0 : (r < 0.0 ? -1.0 : 0.0); // 0 is a valid element of the sub-differential of |.| at 0
                    for (int i = 0; i < n; ++i)
                    {
                        gx(i) += s * m_c.A[static_cast<size_t>(k * n + i)];
                    }
                }
            }
        }
        if (m_c.family != 0)
        {
            fx += linf;
            if (grad && imax >= 0)
            {
                const auto s = m_r[static_cast<size_t>(imax)] > 0.0 ? 1.0 : -1.0;
                for (int i = 0; i < n; ++i)
                {
                    gx(i) += s * m_c.A[static_cast<size_t>(imax * n + i)];
                }
            }
        }
        return fx;
    }

private:
    scase_t                     m_c;
    mutable std::vector<double> m_r;
};

// f(x) - f* and |x - x*|_2 recomputed in extended precision, independently of the function object
struct gap_t
{
    long double gap{0.0L};
    long double dist{0.0L};
};

gap_t reference_gap(const scase_t& c, const vector_t& x)
{
    gap_t       g;
    long double sq = 0.0L;
    for (int i = 0; i < c.n; ++i)
    {
        const long double d = static_cast<long double>(x(i)) - static_cast<long double>(c.xstar[static_cast<size_t>(i)]);
        sq += d * d;
    }
    long double l1 = 0.0L, linf = 0.0L;
    for (int k = 0; k < c.m; ++k)
    {
        long double r = 0.0L;
        for (int i = 0; i < c.n; ++i)
        {
            r += static_cast<long double>(c.A[static_cast<size_t>(k * c.n + i)]) *
                 (static_cast<long double>(x(i)) - static_cast<long double>(c.xstar[static_cast<size_t>(i)]));
        }
        l1 += std::fabs(r);
        linf = std::max(linf, std::fabs(r));
    }
    g.gap  = (c.family != 1 ? l1 : 0.0L) + (c.family != 0 ? linf : 0.0L) + 0.5L * static_cast<long double>(c.mu) * sq;
    g.dist = std::sqrt(sq);
    return g;
}

double required_sigma_min(const int family, const int m)
{
    return family == 1 ? std::sqrt(static_cast<double>(m)) : 1.0;
}

double sigma_min(const scase_t& c)
{
    Eigen::MatrixXd A(c.m, c.n);
    for (int k = 0; k < c.m; ++k)
    {
        for (int i = 0; i < c.n; ++i)
        {
            A(k, i) = c.A[static_cast<size_t>(k * c.n + i)];
        }
    }
    const Eigen::JacobiSVD<Eigen::MatrixXd> svd(A);
    return svd.singularValues().size() == c.n ? svd.singularValues().minCoeff() : 0.0;
}

// ---- generators -------------------------------------------------------------------------------
constexpr size_t slots = 8;

struct raw_t
{
    int                 n, m, family;
    std::vector<double> G;      // m x n Gaussian
    std::vector<double> spread; // n values in [0,1]: positions of the singular values between sigma_min and sigma_max
    double              scale;  // sigma_min / required
    double              kappa;  // sigma_max / sigma_min
    std::vector<double> xstar;
    double              fstar, mu;
    std::vector<double> dir;
    double              dist;
};

std::vector<double> make_matrix(const raw_t& r)
{
    Eigen::MatrixXd G(r.m, r.n);
    for (int k = 0; k < r.m; ++k)
    {
        for (int i = 0; i < r.n; ++i)
        {
            G(k, i) = r.G[static_cast<size_t>(k * r.n + i)];
        }
    }
    const Eigen::JacobiSVD<Eigen::MatrixXd> svd(G, Eigen::ComputeThinU | Eigen::ComputeThinV);
    const auto                              smin = r.scale * required_sigma_min(r.family, r.m);
    Eigen::VectorXd                         sigma(r.n);
    for (int i = 0; i < r.n; ++i)
    {
        sigma(i) = smin * std::pow(r.kappa, i == 0 ? 0.0 : r.spread[static_cast<size_t>(i)]);
    }
    const Eigen::MatrixXd A = svd.matrixU() * sigma.asDiagonal() * svd.matrixV().transpose();
    std::vector<double>   out(static_cast<size_t>(r.m * r.n));
    for (int k = 0; k < r.m; ++k)
    {
        for (int i = 0; i < r.n; ++i)
        {
            out[static_cast<size_t>(k * r.n + i)] = A(k, i);
        }
    }
    return out;
}

rc::Gen<raw_t> gen_raw(const bool small_n = false)
{
    return rc::gen::mapcat(
        rc::gen::tuple(small_n ? rc::gen::element(1, 1, 1, 2, 2, 3) : gen::range<int>(1, 8), gen::range<int>(0, 2), gen::real(0.0, 1.0)),
        [](const std::tuple<int, int, double>& t) -> rc::Gen<raw_t>
        {
            const auto n      = std::get<0>(t);
            const auto family = std::get<1>(t);
            const auto m      = n + static_cast<int>(std::floor(std::get<2>(t) * (n + 0.999))); // n..2n
            const auto N      = static_cast<size_t>(n);
            return rc::gen::map(
                rc::gen::tuple(rc::gen::container<std::vector<double>>(static_cast<size_t>(m) * N, gen::normal()),
                               rc::gen::container<std::vector<double>>(N, gen::real(0.0, 1.0)), gen::real(1.05, 3.0),
                               rc::gen::map(rc::gen::pair(gen::chance(25), gen::logu(1.0, 100.0)),
                                            [](const std::pair<bool, double>& p) { return p.first ? 1.0 : p.second; }),
                               gen::vec(N, 3.0), gen::sym(100.0),
                               rc::gen::map(rc::gen::pair(gen::chance(50), gen::real(0.0, 10.0)),
                                            [](const std::pair<bool, double>& p) { return p.first ? 0.0 : p.second; }),
                               gen::vec(N, 1.0),
                               rc::gen::map(rc::gen::pair(gen::chance(70), gen::real(0.0, 1.0)), [](const std::pair<bool, double>& p)
                                            { return p.first ? 1e-3 * std::pow(4e3, p.second) : 4.0 * p.second; })),
                [=](const std::tuple<std::vector<double>, std::vector<double>, double, double, std::vector<double>, double, double,
                                     std::vector<double>, double>& v)
                {
                    raw_t r;
                    r.n      = n;
                    r.m      = m;
                    r.family = family;
                    r.G      = std::get<0>(v);
                    r.spread = std::get<1>(v);
                    r.scale  = std::get<2>(v);
                    r.kappa  = std::get<3>(v);
                    r.xstar  = std::get<4>(v);
                    r.fstar  = std::get<5>(v);
                    r.mu     = std::get<6>(v);
                    r.dir    = std::get<7>(v);
                    r.dist   = std::min(std::get<8>(v), 3.999);
                    return r;
                });
        });
}

enum class family_t
{
    ellipsoid,
    bundle,
    bundle_small,
    bundle_asan,
    bundle_corner // the corner of the quantifier where the tolerance eps*sqrt(n) is smallest: n in 1..3, eps at (or just above) 1e-8, bundle::max_size biased to 2
};

rc::Gen<scase_t> gen_case(const family_t family)
{
    const auto g_solver = family == family_t::ellipsoid
                            ? rc::gen::just(std::string("ellipsoid"))
                            : rc::gen::map(gen::range<int>(0, 2),
                                           [](int k)
                                           {
                                               static const char* ids[] = {"rqb", "fpba1", "fpba2"};
                                               return std::string(ids[k]);
                                           });
    const auto g_large = rc::gen::map(rc::gen::pair(gen::range<int>(0, 9), gen::range<int>(5, 100)),
                                      [](const std::pair<int, int>& p)
                                      {
                                          static const int common[] = {5, 6, 8, 10, 20, 50, 100};
                                          return p.first < 7 ? common[p.first] : p.second;
                                      });
    const auto g_size  = family == family_t::bundle_small
                           ? gen::range<int>(2, 4)
                           : family == family_t::bundle_corner
                           ? rc::gen::mapcat(gen::range<int>(0, 9), [=](int k) { return k < 4 ? rc::gen::just(2) : (k < 6 ? gen::range<int>(3, 4) : g_large); })
                           : (family == family_t::bundle_asan
                                  ? rc::gen::mapcat(gen::chance(50), [=](bool small) { return small ? gen::range<int>(2, 4) : g_large; })
                                  : g_large);
    // max_evals in [100, 20000]; 20000 is the budget the convergence clause of the ellipsoid method speaks about
    const auto g_evals = rc::gen::map(rc::gen::pair(gen::range<int>(0, 99), gen::real(0.0, 1.0)),
                                      [=](const std::pair<int, double>& p)
                                      {
                                          // (the asan flavour is 10-30x slower: mostly small budgets there)
                                          if (p.first < (family == family_t::ellipsoid ? 50 : (family == family_t::bundle_asan ? 3 : 20)))
                                          {
                                              return 20000;
                                          }
                                          if (p.first < (family == family_t::ellipsoid ? 60 : (family == family_t::bundle_asan ? 10 : 50)))
                                          {
                                              return 100 + static_cast<int>(std::lround(19900.0 * p.second));
                                          }
                                          return static_cast<int>(std::lround(100.0 * std::pow(200.0, p.second)));
                                      });
    // ellipsoid radius: default (10 > 4 >= |x0-x*|) or a multiple of the distance to the minimum
    const auto g_radius = rc::gen::pair(gen::chance(30), gen::logu(1.05, 8.0));

    const auto g_eps = family == family_t::bundle_corner
                         ? rc::gen::mapcat(gen::chance(50), [](bool lowest) { return lowest ? rc::gen::just(1e-8) : gen::logu(1e-8, 3e-8); })
                         : gen::logu(1e-8, 1e-3);
    return rc::gen::map(rc::gen::tuple(gen_raw(family == family_t::bundle_corner), g_solver, g_size, g_evals, g_eps, g_radius, gen_draws(slots, 5)),
                        [](const std::tuple<raw_t, std::string, int, int, double, std::pair<bool, double>, draws_t>& t)
                        {
                            const auto& r = std::get<0>(t);
                            scase_t     c;
                            c.solver = std::get<1>(t);
                            c.n      = r.n;
                            c.m      = r.m;
                            c.family = r.family;
                            c.A      = make_matrix(r);
                            c.xstar  = r.xstar;
                            c.fstar  = r.fstar;
                            c.mu     = r.mu;
                            // x0 = x* + dist * dir / |dir|
                            double norm = 0.0;
                            for (const auto v : r.dir)
                            {
                                norm += v * v;
                            }
                            norm = std::sqrt(norm);
                            c.x0 = r.xstar;
                            for (size_t i = 0; i < c.x0.size(); ++i)
                            {
                                c.x0[i] += r.dist * (norm > 0.0 ? r.dir[i] / norm : (i == 0 ? 1.0 : 0.0));
                            }
                            c.bundle_size = std::get<2>(t);
                            c.max_evals   = std::get<3>(t);
                            c.epsilon     = std::clamp(std::get<4>(t), 1e-8, 1e-3);
                            c.radius      = std::get<5>(t).first ? 10.0 : std::get<5>(t).second * std::max(r.dist, 1e-3);
                            c.pmode       = std::get<6>(t).modes;
                            c.pu1         = std::get<6>(t).u1s;
                            c.pu2         = std::get<6>(t).u2s;
                            return c;
                        });
}

// ---- mechanism predicate of finding F13 (ellipsoid: convergence decided by rounding noise) ------------
// An independent, harness-side implementation of the documented algorithm (deep-cut ellipsoid method with the two
// exits of src/solver/ellipsoid.cpp, plain loops, double precision, its own trajectory) is run on the same instance
// from the same start, for a few relative perturbations of the initial radius of the order 1e-12. The mechanism is
// present when this reference ALSO reports convergence with a gap above the bound for at least one of them: the
// instance defeats the algorithm in double precision, whoever implements it. A defect of the library's own code
// (wrong update, wrong stopping rule) is not absorbed, except on the ~1e-6 of instances that are fragile anyway.
struct reference_run_t
{
    bool   converged{false};
    double ratio{0.0}; // (f(best) - f*) / (10 epsilon) of the reference run
    int    iterations{0};
};

reference_run_t reference_ellipsoid(const scase_t& c, const nano::function_t& function, const double R)
{
    reference_run_t out;
    const auto      n = c.n;
    const auto      N = static_cast<size_t>(n);
    const double    dn = static_cast<double>(n);
    vector_t        x = to_vector(c.x0), g(n), best_x = x;
    std::vector<double> H(N * N, 0.0), Hg(N);
    for (size_t i = 0; i < N; ++i)
    {
        H[i * N + i] = R * R;
    }
    int    evals = 2;
    double f     = function.vgrad(x, g);
    double best  = f;
    while (evals < c.max_evals)
    {
        double gHg = 0.0;
        for (size_t i = 0; i < N; ++i)
        {
            Hg[i] = 0.0;
            for (size_t j = 0; j < N; ++j)
            {
                Hg[i] += H[i * N + j] * g(static_cast<tensor_size_t>(j));
            }
            gHg += g(static_cast<tensor_size_t>(i)) * Hg[i];
        }
        if (gHg < std::numeric_limits<double>::epsilon())
        {
            out.converged = true;
            break;
        }
        const auto root  = std::sqrt(gHg);
        const auto alpha = (f - best) / root;
        const auto step  = (1.0 + dn * alpha) / (dn + 1.0) / root;
        const auto scale = (dn * dn) / (dn * dn - 1.0) * (1.0 - alpha * alpha);
        const auto beta  = 2.0 * (1.0 + dn * alpha) / (dn + 1.0) / (1.0 + alpha) / gHg;
        for (size_t i = 0; i < N; ++i)
        {
            x(static_cast<tensor_size_t>(i)) -= step * Hg[i];
        }
        for (size_t i = 0; i < N; ++i)
        {
            for (size_t j = 0; j < N; ++j)
            {
                H[i * N + j] = scale * (H[i * N + j] - beta * Hg[i] * Hg[j]);
            }
        }
        f = function.vgrad(x, g);
        evals += 2;
        out.iterations++;
        if (!std::isfinite(f))
        {
            break;
        }
        if (f < best)
        {
            best   = f;
            best_x = x;
        }
        if (root < c.epsilon)
        {
            out.converged = true;
            break;
        }
    }
    out.ratio = static_cast<double>(reference_gap(c, best_x).gap / (10.0L * static_cast<long double>(c.epsilon)));
    return out;
}

struct fragility_t
{
    bool   present{false};
    int    failing{0}, runs{0};
    double worst_ratio{0.0};
};

fragility_t double_precision_fragility(const scase_t& c)
{
    fragility_t out;
    if (c.n < 2)
    {
        return out;
    }
    const sharp_t function(c);
    for (int j = 0; j < 8; ++j)
    {
        const auto run = reference_ellipsoid(c, function, c.radius * (1.0 + static_cast<double>(j) * 0x1p-40));
        out.runs++;
        if (run.converged && run.ratio > 1.0)
        {
            out.failing++;
            out.worst_ratio = std::max(out.worst_ratio, run.ratio);
        }
    }
    out.present = out.failing > 0;
    return out;
}

// ---- the oracle -----------------------------------------------------------------------------------
verdict_t check_case(const scase_t& c, ctx_t& ctx)
{
    // ---- domain of the property --------------------------------------------------------------
    const auto N = static_cast<size_t>(c.n);
    if (c.n < 1 || c.n > 8 || c.m < c.n || c.m > 2 * c.n || c.family < 0 || c.family > 2 || c.A.size() != static_cast<size_t>(c.m) * N ||
        c.xstar.size() != N || c.x0.size() != N)
    {
        return verdict_t::discard("malformed-case");
    }
    const auto finite = [](const std::vector<double>& v) { return std::all_of(v.begin(), v.end(), [](double x) { return std::isfinite(x); }); };
    if (!finite(c.A) || !finite(c.xstar) || !finite(c.x0) || !std::isfinite(c.fstar) || !(c.mu >= 0.0 && c.mu <= 10.0) ||
        std::fabs(c.fstar) > 1e3)
    {
        return verdict_t::discard("malformed-case");
    }
    if (!(c.epsilon >= 1e-8 && c.epsilon <= 1e-3) || c.max_evals < 100 || c.max_evals > 20000)
    {
        return verdict_t::discard("epsilon-or-max_evals-out-of-domain");
    }
    const auto ellipsoid = c.solver == "ellipsoid";
    if (!ellipsoid && c.solver != "rqb" && c.solver != "fpba1" && c.solver != "fpba2")
    {
        return verdict_t::discard("solver-out-of-domain");
    }
    if (!ellipsoid && (c.bundle_size < 2 || c.bundle_size > 100))
    {
        return verdict_t::discard("bundle-size-out-of-domain");
    }
    double dist0 = 0.0;
    for (size_t i = 0; i < N; ++i)
    {
        if (std::fabs(c.xstar[i]) > 3.0)
        {
            return verdict_t::discard("xstar-out-of-domain");
        }
        dist0 += (c.x0[i] - c.xstar[i]) * (c.x0[i] - c.xstar[i]);
    }
    dist0 = std::sqrt(dist0);
    if (dist0 > 4.0)
    {
        return verdict_t::discard("x0-too-far");
    }
    // the sharpness precondition f(x)-f* >= |x-x*|_2, from the singular values of A (1 % margin against rounding)
    const auto smin = sigma_min(c);
    if (!(smin >= 1.01 * required_sigma_min(c.family, c.m)))
    {
        return verdict_t::discard("minimum-not-sharp");
    }
    if (ellipsoid && !(c.radius >= 1.04 * dist0 && c.radius > 0.0 && c.radius < 1e6))
    {
        return verdict_t::discard("minimum-outside-initial-radius");
    }

    const sharp_t inner(c);
    counted_t     function(inner);
    const auto    x0 = to_vector(c.x0);

    // sanity of the harness-side function against the independent reference (a harness bug, never a verdict)
    {
        vector_t   g;
        const auto f   = function.eval(x0, g);
        const auto ref = reference_gap(c, x0);
        if (std::fabs(static_cast<double>(static_cast<long double>(f) - static_cast<long double>(c.fstar) - ref.gap)) >
                1e-9 * (1.0 + std::fabs(f) + std::fabs(c.fstar)) ||
            ref.gap < ref.dist * (1.0L - 1e-9L))
        {
            throw std::logic_error("harness function and reference disagree or the minimum is not sharp");
        }
    }

    // ---- configuration ------------------------------------------------------------------------------
    auto solver = nano::solver_t::all().get(c.solver);
    if (!solver)
    {
        return verdict_t::discard("unknown-solver");
    }
    applied_t applied;
    try
    {
        solver->parameter("solver::epsilon")   = c.epsilon;
        solver->parameter("solver::max_evals") = c.max_evals;
        std::vector<std::string> fixed{"solver::epsilon", "solver::max_evals", "solver::tolerance"};
        if (ellipsoid)
        {
            solver->parameter("solver::ellipsoid::R") = c.radius;
            fixed.emplace_back("solver::ellipsoid::R");
        }
        else
        {
            const auto name         = "solver::" + c.solver + "::bundle::max_size";
            solver->parameter(name) = c.bundle_size;
            fixed.push_back(name);
        }
        applied = apply_parameters(*solver, c.pmode, c.pu1, c.pu2, fixed);
    }
    catch (const std::exception& e)
    {
        throw std::runtime_error(std::string("parameter mapping rejected: ") + e.what() + " [" + applied.description + "]");
    }

    function.limit(8 * (static_cast<int64_t>(c.max_evals) + 1100 + 8 * c.n));
    nano::solver_state_t state;
    try
    {
        // triage aid: VERIF_SOLVER_LOG=1 prints the solver's own log of a replayed case (no influence on the verdict)
        // half of the cases run a COPY of the configured solver (as ml::params_t::solver() and per-thread copies do); derived from
        // the generated start point, so that old replay files keep their meaning
        const bool via_clone = (static_cast<long long>(std::floor(std::fabs(x0(0)) * 1e6)) % 2) == 1;
        ctx.label_if(via_clone, "solver-used-through-clone");
        const auto cloned = via_clone ? solver->clone() : nano::rsolver_t{};
        state = (via_clone ? *cloned : *solver).minimize(function, x0, std::getenv("VERIF_SOLVER_LOG") != nullptr ? nano::make_stderr_logger() : nano::make_null_logger());
    }
    catch (const runaway_t&)
    {
        return verdict_t::violation("C03/runaway/" + c.solver, cat("max_evals=", c.max_evals, " ", applied.description));
    }
    catch (const std::exception& e)
    {
        return verdict_t::violation("C03/exception/" + c.solver, cat(e.what(), " ", applied.description));
    }

    const auto converged = state.status() == nano::solver_status::converged;
    const auto eps_label = c.epsilon < 1e-7 ? "eps<1e-7" : (c.epsilon < 1e-5 ? "eps<1e-5" : "eps>=1e-5");

    ctx.label("solver:" + c.solver);
    ctx.label(std::string("status:") + status_name(state.status()));
    ctx.label(c.family == 0 ? "family:l1" : (c.family == 1 ? "family:linf" : "family:l1+linf"));
    ctx.label_if(c.mu > 0.0, "mu>0");
    ctx.label(cat("n=", c.n));
    ctx.label(eps_label);
    ctx.label(applied.any_nondefault ? "parameters:non-default" : "parameters:default");
    ctx.label_if(c.max_evals == 20000, "max_evals=20000");
    if (!ellipsoid)
    {
        ctx.label(c.bundle_size <= 4 ? "bundle<=4" : (c.bundle_size <= 10 ? "bundle 5..10" : "bundle>10"));
    }
    else
    {
        ctx.label(c.radius == 10.0 ? "R:default" : (c.radius < 2.0 * dist0 ? "R<2*dist" : "R>=2*dist"));
    }
    ctx.nontrivial = converged && dist0 > c.epsilon;

    const auto info = [&]()
    {
        return cat("status=", status_name(state.status()), " n=", c.n, " m=", c.m, " family=", c.family, " mu=", c.mu, " eps=", c.epsilon,
                   " max_evals=", c.max_evals, " evals=", function.evals(), " sigma_min=", smin, " |x0-x*|=", dist0,
                   ellipsoid ? cat(" R=", c.radius) : cat(" bundle=", c.bundle_size), " ", applied.description);
    };

    if (state.x().size() != c.n)
    {
        return verdict_t::violation("C03/dimension/" + c.solver, info());
    }

    if (converged)
    {
        if (!all_finite(state.x()))
        {
            return verdict_t::violation("C03/converged-not-optimal/" + c.solver, "returned point is not finite; " + info());
        }
        const auto ref   = reference_gap(c, state.x());
        const auto bound = ellipsoid ? 10.0L * static_cast<long double>(c.epsilon)
                                     : 2.0L * static_cast<long double>(c.epsilon) * std::sqrt(static_cast<long double>(c.n)) * (1.0L + ref.dist);
        const auto ratio = static_cast<double>(ref.gap / bound);
        ctx.maximum("gap/bound:" + c.solver, ratio);
        // mechanism of finding F12: the proximity parameter has no lower bound after initialisation, a curve-search trial
        // point lands astronomically far away (|f| ~ 1e13) and the linearisation errors computed from it are rounding
        // noise of the size of the tolerance: 4*eps_machine*max|f shown to the solver| explains the excess gap
        const auto noise = 4.0 * std::numeric_limits<double>::epsilon() * function.max_abs_value();
        ctx.maximum("cancellation-noise/bound", noise / static_cast<double>(bound));
        if (ratio > 1.0 && !ellipsoid && static_cast<double>(ref.gap) <= 4.0 * noise)
        {
            // ... and only when the proximity parameter is involved: prox::miu0_range is not at its default, or a second,
            // logged run of the same (deterministic) solve shows miu below 1e-8
            auto min_miu = std::numeric_limits<double>::infinity();
            {
                linebuf_t buffer(
                    [&](const std::string& line)
                    {
                        const auto pos = line.find(",miu=");
                        if (pos != std::string::npos && line.find("[csearch]:") != std::string::npos)
                        {
                            min_miu = std::min(min_miu, std::strtod(line.c_str() + pos + 5, nullptr));
                        }
                    });
                std::ostream  stream(&buffer);
                const sharp_t inner2(c);
                counted_t     function2(inner2);
                function2.limit(8 * (static_cast<int64_t>(c.max_evals) + 1100 + 8 * c.n));
                try
                {
                    solver->minimize(function2, x0, nano::make_stream_logger(stream));
                }
                catch (...)
                {
                }
            }
            const auto range_nondefault = applied.description.find("prox::miu0_range") != std::string::npos;
            if (!range_nondefault && !(min_miu < 1e-8))
            {
                return verdict_t::violation("C03/converged-not-optimal/" + c.solver,
                                            cat("f(x)-f*=", static_cast<double>(ref.gap), " bound=", static_cast<double>(bound),
                                                " |x-x*|=", static_cast<double>(ref.dist), " max|f| shown to the solver=",
                                                function.max_abs_value(), " min miu=", min_miu, "; ", info()));
            }
            return verdict_t::known("C03/converged-not-optimal/far-trial-point-cancellation",
                                    cat("f(x)-f*=", static_cast<double>(ref.gap), " bound=", static_cast<double>(bound),
                                        " max|f| shown to the solver=", function.max_abs_value(), " smallest miu=", min_miu, "; ", info()));
        }
        if (ratio > 1.0 && ellipsoid)
        {
            // mechanism of finding F13: the recurrence of the shape matrix loses its accuracy in double precision and
            // g'Hg becomes cancellation noise (possibly negative, which the `gHg < machine epsilon` exit takes for
            // convergence): an independent double-precision implementation of the algorithm fails on this instance too
            const auto fragile = double_precision_fragility(c);
            if (fragile.present)
            {
                return verdict_t::known("C03/converged-not-optimal/ellipsoid/shape-matrix-cancellation",
                                        cat("f(x)-f*=", static_cast<double>(ref.gap), " bound=", static_cast<double>(bound),
                                            "; the harness-side double-precision ellipsoid method also reports convergence above the bound in ",
                                            fragile.failing, " of ", fragile.runs, " runs (worst gap/bound ", fragile.worst_ratio, "); ", info()));
            }
        }
        // the bound is the property's own (it already carries a 2x / 10x allowance): no further band beyond the
        // rounding of the reference gap itself
        if (ratio > 1.0 + 1e-9)
        {
            return verdict_t::violation("C03/converged-not-optimal/" + c.solver,
                                        cat("f(x)-f*=", static_cast<double>(ref.gap), " bound=", static_cast<double>(bound),
                                            " |x-x*|=", static_cast<double>(ref.dist), "; ", info()));
        }
    }
    else if (ellipsoid && c.n <= 6 && c.max_evals == 20000)
    {
        return verdict_t::violation("C03/ellipsoid-not-converged", info());
    }
    return verdict_t::ok();
}
} // namespace

int main(int argc, char** argv)
{
    suite_t suite("C03");
    suite.add<scase_t>("ellipsoid", [] { return gen_case(family_t::ellipsoid); }, check_case, 1.0);
    suite.add<scase_t>("bundle", [] { return gen_case(family_t::bundle); }, check_case, 1.0);
    suite.add<scase_t>("bundle-small", [] { return gen_case(family_t::bundle_small); }, check_case, 0.3);
    suite.add<scase_t>("bundle-asan", [] { return gen_case(family_t::bundle_asan); }, check_case, 0.1);
    suite.add<scase_t>("bundle-corner", [] { return gen_case(family_t::bundle_corner); }, check_case, 0.3);
    return suite.main(argc, argv);
}
