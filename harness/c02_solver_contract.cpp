// C02 — every solver returns an honest, self-consistent result within bounded budget
// (DESIGN.md section 5, C02; properties.jsonl "id":"C02").
//
// sub-checks
//   unconstrained   the 32 registered solvers that are not bundle solvers                         (plain flavour)
//   constrained     linear-penalty, quadratic-penalty, augmented-lagrangian                        (plain flavour)
//   bundle          rqb, fpba1, fpba2 with bundle::max_size in 5..100                              (plain flavour)
//   bundle-small    rqb, fpba1, fpba2 with bundle::max_size in 2..4 (where finding F10 overflowed) (plain flavour)
//   bundle-asan     rqb, fpba1, fpba2, bundle::max_size in 2..100, small instances: the regression
//                   guard for the heap overflow of finding F10 (fixed in 674a0d8)                  (asan flavour)
//   memory          sampled memory pass of the non-bundle solvers, small budgets                   (asan flavour)
// The same oracle runs in all of them; they differ in the generator only.
#include "c02_support.h"

#include <nano/function/constraint.h>
#include <nano/solver/augmented.h>
#include <nano/solver/penalty.h>

using namespace verif;
using namespace verif::ss;

namespace
{
// ---------------------------------------------------------------------------------------
// generated objective:
//   f(x) = 1/2 |M (x-c)|^2 + 1/2 sum_i d_i (x_i-c_i)^2          (convex, smooth; any M, any d >= 0)
//        + max_k (a_k . x + b_k)  over the K given rows and the closing row (-sum_k a_k, 0)
//                                                               (convex, bounded below by mean(b,0))
//        + sum_j alpha_j sin(w_j . x + phi_j)                    (smooth, bounded, non-convex)
//        + f0
// flagged convex iff there are no sines, smooth iff there is no max term.
// ---------------------------------------------------------------------------------------
struct fspec_t
{
    int                 benchmark{0}; // 1: registered benchmark function `fid` made with (dims, summands)
    std::string         fid;
    int                 dims{1};
    int                 summands{10};
    int                 n{1};
    int                 mrows{0};
    std::vector<double> M;     // mrows x n
    std::vector<double> d, c;  // n
    int                 K{0};
    std::vector<double> A, b;  // K x n, K
    int                 J{0};
    std::vector<double> W, alpha, phi; // J x n, J, J
    double              f0{0.0};
    bool                claim_sc{false}; // declare min(d) as the strong-convexity coefficient (true lower bound)

    template <class Ar>
    void io(Ar& a)
    {
        a("benchmark", benchmark);
        a("fid", fid);
        a("dims", dims);
        a("summands", summands);
        a("n", n);
        a("mrows", mrows);
        a("M", M);
        a("d", d);
        a("c", c);
        a("K", K);
        a("A", A);
        a("b", b);
        a("J", J);
        a("W", W);
        a("alpha", alpha);
        a("phi", phi);
        a("f0", f0);
        a("claim_sc", claim_sc);
    }

    bool well_formed() const
    {
        if (benchmark != 0)
        {
            return dims >= 1 && dims <= 64 && summands >= 1 && summands <= 1000;
        }
        const auto N = static_cast<size_t>(n);
        if (n < 1 || n > 64 || mrows < 0 || K < 0 || J < 0 || M.size() != static_cast<size_t>(mrows) * N || d.size() != N ||
            c.size() != N || A.size() != static_cast<size_t>(K) * N || b.size() != static_cast<size_t>(K) ||
            W.size() != static_cast<size_t>(J) * N || alpha.size() != static_cast<size_t>(J) || phi.size() != static_cast<size_t>(J))
        {
            return false;
        }
        const auto finite = [](const std::vector<double>& v)
        { return std::all_of(v.begin(), v.end(), [](double x) { return std::isfinite(x); }); };
        if (!finite(M) || !finite(d) || !finite(c) || !finite(A) || !finite(b) || !finite(W) || !finite(alpha) || !finite(phi) ||
            !std::isfinite(f0))
        {
            return false;
        }
        return std::all_of(d.begin(), d.end(), [](double x) { return x >= 0.0; });
    }
};

class genfun_t final : public nano::function_t
{
public:
    explicit genfun_t(const fspec_t& s)
        : nano::function_t("generated", s.n)
        , m_s(s)
        , m_r(static_cast<size_t>(s.n))
    {
        convex(s.J == 0 ? nano::convexity::yes : nano::convexity::no);
        smooth(s.K == 0 ? nano::smoothness::yes : nano::smoothness::no);
        if (s.claim_sc && s.J == 0 && !s.d.empty())
        {
            strong_convexity(*std::min_element(s.d.begin(), s.d.end()));
        }
        // closing row of the max term
        m_close.assign(static_cast<size_t>(s.n), 0.0);
        for (int k = 0; k < s.K; ++k)
        {
            for (int i = 0; i < s.n; ++i)
            {
                m_close[static_cast<size_t>(i)] -= s.A[static_cast<size_t>(k * s.n + i)];
            }
        }
    }

    nano::rfunction_t clone() const override { return std::make_unique<genfun_t>(*this); }

    scalar_t do_vgrad(vector_cmap_t x, vector_map_t gx) const override
    {
        const auto n    = m_s.n;
        const auto grad = gx.size() == x.size();
        auto&      r    = m_r; // x - c
        double     fx   = m_s.f0;
        if (grad)
        {
            for (int i = 0; i < n; ++i)
            {
                gx(i) = 0.0;
            }
        }
        for (int i = 0; i < n; ++i)
        {
            r[static_cast<size_t>(i)] = x(i) - m_s.c[static_cast<size_t>(i)];
            fx += 0.5 * m_s.d[static_cast<size_t>(i)] * r[static_cast<size_t>(i)] * r[static_cast<size_t>(i)];
            if (grad)
            {
                gx(i) += m_s.d[static_cast<size_t>(i)] * r[static_cast<size_t>(i)];
            }
        }
        for (int q = 0; q < m_s.mrows; ++q)
        {
            double t = 0.0;
            for (int i = 0; i < n; ++i)
            {
                t += m_s.M[static_cast<size_t>(q * n + i)] * r[static_cast<size_t>(i)];
            }
            fx += 0.5 * t * t;
            if (grad)
            {
                for (int i = 0; i < n; ++i)
                {
                    gx(i) += t * m_s.M[static_cast<size_t>(q * n + i)];
                }
            }
        }
        if (m_s.K > 0)
        {
            int    best = -1; // -1: the closing row
            double vmax = 0.0;
            for (int i = 0; i < n; ++i)
            {
                vmax += m_close[static_cast<size_t>(i)] * x(i);
            }
            for (int k = 0; k < m_s.K; ++k)
            {
                double v = m_s.b[static_cast<size_t>(k)];
                for (int i = 0; i < n; ++i)
                {
                    v += m_s.A[static_cast<size_t>(k * n + i)] * x(i);
                }
                if (v > vmax)
                {
                    vmax = v;
                    best = k;
                }
            }
            fx += vmax;
            if (grad)
            {
                for (int i = 0; i < n; ++i)
                {
                    gx(i) += best < 0 ? m_close[static_cast<size_t>(i)] : m_s.A[static_cast<size_t>(best * n + i)];
                }
            }
        }
        for (int j = 0; j < m_s.J; ++j)
        {
            double t = m_s.phi[static_cast<size_t>(j)];
            for (int i = 0; i < n; ++i)
            {
                t += m_s.W[static_cast<size_t>(j * n + i)] * x(i);
            }
            fx += m_s.alpha[static_cast<size_t>(j)] * std::sin(t);
            if (grad)
            {
                const auto ct = m_s.alpha[static_cast<size_t>(j)] * std::cos(t);
                for (int i = 0; i < n; ++i)
                {
                    gx(i) += ct * m_s.W[static_cast<size_t>(j * n + i)];
                }
            }
        }
        return fx;
    }

private:
    fspec_t                     m_s;
    std::vector<double>         m_close;
    mutable std::vector<double> m_r;
};

nano::rfunction_t make_function(const fspec_t& s)
{
    if (s.benchmark != 0)
    {
        const auto proto = nano::function_t::all().get(s.fid);
        if (!proto)
        {
            return nullptr;
        }
        return proto->make(s.dims, s.summands);
    }
    return std::make_unique<genfun_t>(s);
}

std::string function_class(const fspec_t& s)
{
    if (s.benchmark != 0)
    {
        return "benchmark";
    }
    const bool quad = s.mrows > 0 || std::any_of(s.d.begin(), s.d.end(), [](double v) { return v > 0.0; });
    if (s.J > 0)
    {
        return s.K > 0 ? "gen-nonconvex-nonsmooth" : "gen-nonconvex-smooth";
    }
    if (s.K > 0)
    {
        return quad ? "gen-quadratic+piecewise-linear" : "gen-piecewise-linear";
    }
    return "gen-quadratic";
}

// ---------------------------------------------------------------------------------------
// cases
// ---------------------------------------------------------------------------------------
struct ucase_t
{
    std::string         solver;
    fspec_t             f;
    std::vector<double> x0;
    double              epsilon{1e-8};
    int                 max_evals{1000};
    int                 bundle_size{0}; // > 0: value of <solver>::bundle::max_size (bundle solvers only)
    int                 tol_mode{0};    // solver::tolerance: 0 default, 1..3 the pairs used by the callers, 4 from (tol_u1, tol_u2)
    double              tol_u1{0.0}, tol_u2{0.0};
    std::vector<int>    pmode;
    std::vector<double> pu1, pu2;
    int                 rng{1};

    template <class Ar>
    void io(Ar& a)
    {
        a("solver", solver);
        f.io(a);
        a("x0", x0);
        a("epsilon", epsilon);
        a("max_evals", max_evals);
        a("bundle_size", bundle_size);
        a("tol_mode", tol_mode);
        a("tol_u1", tol_u1);
        a("tol_u2", tol_u2);
        a("pmode", pmode);
        a("pu1", pu1);
        a("pu2", pu2);
        a("rng", rng);
    }
};

struct ccase_t
{
    ucase_t                          u;
    std::vector<std::vector<double>> cons; // [kind, ...]: see add_constraints

    template <class Ar>
    void io(Ar& a)
    {
        u.io(a);
        a("cons", cons);
    }
};

constexpr size_t slots = 12;

const std::vector<std::string>& bundle_ids()
{
    static const std::vector<std::string> ids{"rqb", "fpba1", "fpba2"};
    return ids;
}

bool is_bundle(const std::string& id)
{
    return std::find(bundle_ids().begin(), bundle_ids().end(), id) != bundle_ids().end();
}

std::vector<std::string> other_ids()
{
    std::vector<std::string> ids;
    for (const auto& id : nano::solver_t::all().ids())
    {
        if (!is_bundle(id))
        {
            ids.push_back(id);
        }
    }
    return ids;
}

const std::vector<std::string>& constrained_ids()
{
    static const std::vector<std::string> ids{"linear-penalty", "quadratic-penalty", "augmented-lagrangian"};
    return ids;
}

nano::rsolver_t make_solver(const std::string& id)
{
    if (id == "linear-penalty")
    {
        return std::make_unique<nano::solver_linear_penalty_t>();
    }
    if (id == "quadratic-penalty")
    {
        return std::make_unique<nano::solver_quadratic_penalty_t>();
    }
    if (id == "augmented-lagrangian")
    {
        return std::make_unique<nano::solver_augmented_lagrangian_t>();
    }
    return nano::solver_t::all().get(id);
}

// ---- generators -------------------------------------------------------------------------
rc::Gen<int> gen_dims(const int max_dims)
{
    return rc::gen::map(rc::gen::pair(gen::range<int>(0, 9), gen::range<int>(1, max_dims)),
                        [=](const std::pair<int, int>& p)
                        {
                            static const int common[] = {1, 2, 3, 4, 4, 8, 16, 32};
                            return p.first < 8 ? std::min(common[p.first], max_dims) : p.second;
                        });
}

rc::Gen<fspec_t> gen_generated(const int max_dims, const bool smooth_convex_only)
{
    return rc::gen::mapcat(
        rc::gen::tuple(gen_dims(max_dims), gen::range<int>(0, smooth_convex_only ? 0 : 5), gen::logu(1e-2, 30.0),
                       gen::logu(1e-3, 1e3)),
        [](const std::tuple<int, int, double, double>& t) -> rc::Gen<fspec_t>
        {
            const auto n      = std::get<0>(t);
            const auto kind   = std::get<1>(t); // 0 quadratic, 1 piecewise linear, 2 both, 3 non-convex smooth, 4 everything, 5 quadratic
            const auto mscale = std::get<2>(t);
            const auto dscale = std::get<3>(t);
            const bool quad   = kind != 1;
            const bool pl     = kind == 1 || kind == 2 || kind == 4;
            const bool sines  = kind == 3 || kind == 4;
            const auto N      = static_cast<size_t>(n);

            const auto g_mrows = quad ? gen::range<int>(0, n) : rc::gen::just(0);
            const auto g_K     = pl ? gen::range<int>(1, 12) : rc::gen::just(0);
            const auto g_J     = sines ? gen::range<int>(1, 4) : rc::gen::just(0);
            return rc::gen::mapcat(
                rc::gen::tuple(g_mrows, g_K, g_J),
                [=](const std::tuple<int, int, int>& s) -> rc::Gen<fspec_t>
                {
                    const auto mrows = std::get<0>(s);
                    const auto K     = std::get<1>(s);
                    const auto J     = std::get<2>(s);
                    return rc::gen::map(
                        rc::gen::tuple(gen::vec(static_cast<size_t>(mrows) * N, mscale),
                                       rc::gen::container<std::vector<double>>(N, gen::real(0.0, 1.0)), gen::vec(N, 5.0),
                                       gen::vec(static_cast<size_t>(K) * N, 3.0), gen::vec(static_cast<size_t>(K), 2.0),
                                       gen::vec(static_cast<size_t>(J) * N, 3.0), gen::vec(static_cast<size_t>(J), 2.0),
                                       rc::gen::container<std::vector<double>>(static_cast<size_t>(J), gen::real(0.0, 6.283185307179586)),
                                       gen::sym(100.0), gen::chance(25), gen::chance(20)),
                        [=](const std::tuple<std::vector<double>, std::vector<double>, std::vector<double>, std::vector<double>,
                                             std::vector<double>, std::vector<double>, std::vector<double>, std::vector<double>,
                                             double, bool, bool>& v)
                        {
                            fspec_t f;
                            f.n     = n;
                            f.mrows = mrows;
                            f.M     = std::get<0>(v);
                            f.d     = std::get<1>(v);
                            for (auto& x : f.d)
                            {
                                // quadratics need some curvature somewhere; half of the diagonals are sparse
                                x = quad ? (std::get<10>(v) && x < 0.5 && mrows > 0 ? 0.0 : x * dscale) : 0.0;
                            }
                            f.c        = std::get<2>(v);
                            f.K        = K;
                            f.A        = std::get<3>(v);
                            f.b        = std::get<4>(v);
                            f.J        = J;
                            f.W        = std::get<5>(v);
                            f.alpha    = std::get<6>(v);
                            f.phi      = std::get<7>(v);
                            f.f0       = std::get<8>(v);
                            f.claim_sc = std::get<9>(v);
                            return f;
                        });
                });
        });
}

rc::Gen<fspec_t> gen_benchmark(const int max_dims, const bool smooth_convex_only)
{
    static const auto all_ids = nano::function_t::all().ids();
    static const auto smooth_convex_ids = []
    {
        std::vector<std::string> ids;
        for (const auto& id : nano::function_t::all().ids())
        {
            const auto f = nano::function_t::all().get(id);
            if (f->smooth() && f->convex())
            {
                ids.push_back(id);
            }
        }
        return ids;
    }();
    const auto& ids = smooth_convex_only ? smooth_convex_ids : all_ids;
    return rc::gen::map(rc::gen::tuple(gen::range<int>(0, static_cast<int>(ids.size()) - 1), gen_dims(max_dims), gen::range<int>(0, 2)),
                        [ids](const std::tuple<int, int, int>& t)
                        {
                            static const int summands[] = {10, 3, 60};
                            fspec_t          f;
                            f.benchmark = 1;
                            f.fid       = ids[static_cast<size_t>(std::get<0>(t))];
                            f.dims      = std::get<1>(t);
                            f.summands  = summands[std::get<2>(t)];
                            return f;
                        });
}

rc::Gen<fspec_t> gen_fspec(const int max_dims, const int benchmark_percent, const bool smooth_convex_only = false)
{
    return rc::gen::mapcat(gen::chance(benchmark_percent),
                           [=](bool benchmark) {
                               return benchmark ? gen_benchmark(max_dims, smooth_convex_only)
                                                : gen_generated(max_dims, smooth_convex_only);
                           });
}

rc::Gen<int> gen_max_evals(const int hi)
{
    return rc::gen::map(rc::gen::pair(gen::range<int>(0, 99), gen::real(0.0, 1.0)),
                        [=](const std::pair<int, double>& p)
                        {
                            if (p.first < 5)
                            {
                                return 10;
                            }
                            if (p.first < 15)
                            {
                                return 11 + static_cast<int>(std::lround(49.0 * p.second));
                            }
                            if (p.first < 40)
                            {
                                return 60 + static_cast<int>(std::lround((static_cast<double>(hi) - 60.0) * p.second));
                            }
                            return static_cast<int>(std::lround(10.0 * std::pow(static_cast<double>(hi) / 10.0, p.second)));
                        });
}

// everything of a case but the function, the solver and x0
struct config_t
{
    double  epsilon;
    int     max_evals;
    int     tol_mode;
    double  tol_u1, tol_u2;
    draws_t draws;
    int     rng;
};

rc::Gen<config_t> gen_config(const int max_evals_hi, const int extreme_percent)
{
    const auto tol_mode = rc::gen::map(gen::range<int>(0, 99), [](int v) { return v < 60 ? 0 : (v < 90 ? 1 + (v % 3) : 4); });
    return rc::gen::map(rc::gen::tuple(gen::logu(1e-12, 1e-2), gen_max_evals(max_evals_hi), tol_mode, gen::real(0.0, 1.0),
                                       gen::real(0.0, 1.0), gen_draws(slots, extreme_percent), gen::range<int>(1, 1 << 30)),
                        [](const std::tuple<double, int, int, double, double, draws_t, int>& t) {
                            return config_t{std::get<0>(t), std::get<1>(t), std::get<2>(t), std::get<3>(t),
                                            std::get<4>(t), std::get<5>(t), std::get<6>(t)};
                        });
}

int function_size(const fspec_t& f)
{
    // the benchmark functions adjust the requested number of dimensions (powell, rosenbrock, elastic net)
    if (f.benchmark != 0)
    {
        const auto function = make_function(f);
        return function ? static_cast<int>(function->size()) : 1;
    }
    return f.n;
}

ucase_t assemble(const std::string& solver, const fspec_t& f, const config_t& cfg, const std::vector<double>& x0,
                 const int bundle_size)
{
    ucase_t c;
    c.solver      = solver;
    c.f           = f;
    c.x0          = x0;
    c.epsilon     = cfg.epsilon;
    c.max_evals   = cfg.max_evals;
    c.bundle_size = bundle_size;
    c.tol_mode    = cfg.tol_mode;
    c.tol_u1      = cfg.tol_u1;
    c.tol_u2      = cfg.tol_u2;
    c.pmode       = cfg.draws.modes;
    c.pu1         = cfg.draws.u1s;
    c.pu2         = cfg.draws.u2s;
    c.rng         = cfg.rng;
    return c;
}

rc::Gen<std::vector<double>> gen_start(const int n)
{
    // x0 = radius * direction: radius log-uniform in [1e-3, 10], direction in [-1,1]^n with one coordinate at +-1
    return rc::gen::map(rc::gen::tuple(gen::logu(1e-3, 10.0), gen::vec(static_cast<size_t>(n), 1.0), gen::range<int>(0, n - 1), gen::chance(50)),
                        [](const std::tuple<double, std::vector<double>, int, bool>& t)
                        {
                            auto x0 = std::get<1>(t);
                            x0[static_cast<size_t>(std::get<2>(t))] = std::get<3>(t) ? 1.0 : -1.0;
                            for (auto& v : x0)
                            {
                                v *= std::get<0>(t);
                            }
                            return x0;
                        });
}

enum class family_t
{
    others,
    bundle,
    bundle_small,
    bundle_asan,
    memory
};

rc::Gen<ucase_t> gen_ucase(const family_t family)
{
    const auto is_bundle_family = family == family_t::bundle || family == family_t::bundle_small || family == family_t::bundle_asan;
    const auto ids              = is_bundle_family ? bundle_ids() : other_ids();
    // the asan flavour is 10-30x slower than the plain one (Eigen at -O1 with bounds checks): smaller instances there
    const auto max_dims = family == family_t::others ? 32 : (family == family_t::memory ? 16 : (family == family_t::bundle_asan ? 6 : 12));
    const auto evals_hi = family == family_t::others ? 5000 : (family == family_t::memory ? 600 : (family == family_t::bundle_asan ? 400 : 2500));
    const auto g_large  = rc::gen::map(rc::gen::pair(gen::range<int>(0, 9), gen::range<int>(5, 100)),
                                       [](const std::pair<int, int>& p)
                                       {
                                           static const int common[] = {5, 6, 8, 10, 20, 100, 100};
                                           return p.first < 7 ? common[p.first] : p.second;
                                       });
    const auto g_bundle = family == family_t::bundle_small
                            ? gen::range<int>(2, 4)
                            : (family == family_t::bundle
                                   ? g_large
                                   : (family == family_t::bundle_asan
                                          ? rc::gen::mapcat(gen::chance(50), [=](bool small) { return small ? gen::range<int>(2, 4) : g_large; })
                                          : rc::gen::just(0)));
    return rc::gen::mapcat(
        gen_fspec(max_dims, 55),
        [=](const fspec_t& f) -> rc::Gen<ucase_t>
        {
            return rc::gen::map(rc::gen::tuple(gen::range<int>(0, static_cast<int>(ids.size()) - 1), gen_config(evals_hi, 5),
                                               gen_start(function_size(f)), g_bundle),
                                [ids, f](const std::tuple<int, config_t, std::vector<double>, int>& t) {
                                    return assemble(ids[static_cast<size_t>(std::get<0>(t))], f, std::get<1>(t), std::get<2>(t),
                                                    std::get<3>(t));
                                });
        });
}

rc::Gen<std::vector<double>> gen_constraint(const int n)
{
    const auto N = static_cast<size_t>(n);
    return rc::gen::mapcat(
        gen::range<int>(0, 7),
        [=](int kind) -> rc::Gen<std::vector<double>>
        {
            const auto tag = [kind](std::vector<double> v)
            {
                v.insert(v.begin(), static_cast<double>(kind));
                return v;
            };
            switch (kind)
            {
            case 0: // box on every coordinate: [lo, hi]
                return rc::gen::map(rc::gen::pair(gen::real(-4.0, 1.0), gen::real(0.1, 5.0)), [=](const std::pair<double, double>& p)
                                    { return tag({p.first, p.first + p.second}); });
            case 1: // x_dim >= value
            case 2: // x_dim <= value
                return rc::gen::map(rc::gen::pair(gen::sym(3.0), gen::range<int>(0, n - 1)), [=](const std::pair<double, int>& p)
                                    { return tag({p.first, static_cast<double>(p.second)}); });
            case 3: // q.x + r <= 0
            case 4: // q.x + r == 0
                return rc::gen::map(rc::gen::pair(gen::sym(3.0), gen::vec(N, 2.0)),
                                    [=](const std::pair<double, std::vector<double>>& p)
                                    {
                                        auto v = p.second;
                                        v[0]   = v[0] == 0.0 ? 1.0 : v[0];
                                        v.insert(v.begin(), p.first);
                                        return tag(v);
                                    });
            case 5: // |x - origin|^2 <= radius^2
            case 6: // |x - origin|^2 == radius^2
                return rc::gen::map(rc::gen::pair(gen::real(0.1, 4.0), gen::vec(N, 3.0)),
                                    [=](const std::pair<double, std::vector<double>>& p)
                                    {
                                        auto v = p.second;
                                        v.insert(v.begin(), p.first);
                                        return tag(v);
                                    });
            default: // 1/2 x'B'Bx + q.x + r <= 0
                return rc::gen::map(rc::gen::tuple(gen::real(-5.0, 0.5), gen::vec(N, 2.0), gen::vec(N * N, 1.5)),
                                    [=](const std::tuple<double, std::vector<double>, std::vector<double>>& p)
                                    {
                                        std::vector<double> v{std::get<0>(p)};
                                        v.insert(v.end(), std::get<1>(p).begin(), std::get<1>(p).end());
                                        v.insert(v.end(), std::get<2>(p).begin(), std::get<2>(p).end());
                                        return tag(v);
                                    });
            }
        });
}

rc::Gen<ccase_t> gen_ccase()
{
    const auto ids = constrained_ids();
    return rc::gen::mapcat(
        gen_fspec(8, 30),
        [ids](const fspec_t& f) -> rc::Gen<ccase_t>
        {
            const auto n = function_size(f);
            return rc::gen::mapcat(
                gen::range<int>(0, 4),
                [=](const int ncons) -> rc::Gen<ccase_t>
                {
                    return rc::gen::map(
                        rc::gen::tuple(gen::range<int>(0, static_cast<int>(ids.size()) - 1), gen_config(2000, 5), gen_start(n),
                                       rc::gen::container<std::vector<std::vector<double>>>(static_cast<size_t>(ncons), gen_constraint(n))),
                        [ids, f](const std::tuple<int, config_t, std::vector<double>, std::vector<std::vector<double>>>& t)
                        {
                            ccase_t c;
                            c.u    = assemble(ids[static_cast<size_t>(std::get<0>(t))], f, std::get<1>(t), std::get<2>(t), 0);
                            c.cons = std::get<3>(t);
                            return c;
                        });
                });
        });
}

// ---- constraints --------------------------------------------------------------------------
// returns false when a row is malformed (the case is then discarded)
bool add_constraints(nano::function_t& function, const std::vector<std::vector<double>>& cons)
{
    const auto n = function.size();
    const auto N = static_cast<size_t>(n);
    for (const auto& row : cons)
    {
        if (row.empty() || !std::all_of(row.begin(), row.end(), [](double v) { return std::isfinite(v); }))
        {
            return false;
        }
        const auto kind = static_cast<int>(row[0]);
        bool       ok   = false;
        switch (kind)
        {
        case 0: ok = row.size() == 3 && function.constrain(row[1], row[2]); break;
        case 1:
            ok = row.size() == 3 &&
                 function.constrain(nano::constraint::minimum_t{{row[1], static_cast<tensor_size_t>(row[2])}});
            break;
        case 2:
            ok = row.size() == 3 &&
                 function.constrain(nano::constraint::maximum_t{{row[1], static_cast<tensor_size_t>(row[2])}});
            break;
        case 3:
        case 4:
            if (row.size() == 2 + N)
            {
                vector_t q(n);
                for (tensor_size_t i = 0; i < n; ++i)
                {
                    q(i) = row[2 + static_cast<size_t>(i)];
                }
                ok = kind == 3 ? function.constrain(nano::constraint::linear_inequality_t{{q, row[1]}})
                               : function.constrain(nano::constraint::linear_equality_t{{q, row[1]}});
            }
            break;
        case 5:
        case 6:
            if (row.size() == 2 + N)
            {
                vector_t o(n);
                for (tensor_size_t i = 0; i < n; ++i)
                {
                    o(i) = row[2 + static_cast<size_t>(i)];
                }
                ok = kind == 5 ? function.constrain(nano::constraint::euclidean_ball_inequality_t{{o, row[1]}})
                               : function.constrain(nano::constraint::euclidean_ball_equality_t{{o, row[1]}});
            }
            break;
        case 7:
            if (row.size() == 2 + N + N * N)
            {
                vector_t       q(n);
                nano::matrix_t B(n, n);
                for (tensor_size_t i = 0; i < n; ++i)
                {
                    q(i) = row[2 + static_cast<size_t>(i)];
                    for (tensor_size_t j = 0; j < n; ++j)
                    {
                        B(i, j) = row[2 + N + static_cast<size_t>(i * n + j)];
                    }
                }
                nano::matrix_t P(n, n);
                P.matrix() = B.matrix().transpose() * B.matrix();
                ok         = function.constrain(nano::constraint::quadratic_inequality_t{{P, q, row[1]}});
            }
            break;
        default: break;
        }
        if (!ok)
        {
            return false;
        }
    }
    return true;
}

// ---------------------------------------------------------------------------------------
// the oracle
// ---------------------------------------------------------------------------------------
struct segment_log_t
{
    // evaluation counts (of the wrapper) at the log lines of the outer and of the inner solver
    std::vector<int64_t> outer_marks;
    std::vector<int64_t> inner_marks;
    std::vector<int64_t> inner_reported; // fcalls+gcalls printed by the inner solver on that line
    int64_t              outer_lines{0};
    int64_t              inner_lines{0};
    // curve search of the bundle solvers: the last trial line ("fx=..,fy=..") and the last summary line ("status=..")
    bool        last_csearch_is_summary{false};
    double      last_trial_fx{0.0}, last_trial_fy{0.0};
    int64_t     trials_since_summary{0};
    std::string last_summary_status;
};

verdict_t run_and_check(const ucase_t& c, const std::vector<std::vector<double>>* cons, ctx_t& ctx)
{
    // ---- domain --------------------------------------------------------------------------
    if (!c.f.well_formed())
    {
        return verdict_t::discard("malformed-function");
    }
    if (!(c.epsilon > 0.0 && c.epsilon <= 0.1) || c.max_evals < 10 || c.max_evals > 1000000)
    {
        return verdict_t::discard("epsilon-or-max_evals-out-of-domain");
    }
    const auto constrained = cons != nullptr;
    if (constrained != (std::find(constrained_ids().begin(), constrained_ids().end(), c.solver) != constrained_ids().end()))
    {
        return verdict_t::discard("solver-not-in-this-sub-check");
    }
    const auto inner = make_function(c.f);
    if (!inner)
    {
        return verdict_t::discard("unknown-function");
    }
    const auto n = inner->size();
    if (static_cast<tensor_size_t>(c.x0.size()) != n ||
        !std::all_of(c.x0.begin(), c.x0.end(), [](double v) { return std::isfinite(v); }))
    {
        return verdict_t::discard("x0-size-or-not-finite");
    }
    auto solver = make_solver(c.solver);
    if (!solver)
    {
        return verdict_t::discard("unknown-solver");
    }

    counted_t function(*inner);
    if (constrained && !add_constraints(function, *cons))
    {
        return verdict_t::discard("malformed-constraint");
    }

    const auto x0 = to_vector(c.x0);
    vector_t   g0;
    const auto f0 = function.eval(x0, g0);
    if (!std::isfinite(f0))
    {
        return verdict_t::discard("start-value-not-finite"); // the property quantifies over starts with a finite value
    }

    // ---- configuration --------------------------------------------------------------------
    const auto bundle = is_bundle(c.solver);
    const auto type   = solver->type();
    applied_t  applied;
    try
    {
        solver->parameter("solver::epsilon")   = c.epsilon;
        solver->parameter("solver::max_evals") = c.max_evals;

        std::vector<std::string> fixed{"solver::epsilon", "solver::max_evals", "solver::tolerance"};
        if (bundle && c.bundle_size > 0)
        {
            const auto name = "solver::" + c.solver + "::bundle::max_size";
            fixed.push_back(name);
            if (c.bundle_size < 2 || c.bundle_size > 1000)
            {
                return verdict_t::discard("bundle-size-out-of-domain");
            }
            solver->parameter(name) = c.bundle_size;
        }
        // cost control: bundle sizes above 100 and very long outer loops are not generated
        std::vector<std::pair<std::string, int64_t>> caps{{"bundle::max_size", 100}};
        if (constrained)
        {
            caps.emplace_back("max_outer_iters", std::max<int64_t>(10, 300000 / c.max_evals));
        }
        applied = apply_parameters(*solver, c.pmode, c.pu1, c.pu2, fixed, caps);

        if (type == nano::solver_type::line_search && c.tol_mode != 0)
        {
            std::tuple<scalar_t, scalar_t> tol{1e-4, 1e-1};
            switch (c.tol_mode)
            {
            case 1: tol = {1e-4, 1e-1}; break;
            case 2: tol = {1e-4, 9e-1}; break;
            case 3: tol = {1e-1, 9e-1}; break;
            default:
            {
                const auto c1 = std::pow(10.0, -6.0 + 5.69 * std::clamp(c.tol_u1, 0.0, 1.0)); // [1e-6, 0.49]
                const auto c2 = c1 + (1.0 - c1) * (0.01 + 0.98 * std::clamp(c.tol_u2, 0.0, 1.0));
                tol           = {c1, c2};
            }
            }
            const auto def = solver->parameter("solver::tolerance").value_pair<scalar_t>();
            if (tol != def)
            {
                solver->parameter("solver::tolerance") = tol;
                applied.any_nondefault                 = true;
                applied.lsearch_nondefault             = true;
                applied.description += cat("solver::tolerance=(", std::get<0>(tol), ",", std::get<1>(tol), ") ");
            }
        }
        // the line-search OBJECT of a line-search solver (40 % of those cases, derived from draws the case already carries): another
        // registered method, half of them with a small non-default iteration limit
        if (type == nano::solver_type::line_search)
        {
            const int pick = static_cast<int>(std::floor(std::clamp(c.tol_u2, 0.0, 1.0) * 10.0));
            if (pick >= 6)
            {
                static const char* ids[] = {"backtrack", "cgdescent", "fletcher", "lemarechal", "morethuente"};
                const auto         id    = ids[static_cast<int>(std::floor(std::clamp(c.tol_u1, 0.0, 0.999) * 5.0)) % 5];
                auto               ls    = nano::lsearchk_t::all().get(id);
                if (!ls)
                {
                    throw std::runtime_error(std::string("unknown line-search ") + id);
                }
                applied.description += cat("lsearchk=", id, " ");
                if (pick >= 8)
                {
                    static const int limits[] = {1, 2, 4};
                    const int        limit    = limits[static_cast<int>(std::floor(std::clamp(c.tol_u1, 0.0, 0.999) * 1000.0)) % 3];
                    ls->parameter("lsearchk::max_iterations") = limit;
                    applied.description += cat("lsearchk::max_iterations=", limit, " ");
                }
                solver->lsearchk(*ls);
                applied.any_nondefault     = true;
                applied.lsearch_nondefault = true;
            }
        }
    }
    catch (const std::exception& e)
    {
        // a value produced by the mapping was rejected by the parameter: a harness bug, never a verdict on the library
        throw std::runtime_error(std::string("parameter mapping rejected: ") + e.what() + " [" + applied.description + "]");
    }

    // the largest per-iteration evaluation count any inner search may legitimately reach with these settings
    int64_t max_inner_iters = 1000;
    for (const auto& p : solver->parameters())
    {
        if (p.name().find("lsearch_max_iters") != std::string::npos)
        {
            max_inner_iters = std::max<int64_t>(max_inner_iters, p.value<int64_t>());
        }
    }
    int64_t max_outers = 1;
    for (const auto& p : solver->parameters())
    {
        if (p.name().find("max_outer_iters") != std::string::npos)
        {
            max_outers = p.value<int64_t>();
        }
    }
    const int64_t allowance = static_cast<int64_t>(c.max_evals) + 1100 + 8 * static_cast<int64_t>(n);
    const int64_t runaway   = (4 * allowance + 8 * max_inner_iters) * (max_outers + 1);
    function.limit(runaway);

    // ---- run --------------------------------------------------------------------------------
    nano::verif::rng_state().store(static_cast<uint64_t>(c.rng > 0 ? c.rng : 1)); // pins gs/ags/... default seeds

    segment_log_t log;
    const auto    solver_tag = "[solver-" + c.solver + "]";
    linebuf_t     buffer(
        [&](const std::string& line)
        {
            if (bundle)
            {
                const auto cs = line.find("[csearch]:");
                if (cs != std::string::npos)
                {
                    const auto fxp = line.find(",fx=", cs);
                    const auto fyp = line.find(",fy=", cs);
                    const auto stp = line.find(",status=", cs);
                    if (stp != std::string::npos)
                    {
                        log.last_csearch_is_summary = true;
                        log.last_summary_status     = line.substr(stp + 8);
                    }
                    else if (fxp != std::string::npos && fyp != std::string::npos)
                    {
                        if (log.last_csearch_is_summary)
                        {
                            log.trials_since_summary = 0;
                        }
                        log.last_csearch_is_summary = false;
                        log.trials_since_summary++;
                        log.last_trial_fx = std::strtod(line.c_str() + fxp + 4, nullptr);
                        log.last_trial_fy = std::strtod(line.c_str() + fyp + 4, nullptr);
                    }
                    return;
                }
            }
            const auto pos = line.find("[solver-");
            if (pos == std::string::npos)
            {
                return;
            }
            if (line.compare(pos, solver_tag.size(), solver_tag) == 0)
            {
                log.outer_lines++;
                if (constrained)
                {
                    log.outer_marks.push_back(function.evals());
                }
            }
            else if (constrained)
            {
                log.inner_lines++;
                int64_t    reported = -1;
                const auto cpos     = line.find("calls=", pos);
                if (cpos != std::string::npos)
                {
                    long long f = 0, g = 0;
                    if (std::sscanf(line.c_str() + cpos, "calls=%lld|%lld", &f, &g) == 2)
                    {
                        reported = f + g;
                    }
                }
                log.inner_marks.push_back(function.evals());
                log.inner_reported.push_back(reported);
            }
        });
    std::ostream stream(&buffer);
    const auto   logger = nano::make_stream_logger(stream);

    nano::solver_state_t state;
    try
    {
        // half of the cases run a COPY of the configured object (as ml::params_t and per-thread copies do); derived from generated data, so that old replay files keep their meaning
        const bool via_clone = (static_cast<long long>(std::floor(std::fabs(x0(0)) * 1e6)) % 2) == 1;
        ctx.label_if(via_clone, "solver-used-through-clone");
        const auto cloned = via_clone ? solver->clone() : nano::rsolver_t{};
        state             = (via_clone ? *cloned : *solver).minimize(function, x0, logger);
    }
    catch (const runaway_t&)
    {
        return verdict_t::violation("C02/runaway/" + c.solver,
                                    cat("more than ", runaway, " evaluations with max_evals=", c.max_evals, " n=", n, " ", applied.description));
    }
    catch (const std::exception& e)
    {
        const std::string what = e.what();
        if (constrained && what.find("solver::epsilon") != std::string::npos && what.find("out of domain") != std::string::npos)
        {
            // mechanism of finding F14: solver_t::more_precise multiplies the inner solver's epsilon by epsilonK after every
            // outer iteration; with a small epsilonK the product underflows to 0, which the parameter rejects by throwing
            return verdict_t::known("C02/exception/constrained/inner-epsilon-underflow", cat(what, " ", applied.description));
        }
        return verdict_t::violation("C02/exception/" + c.solver, cat(what, " ", applied.description));
    }
    function.limit(0);
    nano::verif::rng_state().store(0);

    const auto status = state.status();
    const auto failed = status == nano::solver_status::failed;

    // ---- evidence ------------------------------------------------------------------------
    const auto in_class = type == nano::solver_type::line_search ? function.smooth()
                                                                  : (c.solver == "rqb" ? function.convex() : true);
    ctx.label("solver:" + c.solver);
    ctx.label(std::string("status:") + status_name(status));
    ctx.label("function:" + function_class(c.f));
    ctx.label(function.smooth() ? "smooth" : "non-smooth");
    ctx.label(function.convex() ? "convex" : "non-convex");
    ctx.label(in_class ? "in-documented-class" : "outside-documented-class");
    ctx.label(applied.any_nondefault ? "parameters:non-default" : "parameters:default");
    ctx.label_if(applied.lsearch_nondefault, "line-search-settings:non-default");
    ctx.label_if(c.max_evals <= 60, "tiny-budget");
    ctx.label_if(n == 1, "n=1");
    ctx.label_if(n >= 16, "n>=16");
    ctx.label_if(function.evals() >= c.max_evals, "budget-exhausted");
    if (constrained)
    {
        ctx.label(cons->empty() ? "no-constraints" : "with-constraints");
    }

    const auto g0norm     = g0.lpNorm<2>();
    const auto stationary = g0.lpNorm<Eigen::Infinity>() / std::max(1.0, std::fabs(f0)) < c.epsilon;
    ctx.nontrivial        = log.outer_lines >= 2 && !stationary;

    const auto where = [&](const char* clause) { return std::string("C02/") + clause + "/" + c.solver; };
    const auto info  = [&]()
    {
        return cat("status=", status_name(status), " n=", n, " max_evals=", c.max_evals, " eps=", c.epsilon, " f0=", f0,
                   " fx=", state.fx(), " counted=", function.fcount(), "|", function.gcount(), " reported=", state.fcalls(), "|",
                   state.gcalls(), " ", applied.description);
    };

    // ---- 1. a point of the right dimension --------------------------------------------------
    if (state.x().size() != n)
    {
        return verdict_t::violation(where("dimension"), cat("x has ", state.x().size(), " components; ", info()));
    }

    // ---- 2. status ---------------------------------------------------------------------------
    if (status != nano::solver_status::converged && status != nano::solver_status::max_iters && !failed)
    {
        return verdict_t::violation(where("status"), info());
    }

    // ---- 3. reported value (and gradient for line-search solvers) = the function at the returned point
    {
        vector_t   gx;
        const auto fx = function.eval(state.x(), gx);
        if (!same_bits(fx, state.fx()))
        {
            return verdict_t::violation(where("value-mismatch"), cat("f(x)=", fx, " reported ", state.fx(), "; ", info()));
        }
        if (type == nano::solver_type::line_search)
        {
            if (state.gx().size() != n)
            {
                return verdict_t::violation(where("gradient-mismatch"), cat("gradient has ", state.gx().size(), " components; ", info()));
            }
            for (tensor_size_t i = 0; i < n; ++i)
            {
                if (!same_bits(gx(i), state.gx()(i)))
                {
                    return verdict_t::violation(where("gradient-mismatch"),
                                                cat("component ", i, ": g(x)=", gx(i), " reported ", state.gx()(i), "; ", info()));
                }
            }
        }
    }

    // ---- 4. reported counts never exceed the evaluations performed ---------------------------------
    if (state.fcalls() > function.fcount() || state.gcalls() > function.gcount() || state.fcalls() < 0 || state.gcalls() < 0)
    {
        return verdict_t::violation(where("overreported-calls"), info());
    }

    // ---- 5. unless failed: finite point and value -------------------------------------------------
    if (!failed && (!std::isfinite(state.fx()) || !all_finite(state.x())))
    {
        return verdict_t::violation(where("not-finite"), info());
    }

    // ---- 7. budget: at most one outer iteration's worth beyond max_evals (default line-search settings)
    verdict_t soft = verdict_t::ok();
    if (!applied.lsearch_nondefault)
    {
        if (!constrained)
        {
            ctx.maximum("overshoot", static_cast<double>(function.evals() - c.max_evals));
            ctx.maximum("overshoot/allowed", static_cast<double>(function.evals() - c.max_evals) / static_cast<double>(1100 + 8 * n));
            if (function.evals() > allowance)
            {
                return verdict_t::violation(where("budget"), cat("performed ", function.evals(), " > ", allowance, "; ", info()));
            }
        }
        else
        {
            // per inner solve: split the evaluation history at the outer solver's log lines and wherever the
            // inner solver's own counter restarts; each piece also contains <= 2 outer-loop evaluations (4 units)
            std::vector<int64_t> cuts{0};
            size_t               io = 0;
            int64_t              last_reported = -1;
            for (size_t ii = 0; ii < log.inner_marks.size(); ++ii)
            {
                while (io < log.outer_marks.size() && log.outer_marks[io] <= log.inner_marks[ii])
                {
                    cuts.push_back(log.outer_marks[io++]);
                    last_reported = -1;
                }
                if (log.inner_reported[ii] >= 0 && last_reported >= 0 && log.inner_reported[ii] < last_reported && ii > 0)
                {
                    cuts.push_back(log.inner_marks[ii - 1]);
                }
                last_reported = log.inner_reported[ii];
            }
            while (io < log.outer_marks.size())
            {
                cuts.push_back(log.outer_marks[io++]);
            }
            cuts.push_back(function.evals());
            int64_t worst = 0;
            for (size_t k = 1; k < cuts.size(); ++k)
            {
                worst = std::max(worst, cuts[k] - cuts[k - 1]);
            }
            ctx.maximum("inner-overshoot", static_cast<double>(worst - c.max_evals));
            if (worst > allowance + 4)
            {
                return verdict_t::violation(where("budget"), cat("one inner solve performed ", worst, " > ", allowance + 4, "; ", info()));
            }
            ctx.label_if(cuts.size() > 3, "several-inner-solves");
        }
    }

    // ---- 6. value not larger than the starting value (documented class, moderate start) ------------------
    // NB: not applied to the constrained solvers on constrained functions: reaching feasibility legitimately
    //     raises the objective, the clause is about the 35 unconstrained solvers (see notes/C02.md).
    if (!failed && in_class && std::fabs(f0) < 1e8 && g0norm < 1e8 && !(constrained && !cons->empty()))
    {
        const auto tol    = 5e-4 * (1.0 + std::fabs(f0));
        const auto excess = state.fx() - f0;
        ctx.maximum("increase/allowed", excess / tol);
        if (excess > tol && c.solver == "rqb" && status == nano::solver_status::max_iters && function.evals() >= c.max_evals &&
            log.last_csearch_is_summary && log.trials_since_summary >= 1 && log.last_trial_fy > log.last_trial_fx &&
            (log.last_summary_status == "descent step" || log.last_summary_status == "cutting plane step"))
        {
            // mechanism of finding F11: the evaluation budget ran out inside csearch_t::search, the status of the
            // previous search ("descent step") was left in place and RQB moved to the rejected trial point
            return verdict_t::known("C02/value-increased/rqb/stale-csearch-status",
                                    cat("f(x)-f(x0)=", excess, " allowed ", tol, " last trial fx=", log.last_trial_fx,
                                        " fy=", log.last_trial_fy, " reported as '", log.last_summary_status, "'; ", info()));
        }
        // the 5e-4*(1+|f|) allowance is the property's own bound: no further band
        if (excess > tol)
        {
            return verdict_t::violation(where("value-increased"), cat("f(x)-f(x0)=", excess, " allowed ", tol, "; ", info()));
        }
    }
    return soft;
}

verdict_t check_ucase(const ucase_t& c, ctx_t& ctx)
{
    return run_and_check(c, nullptr, ctx);
}

verdict_t check_ccase(const ccase_t& c, ctx_t& ctx)
{
    return run_and_check(c.u, &c.cons, ctx);
}
} // namespace

int main(int argc, char** argv)
{
    suite_t suite("C02");
    suite.add<ucase_t>("unconstrained", [] { return gen_ucase(family_t::others); }, check_ucase, 1.0);
    suite.add<ccase_t>("constrained", gen_ccase, check_ccase, 0.15);
    suite.add<ucase_t>("bundle", [] { return gen_ucase(family_t::bundle); }, check_ucase, 0.3);
    suite.add<ucase_t>("bundle-small", [] { return gen_ucase(family_t::bundle_small); }, check_ucase, 0.1);
    suite.add<ucase_t>("bundle-asan", [] { return gen_ucase(family_t::bundle_asan); }, check_ucase, 0.05);
    suite.add<ucase_t>("memory", [] { return gen_ucase(family_t::memory); }, check_ucase, 0.3);
    return suite.main(argc, argv);
}
