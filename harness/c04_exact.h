// C04 — exact rational oracle for small integer LPs / positive definite QPs (DESIGN.md section 5, C04, G2).
//
//   min 1/2 x'Qx + c'x   s.t.  A x = b,  G x <= h        (n <= 3, m <= 6, p <= 2, integer data)
//
// Decides status in {optimal, infeasible, unbounded} with __int128 rationals and returns a
// certificate that is re-verified exactly (independent of how it was found):
//   infeasible : Farkas combination (lambda >= 0 on inequalities, free on equalities) with
//                sum = (0 | negative)
//   unbounded  : feasible point + ray d with A d = 0, G d <= 0, c'd < 0           (LP only)
//   optimal LP : feasible x* with c'x* = f* and a dual combination proving c'x >= f* on the feasible set
//   optimal QP : feasible x*, multipliers u >= 0 on an active subset, exact stationarity (KKT, convex)
// Anything that cannot be certified is reported `inconclusive` (the case is then discarded and counted).
#pragma once

#include <algorithm>
#include <stdexcept>
#include <string>
#include <vector>

namespace c04
{
using i128 = __int128;

struct overflow_t : std::runtime_error
{
    overflow_t()
        : std::runtime_error("int128 overflow in the exact oracle")
    {
    }
};

inline i128 xmul(i128 a, i128 b)
{
    i128 r = 0;
    if (__builtin_mul_overflow(a, b, &r))
    {
        throw overflow_t{};
    }
    return r;
}

inline i128 xadd(i128 a, i128 b)
{
    i128 r = 0;
    if (__builtin_add_overflow(a, b, &r))
    {
        throw overflow_t{};
    }
    return r;
}

inline i128 xabs(i128 a)
{
    return a < 0 ? -a : a;
}

inline i128 xgcd(i128 a, i128 b)
{
    a = xabs(a);
    b = xabs(b);
    while (b != 0)
    {
        const i128 t = a % b;
        a            = b;
        b            = t;
    }
    return a;
}

struct rat_t
{
    i128 n{0};
    i128 d{1};

    rat_t() = default;

    rat_t(long long v) // NOLINT(google-explicit-constructor)
        : n(v)
    {
    }

    rat_t(i128 num, i128 den)
        : n(num)
        , d(den)
    {
        if (d == 0)
        {
            throw std::runtime_error("rational with zero denominator");
        }
        if (d < 0)
        {
            n = -n;
            d = -d;
        }
        const i128 g = xgcd(n, d);
        if (g > 1)
        {
            n /= g;
            d /= g;
        }
    }

    int sign() const { return n > 0 ? 1 : (n < 0 ? -1 : 0); }

    bool zero() const { return n == 0; }

    double value() const { return static_cast<double>(static_cast<long double>(n) / static_cast<long double>(d)); }
};

inline rat_t operator+(const rat_t& a, const rat_t& b)
{
    const i128 g = xgcd(a.d, b.d);
    return {xadd(xmul(a.n, b.d / g), xmul(b.n, a.d / g)), xmul(a.d, b.d / g)};
}

inline rat_t operator-(const rat_t& a)
{
    rat_t r = a;
    r.n     = -r.n;
    return r;
}

inline rat_t operator-(const rat_t& a, const rat_t& b)
{
    return a + (-b);
}

inline rat_t operator*(const rat_t& a, const rat_t& b)
{
    const i128 g1 = xgcd(a.n, b.d);
    const i128 g2 = xgcd(b.n, a.d);
    return {xmul(a.n / (g1 == 0 ? 1 : g1), b.n / (g2 == 0 ? 1 : g2)), xmul(a.d / (g2 == 0 ? 1 : g2), b.d / (g1 == 0 ? 1 : g1))};
}

inline rat_t operator/(const rat_t& a, const rat_t& b)
{
    if (b.n == 0)
    {
        throw std::runtime_error("rational division by zero");
    }
    return a * rat_t{b.d, b.n};
}

inline int cmp(const rat_t& a, const rat_t& b)
{
    return (a - b).sign();
}

inline bool operator<(const rat_t& a, const rat_t& b)
{
    return cmp(a, b) < 0;
}

inline bool operator<=(const rat_t& a, const rat_t& b)
{
    return cmp(a, b) <= 0;
}

inline bool operator==(const rat_t& a, const rat_t& b)
{
    return a.n == b.n && a.d == b.d;
}

inline bool operator!=(const rat_t& a, const rat_t& b)
{
    return !(a == b);
}

using rvec_t = std::vector<rat_t>;
using rmat_t = std::vector<rvec_t>;

inline rat_t dot(const rvec_t& a, const rvec_t& b)
{
    rat_t s;
    for (size_t i = 0; i < a.size(); ++i)
    {
        s = s + a[i] * b[i];
    }
    return s;
}

// square system M y = r by Gaussian elimination; false if singular
inline bool solve_square(rmat_t M, rvec_t r, rvec_t& y)
{
    const size_t k = r.size();
    for (size_t col = 0; col < k; ++col)
    {
        size_t piv = col;
        while (piv < k && M[piv][col].zero())
        {
            ++piv;
        }
        if (piv == k)
        {
            return false;
        }
        std::swap(M[piv], M[col]);
        std::swap(r[piv], r[col]);
        for (size_t row = 0; row < k; ++row)
        {
            if (row != col && !M[row][col].zero())
            {
                const rat_t f = M[row][col] / M[col][col];
                for (size_t j = col; j < k; ++j)
                {
                    M[row][j] = M[row][j] - f * M[col][j];
                }
                r[row] = r[row] - f * r[col];
            }
        }
    }
    y.resize(k);
    for (size_t i = 0; i < k; ++i)
    {
        y[i] = r[i] / M[i][i];
    }
    return true;
}

// rank of a matrix (rows of equal length)
inline size_t rank_of(rmat_t M)
{
    size_t rank = 0;
    if (M.empty())
    {
        return 0;
    }
    const size_t cols = M[0].size();
    for (size_t col = 0; col < cols && rank < M.size(); ++col)
    {
        size_t piv = rank;
        while (piv < M.size() && M[piv][col].zero())
        {
            ++piv;
        }
        if (piv == M.size())
        {
            continue;
        }
        std::swap(M[piv], M[rank]);
        for (size_t row = rank + 1; row < M.size(); ++row)
        {
            if (!M[row][col].zero())
            {
                const rat_t f = M[row][col] / M[rank][col];
                for (size_t j = col; j < cols; ++j)
                {
                    M[row][j] = M[row][j] - f * M[rank][j];
                }
            }
        }
        ++rank;
    }
    return rank;
}

// ---------------------------------------------------------------------------------------
// Fourier-Motzkin elimination with equality pivots, certificate tracking and back substitution
// ---------------------------------------------------------------------------------------
struct row_t
{
    rvec_t a;        // coefficients
    rat_t  rhs;      // a.y <= rhs   (or == rhs)
    rvec_t comb;     // this row = sum comb_i * original row i
    bool   eq{false};
};

struct fm_t
{
    bool                            feasible{true}; // no constant contradiction met
    rvec_t                          farkas;         // combination of original rows giving (0 | negative) [or (0 = nonzero)]
    std::vector<std::vector<row_t>> stage;          // stage[k]: the system before variable k was eliminated
    std::vector<row_t>              rest;           // rows over the variables that were kept
};

inline bool all_zero(const rvec_t& a)
{
    return std::all_of(a.begin(), a.end(), [](const rat_t& v) { return v.zero(); });
}

inline void scale_row(row_t& r, const rat_t& f)
{
    for (auto& v : r.a)
    {
        v = v * f;
    }
    r.rhs = r.rhs * f;
    for (auto& v : r.comb)
    {
        v = v * f;
    }
}

inline row_t combine(const row_t& r1, const rat_t& f1, const row_t& r2, const rat_t& f2)
{
    row_t r;
    r.a.resize(r1.a.size());
    r.comb.resize(r1.comb.size());
    for (size_t i = 0; i < r.a.size(); ++i)
    {
        r.a[i] = r1.a[i] * f1 + r2.a[i] * f2;
    }
    for (size_t i = 0; i < r.comb.size(); ++i)
    {
        r.comb[i] = r1.comb[i] * f1 + r2.comb[i] * f2;
    }
    r.rhs = r1.rhs * f1 + r2.rhs * f2;
    return r;
}

// removes trivial rows, detects constant contradictions, canonical scaling, drops dominated duplicates
inline void clean(std::vector<row_t>& rows, fm_t& fm)
{
    std::vector<row_t> out;
    for (auto& r : rows)
    {
        if (all_zero(r.a))
        {
            const bool bad = r.eq ? !r.rhs.zero() : r.rhs.sign() < 0;
            if (bad && fm.feasible)
            {
                fm.feasible = false;
                fm.farkas   = r.comb;
                if (r.eq && r.rhs.sign() > 0)
                {
                    for (auto& v : fm.farkas)
                    {
                        v = -v;
                    }
                }
            }
            continue;
        }
        // canonical scaling: first non-zero coefficient has magnitude 1 (sign kept for inequalities)
        for (const auto& v : r.a)
        {
            if (!v.zero())
            {
                rat_t f = rat_t{1} / v;
                if (f.sign() < 0 && !r.eq)
                {
                    f = -f;
                }
                scale_row(r, f);
                break;
            }
        }
        bool merged = false;
        for (auto& o : out)
        {
            if (o.eq == r.eq && o.a == r.a)
            {
                if (!r.eq)
                {
                    if (r.rhs < o.rhs)
                    {
                        o = r;
                    }
                    merged = true;
                }
                else if (o.rhs == r.rhs)
                {
                    merged = true;
                }
                break;
            }
        }
        if (!merged)
        {
            out.push_back(std::move(r));
        }
    }
    rows = std::move(out);
}

// eliminates variables 0..ne-1 (in that order)
inline fm_t eliminate(std::vector<row_t> rows, const size_t ne)
{
    fm_t fm;
    clean(rows, fm);
    for (size_t k = 0; k < ne; ++k)
    {
        fm.stage.push_back(rows);
        // equality pivot?
        size_t piv = rows.size();
        for (size_t i = 0; i < rows.size(); ++i)
        {
            if (rows[i].eq && !rows[i].a[k].zero())
            {
                piv = i;
                break;
            }
        }
        std::vector<row_t> next;
        if (piv < rows.size())
        {
            const row_t& e = rows[piv];
            for (size_t i = 0; i < rows.size(); ++i)
            {
                if (i == piv)
                {
                    continue;
                }
                if (rows[i].a[k].zero())
                {
                    next.push_back(rows[i]);
                }
                else
                {
                    row_t r = combine(rows[i], rat_t{1}, e, -(rows[i].a[k] / e.a[k]));
                    r.eq    = rows[i].eq;
                    next.push_back(std::move(r));
                }
            }
        }
        else
        {
            std::vector<const row_t*> pos, neg;
            for (const auto& r : rows)
            {
                if (r.a[k].zero())
                {
                    next.push_back(r);
                }
                else if (r.a[k].sign() > 0)
                {
                    pos.push_back(&r);
                }
                else
                {
                    neg.push_back(&r);
                }
            }
            for (const auto* rp : pos)
            {
                for (const auto* rn : neg)
                {
                    row_t r = combine(*rp, rat_t{1} / rp->a[k], *rn, rat_t{-1} / rn->a[k]);
                    r.eq    = false;
                    next.push_back(std::move(r));
                }
            }
        }
        rows = std::move(next);
        clean(rows, fm);
        if (rows.size() > 20000)
        {
            throw overflow_t{}; // treated like an overflow: the case is discarded
        }
    }
    fm.rest = std::move(rows);
    return fm;
}

// y holds values for the variables >= ne on entry; fills 0..ne-1. false if some stage has an empty interval.
inline bool back_substitute(const fm_t& fm, const size_t ne, rvec_t& y)
{
    for (size_t kk = ne; kk > 0; --kk)
    {
        const size_t k = kk - 1;
        bool         has_lo = false, has_hi = false, fixed = false;
        rat_t        lo, hi, val;
        for (const auto& r : fm.stage[k])
        {
            if (r.a[k].zero())
            {
                continue;
            }
            rat_t rest = r.rhs;
            for (size_t j = k + 1; j < y.size(); ++j)
            {
                rest = rest - r.a[j] * y[j];
            }
            const rat_t bound = rest / r.a[k];
            if (r.eq)
            {
                if (fixed && bound != val)
                {
                    return false;
                }
                fixed = true;
                val   = bound;
            }
            else if (r.a[k].sign() > 0)
            {
                if (!has_hi || bound < hi)
                {
                    hi = bound;
                }
                has_hi = true;
            }
            else
            {
                if (!has_lo || lo < bound)
                {
                    lo = bound;
                }
                has_lo = true;
            }
        }
        if (has_lo && has_hi && hi < lo)
        {
            return false;
        }
        if (fixed)
        {
            if ((has_lo && val < lo) || (has_hi && hi < val))
            {
                return false;
            }
            y[k] = val;
        }
        else if (has_lo && has_hi)
        {
            const rat_t zero;
            y[k] = (lo <= zero && zero <= hi) ? zero : (zero < lo ? lo : hi);
        }
        else if (has_lo)
        {
            y[k] = lo.sign() > 0 ? lo : rat_t{};
        }
        else if (has_hi)
        {
            y[k] = hi.sign() < 0 ? hi : rat_t{};
        }
        else
        {
            y[k] = rat_t{};
        }
    }
    return true;
}

// ---------------------------------------------------------------------------------------
// the program and its exact status
// ---------------------------------------------------------------------------------------
struct iprogram_t
{
    int                            n{0};
    bool                           qp{false};
    std::vector<std::vector<long>> Q; // n x n (qp only), symmetric positive definite
    std::vector<long>              c;
    std::vector<std::vector<long>> A;
    std::vector<long>              b;
    std::vector<std::vector<long>> G;
    std::vector<long>              h;
};

enum class xstatus
{
    optimal,
    infeasible,
    unbounded,
    inconclusive
};

struct exact_t
{
    xstatus     status{xstatus::inconclusive};
    rvec_t      x;    // an optimal point (optimal) / a feasible point (unbounded)
    rat_t       f;    // optimal value
    rvec_t      ray;  // unbounded: improving recession direction
    std::string why;  // inconclusive: what could not be certified
};

inline rvec_t to_rvec(const std::vector<long>& v, const size_t extra = 0)
{
    rvec_t r(v.size() + extra);
    for (size_t i = 0; i < v.size(); ++i)
    {
        r[i] = rat_t{static_cast<long long>(v[i])};
    }
    return r;
}

inline bool point_feasible(const iprogram_t& P, const rvec_t& x)
{
    for (size_t i = 0; i < P.A.size(); ++i)
    {
        if (dot(to_rvec(P.A[i]), x) != rat_t{static_cast<long long>(P.b[i])})
        {
            return false;
        }
    }
    for (size_t i = 0; i < P.G.size(); ++i)
    {
        if (rat_t{static_cast<long long>(P.h[i])} < dot(to_rvec(P.G[i]), x))
        {
            return false;
        }
    }
    return true;
}

inline rat_t objective(const iprogram_t& P, const rvec_t& x)
{
    rat_t f = dot(to_rvec(P.c), x);
    if (P.qp)
    {
        rat_t q;
        for (size_t i = 0; i < x.size(); ++i)
        {
            q = q + x[i] * dot(to_rvec(P.Q[i]), x);
        }
        f = f + q * rat_t{1, 2};
    }
    return f;
}

// original rows of the constraint system over nv variables (x, and optionally t): inequalities first, then equalities
inline std::vector<row_t> constraint_rows(const iprogram_t& P, const size_t nv, const size_t nrows)
{
    std::vector<row_t> rows;
    const auto         add = [&](const std::vector<long>& a, long rhs, bool eq)
    {
        row_t r;
        r.a   = to_rvec(a, nv - a.size());
        r.rhs = rat_t{static_cast<long long>(rhs)};
        r.eq  = eq;
        r.comb.assign(nrows, rat_t{});
        r.comb[rows.size()] = rat_t{1};
        rows.push_back(std::move(r));
    };
    for (size_t i = 0; i < P.G.size(); ++i)
    {
        add(P.G[i], P.h[i], false);
    }
    for (size_t i = 0; i < P.A.size(); ++i)
    {
        add(P.A[i], P.b[i], true);
    }
    return rows;
}

// exact re-verification of a combination: sum comb_i * row_i == (a | rhs), comb >= 0 on inequality rows
inline bool verify_comb(const std::vector<row_t>& orig, const rvec_t& comb, rvec_t& a, rat_t& rhs)
{
    if (comb.size() != orig.size() || orig.empty())
    {
        return false;
    }
    a.assign(orig[0].a.size(), rat_t{});
    rhs = rat_t{};
    for (size_t i = 0; i < orig.size(); ++i)
    {
        if (!orig[i].eq && comb[i].sign() < 0)
        {
            return false;
        }
        for (size_t j = 0; j < a.size(); ++j)
        {
            a[j] = a[j] + comb[i] * orig[i].a[j];
        }
        rhs = rhs + comb[i] * orig[i].rhs;
    }
    return true;
}

inline exact_t decide(const iprogram_t& P)
{
    exact_t      out;
    const size_t n = static_cast<size_t>(P.n);
    const size_t R = P.G.size() + P.A.size();

    // ---- 1. feasibility ---------------------------------------------------------------
    const auto frows = constraint_rows(P, n, R);
    const auto ffm   = eliminate(frows, n);
    if (!ffm.feasible)
    {
        rvec_t a;
        rat_t  rhs;
        if (verify_comb(frows, ffm.farkas, a, rhs) && all_zero(a) && rhs.sign() < 0)
        {
            out.status = xstatus::infeasible;
        }
        else
        {
            out.why = "farkas certificate does not verify";
        }
        return out;
    }
    rvec_t xf(n);
    if (!back_substitute(ffm, n, xf) || !point_feasible(P, xf))
    {
        out.why = "feasible witness does not verify";
        return out;
    }

    if (!P.qp)
    {
        // ---- 2a. LP: project onto t = c.x ------------------------------------------------
        auto  rows = constraint_rows(P, n + 1, R + 1);
        row_t trow;
        trow.a = to_rvec(P.c, 1);
        for (size_t j = 0; j < n; ++j)
        {
            trow.a[j] = -trow.a[j];
        }
        trow.a[n] = rat_t{1};
        trow.eq   = true;
        trow.comb.assign(R + 1, rat_t{});
        trow.comb[R] = rat_t{1};
        rows.push_back(trow);
        const auto lfm = eliminate(rows, n);
        if (!lfm.feasible)
        {
            out.why = "LP projection contradicts the feasibility pass";
            return out;
        }
        bool         has_lo = false;
        rat_t        lo;
        const row_t* lo_row = nullptr;
        for (const auto& r : lfm.rest)
        {
            const auto& at = r.a[n];
            if (at.zero())
            {
                continue;
            }
            if (r.eq || at.sign() < 0)
            {
                const rat_t bound = r.rhs / at;
                if (!has_lo || lo < bound)
                {
                    lo     = bound;
                    lo_row = &r;
                }
                has_lo = true;
            }
        }
        if (!has_lo)
        {
            // unbounded: ray with A d = 0, G d <= 0, c.d = -1
            iprogram_t H = P;
            H.qp         = false;
            std::fill(H.b.begin(), H.b.end(), 0L);
            std::fill(H.h.begin(), H.h.end(), 0L);
            H.A.push_back(P.c);
            H.b.push_back(-1L);
            const auto hrows = constraint_rows(H, n, R + 1);
            const auto hfm   = eliminate(hrows, n);
            rvec_t     d(n);
            if (hfm.feasible && back_substitute(hfm, n, d) && point_feasible(H, d))
            {
                out.status = xstatus::unbounded;
                out.x      = xf;
                out.ray    = d;
            }
            else
            {
                out.why = "no lower bound on the objective but no improving ray found";
            }
            return out;
        }
        // optimal: point with t = lo, dual combination proving t >= lo
        rvec_t y(n + 1);
        y[n] = lo;
        if (!back_substitute(lfm, n, y))
        {
            out.why = "LP back substitution failed";
            return out;
        }
        rvec_t xs(y.begin(), y.begin() + static_cast<long>(n));
        if (!point_feasible(P, xs) || objective(P, xs) != lo)
        {
            out.why = "LP optimal point does not verify";
            return out;
        }
        rvec_t a;
        rat_t  rhs;
        rvec_t comb = lo_row->comb;
        if (lo_row->eq && lo_row->a[n].sign() > 0)
        {
            // an equality alpha*t = beta with alpha > 0: use its negation as the lower bound
            for (auto& v : comb)
            {
                v = -v;
            }
        }
        // the inequality multipliers must be >= 0 whatever the sign flip did: verify_comb checks it
        bool ok = verify_comb(rows, comb, a, rhs);
        if (ok)
        {
            for (size_t j = 0; j < n; ++j)
            {
                ok = ok && a[j].zero();
            }
            ok = ok && a[n].sign() < 0 && (rhs / a[n]) == lo;
        }
        if (!ok)
        {
            out.why = "LP dual certificate does not verify";
            return out;
        }
        out.status = xstatus::optimal;
        out.x      = xs;
        out.f      = lo;
        return out;
    }

    // ---- 2b. positive definite QP: active-set enumeration with exact KKT solves ------------
    {
        rmat_t Qr;
        for (const auto& q : P.Q)
        {
            Qr.push_back(to_rvec(q));
        }
        if (rank_of(Qr) != n)
        {
            out.why = "Q is not positive definite";
            return out;
        }
    }
    // independent subset of the equality rows
    std::vector<size_t> eqs;
    {
        rmat_t basis;
        for (size_t i = 0; i < P.A.size(); ++i)
        {
            rmat_t trial = basis;
            trial.push_back(to_rvec(P.A[i]));
            if (rank_of(trial) == trial.size())
            {
                basis = trial;
                eqs.push_back(i);
            }
        }
    }
    const size_t m  = P.G.size();
    const size_t pe = eqs.size();
    for (unsigned mask = 0; mask < (1U << m); ++mask)
    {
        std::vector<size_t> S;
        for (size_t i = 0; i < m; ++i)
        {
            if ((mask >> i) & 1U)
            {
                S.push_back(i);
            }
        }
        if (pe + S.size() > n)
        {
            continue;
        }
        const size_t k = n + pe + S.size();
        rmat_t       M(k, rvec_t(k));
        rvec_t       r(k);
        for (size_t i = 0; i < n; ++i)
        {
            for (size_t j = 0; j < n; ++j)
            {
                M[i][j] = rat_t{static_cast<long long>(P.Q[i][j])};
            }
            r[i] = rat_t{static_cast<long long>(-P.c[i])};
        }
        for (size_t e = 0; e < pe; ++e)
        {
            for (size_t j = 0; j < n; ++j)
            {
                M[n + e][j] = M[j][n + e] = rat_t{static_cast<long long>(P.A[eqs[e]][j])};
            }
            r[n + e] = rat_t{static_cast<long long>(P.b[eqs[e]])};
        }
        for (size_t s = 0; s < S.size(); ++s)
        {
            for (size_t j = 0; j < n; ++j)
            {
                M[n + pe + s][j] = M[j][n + pe + s] = rat_t{static_cast<long long>(P.G[S[s]][j])};
            }
            r[n + pe + s] = rat_t{static_cast<long long>(P.h[S[s]])};
        }
        rvec_t y;
        if (!solve_square(M, r, y))
        {
            continue;
        }
        bool ok = true;
        for (size_t s = 0; s < S.size() && ok; ++s)
        {
            ok = y[n + pe + s].sign() >= 0;
        }
        if (!ok)
        {
            continue;
        }
        rvec_t xs(y.begin(), y.begin() + static_cast<long>(n));
        if (!point_feasible(P, xs))
        {
            continue;
        }
        // exact KKT re-verification: Qx + c + A_e'v + G_S'u = 0, u >= 0, G_S x = h_S
        for (size_t i = 0; i < n && ok; ++i)
        {
            rat_t g = rat_t{static_cast<long long>(P.c[i])};
            for (size_t j = 0; j < n; ++j)
            {
                g = g + rat_t{static_cast<long long>(P.Q[i][j])} * xs[j];
            }
            for (size_t e = 0; e < pe; ++e)
            {
                g = g + rat_t{static_cast<long long>(P.A[eqs[e]][i])} * y[n + e];
            }
            for (size_t s = 0; s < S.size(); ++s)
            {
                g = g + rat_t{static_cast<long long>(P.G[S[s]][i])} * y[n + pe + s];
            }
            ok = g.zero();
        }
        for (size_t s = 0; s < S.size() && ok; ++s)
        {
            ok = dot(to_rvec(P.G[S[s]]), xs) == rat_t{static_cast<long long>(P.h[S[s]])};
        }
        if (!ok)
        {
            continue;
        }
        out.status = xstatus::optimal;
        out.x      = xs;
        out.f      = objective(P, xs);
        return out;
    }
    out.why = "feasible positive definite QP without a KKT point among the enumerated active sets";
    return out;
}
} // namespace c04
