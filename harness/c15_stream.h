// C15 — shared machinery of the serialization check (harness/c15_stream.cpp and fuzz/fz_stream.cpp).
//
// Nothing in here uses rapidcheck (the libFuzzer target is not linked with it): subjects
// (a valid stream + a way to read it into a fresh object and to observe the result),
// the harness-side restatement of the tensor wire format (layout + content hash) used to
// LOCATE tensor regions inside object streams and to classify checksum collisions, and
// the fault engine (every truncation offset, payload-byte and header-byte alterations).
#pragma once

#include "dataset_gen.h"

#include <nano/core/overloaded.h>
#include <nano/core/stream.h>
#include <nano/core/verif.h>
#include <nano/dataset.h>
#include <nano/function.h>
#include <nano/gboost/model.h>
#include <nano/generator/elemwise_identity.h>
#include <nano/linear.h>
#include <nano/loss.h>
#include <nano/lsearch0.h>
#include <nano/lsearchk.h>
#include <nano/solver.h>
#include <nano/splitter.h>
#include <nano/tensor/stream.h>
#include <nano/tuner.h>
#include <nano/wlearner.h>
#include <nano/wlearner/dtree.h>
#include <nano/wlearner/single.h>
#include <nano/wlearner/table.h>

#include <cfloat>
#include <new>
#include <streambuf>
#include <sys/resource.h>
#include <sys/wait.h>

namespace c15
{
using verif::cat;
using bytes_t = std::string;

// ---------------------------------------------------------------------------------------
// small helpers
// ---------------------------------------------------------------------------------------
struct prng_t // splitmix64, seeded from a generated case field (deterministic, replayable)
{
    uint64_t s;

    uint64_t next()
    {
        uint64_t z = (s += 0x9e3779b97f4a7c15ULL);
        z          = (z ^ (z >> 30)) * 0xbf58476d1ce4e5b9ULL;
        z          = (z ^ (z >> 27)) * 0x94d049bb133111ebULL;
        return z ^ (z >> 31);
    }

    uint64_t below(uint64_t n) { return n == 0 ? 0 : next() % n; }

    double unit() { return static_cast<double>(next() >> 11) / 9007199254740992.0; }
};

inline std::string hex(const void* p, size_t n)
{
    static const char* digits = "0123456789abcdef";
    std::string        s;
    s.reserve(2 * n);
    const auto* b = static_cast<const unsigned char*>(p);
    for (size_t i = 0; i < n; ++i)
    {
        s.push_back(digits[b[i] >> 4]);
        s.push_back(digits[b[i] & 15]);
    }
    return s;
}

inline std::string dbits(double v)
{
    return hex(&v, sizeof(v));
}

template <class ttensor>
std::string tensor_bits(const ttensor& t)
{
    std::string s = "[";
    for (const auto d : t.dims())
    {
        s += cat(d, ",");
    }
    s += "]";
    s += hex(t.data(), static_cast<size_t>(t.size()) * sizeof(*t.data()));
    return s;
}

inline std::string clip(const std::string& s, size_t n = 160)
{
    return s.size() <= n ? s : s.substr(0, n) + cat("...(", s.size(), " chars)");
}

// read-only stream buffer over a byte range (no copy; supports tellg)
class view_buf_t final : public std::streambuf
{
public:
    view_buf_t(const char* p, size_t n)
    {
        auto* b = const_cast<char*>(p); // NOLINT: the get area is never written
        setg(b, b, b + n);
    }

protected:
    pos_type seekoff(off_type off, std::ios_base::seekdir dir, std::ios_base::openmode which) override
    {
        if ((which & std::ios_base::in) == 0)
        {
            return pos_type(off_type(-1));
        }
        char* target = dir == std::ios_base::beg ? eback() + off : dir == std::ios_base::cur ? gptr() + off : egptr() + off;
        if (target < eback() || target > egptr())
        {
            return pos_type(off_type(-1));
        }
        setg(eback(), target, egptr());
        return pos_type(target - eback());
    }

    pos_type seekpos(pos_type pos, std::ios_base::openmode which) override { return seekoff(off_type(pos), std::ios_base::beg, which); }
};

// the stream a subject is read from: a view over the bytes or, in file mode (used by the round trip), a std::ifstream over a
// scratch file holding them (a file stream only buffers a few KiB: in_avail(), readsome() and friends behave differently there)
inline bool& file_mode()
{
    static thread_local bool on = false;
    return on;
}

class input_t
{
public:
    input_t(const char* p, size_t n)
        : m_buf(p, n)
        , m_view(&m_buf)
    {
        if (file_mode())
        {
            const char* dir = std::getenv("TMPDIR");
            m_path          = cat(dir != nullptr ? dir : ".", "/c15_stream.", static_cast<long>(::getpid()), ".bin");
            {
                std::ofstream out(m_path, std::ios::binary | std::ios::trunc);
                out.write(p, static_cast<std::streamsize>(n));
            }
            m_file.open(m_path, std::ios::binary);
        }
    }
    input_t(const input_t&)            = delete;
    input_t& operator=(const input_t&) = delete;
    ~input_t()
    {
        if (!m_path.empty())
        {
            m_file.close();
            std::remove(m_path.c_str());
        }
    }

    std::istream& stream() { return m_path.empty() ? static_cast<std::istream&>(m_view) : static_cast<std::istream&>(m_file); }

private:
    view_buf_t    m_buf;
    std::istream  m_view;
    std::ifstream m_file;
    std::string   m_path;
};

// ---------------------------------------------------------------------------------------
// the tensor wire format as documented (include/nano/tensor/stream.h, include/nano/core/hash.h):
//   u32 version(=0) | u32 rank | i32 dims[rank] | u32 sizeof(scalar) | u64 hash(content) | content
//   hash: h = 0; for each element e (integers converted to u64, floating point by bit pattern):
//         h = h ^ (e + 0x9e3779b9 + (h << 6) + (h >> 2))
// This restatement is only used to locate tensors inside object streams and to decide whether
// an accepted alteration is a collision of that checksum (known-finding mechanism predicate).
// ---------------------------------------------------------------------------------------
inline uint64_t ref_combine(uint64_t seed, uint64_t h)
{
    return seed ^ (h + 0x9e3779b9ULL + (seed << 6) + (seed >> 2));
}

inline uint64_t ref_hash(const unsigned char* p, size_t count, size_t esize, bool sign_extend)
{
    uint64_t h = 0;
    for (size_t i = 0; i < count; ++i)
    {
        uint64_t e = 0;
        std::memcpy(&e, p + i * esize, esize); // little endian host, like the library's raw writes
        if (sign_extend && esize < 8 && ((e >> (8 * esize - 1)) & 1U) != 0)
        {
            e |= ~uint64_t(0) << (8 * esize);
        }
        h = ref_combine(h, e);
    }
    return h;
}

struct region_t
{
    size_t               begin{0};      // offset of the version field
    size_t               header_len{0}; // 4 + 4 + 4 * rank + 4 + 8
    size_t               payload_len{0};
    size_t               esize{0};
    size_t               count{0};
    std::vector<int32_t> dims;

    size_t payload_begin() const { return begin + header_len; }

    size_t end() const { return begin + header_len + payload_len; }
};

template <class T>
T load(const bytes_t& s, size_t at)
{
    T v{};
    std::memcpy(&v, s.data() + at, sizeof(T));
    return v;
}

// try to parse a tensor at offset `at`; `check_hash`: the stored hash must match the reference hash
inline bool parse_region(const bytes_t& s, size_t at, bool check_hash, region_t& r, bool* hash_matches = nullptr)
{
    const size_t n = s.size();
    if (at + 8 > n || load<uint32_t>(s, at) != 0U)
    {
        return false;
    }
    const auto rank = load<uint32_t>(s, at + 4);
    if (rank < 1 || rank > 8)
    {
        return false;
    }
    const size_t header_len = 4 + 4 + 4 * static_cast<size_t>(rank) + 4 + 8;
    if (at + header_len > n)
    {
        return false;
    }
    // an extent of zero makes the tensor empty whatever the other extents are (even negative ones); otherwise
    // every extent has to be a plausible positive number
    bool any_zero = false, all_positive = true;
    r.dims.clear();
    for (uint32_t i = 0; i < rank; ++i)
    {
        const auto d = load<int32_t>(s, at + 8 + 4 * i);
        r.dims.push_back(d);
        any_zero     = any_zero || d == 0;
        all_positive = all_positive && d > 0 && d <= 1000000;
    }
    size_t count = 0;
    if (!any_zero)
    {
        if (!all_positive)
        {
            return false;
        }
        count = 1;
        for (const auto d : r.dims)
        {
            count *= static_cast<size_t>(d);
            if (count > (size_t(1) << 32))
            {
                return false;
            }
        }
    }
    const auto esize = load<uint32_t>(s, at + 8 + 4 * rank);
    if (esize != 1 && esize != 2 && esize != 4 && esize != 8)
    {
        return false;
    }
    const size_t payload_len = count * esize;
    if (at + header_len + payload_len > n)
    {
        return false;
    }
    const auto  stored = load<uint64_t>(s, at + 12 + 4 * rank);
    const auto* p      = reinterpret_cast<const unsigned char*>(s.data()) + at + header_len;
    const bool  match  = stored == ref_hash(p, count, esize, false) || stored == ref_hash(p, count, esize, true);
    if (hash_matches != nullptr)
    {
        *hash_matches = match;
    }
    if (check_hash && !match)
    {
        return false;
    }
    r.begin       = at;
    r.header_len  = header_len;
    r.payload_len = payload_len;
    r.esize       = esize;
    r.count       = count;
    return true;
}

// all NON-EMPTY tensor images inside a stream (non overlapping, left to right).  A candidate has to carry the
// content hash of its own payload (64 bits), which makes an accidental match practically impossible.  Empty
// tensors have hash 0 and too little structure to be recognised blindly (the dims of a default feature_t followed
// by its empty name look exactly like an empty rank-1 tensor of 1-byte elements): they are located by searching
// for the image of the tensor serialised separately (see subject_t::images).
inline std::vector<region_t> scan_regions(const bytes_t& s)
{
    std::vector<region_t> regions;
    for (size_t at = 0; at + 20 <= s.size();)
    {
        region_t r;
        if (parse_region(s, at, true, r) && r.count > 0)
        {
            regions.push_back(r);
            at = r.end();
        }
        else
        {
            ++at;
        }
    }
    return regions;
}

// the element sequence carried by a stream: the payloads of its non-empty tensors, in order
inline std::vector<bytes_t> payloads(const bytes_t& s)
{
    std::vector<bytes_t> r;
    for (const auto& region : scan_regions(s))
    {
        r.push_back(s.substr(region.payload_begin(), region.payload_len));
    }
    return r;
}

// non-empty tensors by scanning, empty ones by searching for the separately serialised images
inline std::vector<region_t> locate_regions(const bytes_t& s, const std::vector<bytes_t>& images)
{
    auto regions = scan_regions(s);
    for (const auto& image : images)
    {
        region_t r;
        if (!parse_region(image, 0, true, r) || r.count > 0 || r.end() != image.size())
        {
            continue;
        }
        for (size_t at = s.find(image); at != bytes_t::npos; at = s.find(image, at + 1))
        {
            region_t found;
            if (!parse_region(s, at, true, found))
            {
                continue;
            }
            bool overlaps = false;
            for (const auto& other : regions)
            {
                overlaps = overlaps || (found.begin < other.end() && other.begin < found.end());
            }
            if (!overlaps)
            {
                regions.push_back(found);
            }
        }
    }
    std::sort(regions.begin(), regions.end(), [](const region_t& a, const region_t& b) { return a.begin < b.begin; });
    return regions;
}

// mechanism predicate of the open checksum-collision finding: an accepted alteration is explained by a collision
// only when the LIBRARY's content hash (nano::detail::hash, recomputed here on both payloads) of the altered
// content provably equals that of the original content (and equals the stored hash), and the harness-side
// restatement of the documented hash agrees.  Anything else that is accepted silently stays a violation.
template <class T>
uint64_t library_hash_as(const unsigned char* p, size_t count)
{
    std::vector<T> values(count);
    if (count > 0)
    {
        std::memcpy(values.data(), p, count * sizeof(T));
    }
    return ::nano::detail::hash(values.data(), static_cast<nano::tensor_size_t>(count));
}

// variant 0: unsigned integers, 1: signed integers, 2: floating point (4 and 8 bytes)
inline bool library_hash(const unsigned char* p, size_t count, size_t esize, int variant, uint64_t& h)
{
    switch (variant * 10 + static_cast<int>(esize))
    {
    case 1: h = library_hash_as<uint8_t>(p, count); return true;
    case 2: h = library_hash_as<uint16_t>(p, count); return true;
    case 4: h = library_hash_as<uint32_t>(p, count); return true;
    case 8: h = library_hash_as<uint64_t>(p, count); return true;
    case 11: h = library_hash_as<int8_t>(p, count); return true;
    case 12: h = library_hash_as<int16_t>(p, count); return true;
    case 14: h = library_hash_as<int32_t>(p, count); return true;
    case 18: h = library_hash_as<int64_t>(p, count); return true;
    case 24: h = library_hash_as<float>(p, count); return true;
    case 28: h = library_hash_as<double>(p, count); return true;
    default: return false;
    }
}

// `original` holds a tensor at `region`; `altered` is the same stream after an alteration of that tensor
inline bool provable_hash_collision(const bytes_t& original, const region_t& region, const bytes_t& altered)
{
    region_t now;
    if (!parse_region(altered, region.begin, false, now) || now.esize != region.esize)
    {
        return false; // the altered image is not even a well formed tensor (negative extents, other element size, ...)
    }
    const auto  stored = load<uint64_t>(original, region.begin + 12 + 4 * region.dims.size());
    const auto* p0     = reinterpret_cast<const unsigned char*>(original.data()) + region.payload_begin();
    const auto* p1     = reinterpret_cast<const unsigned char*>(altered.data()) + now.payload_begin();
    if (now.count == region.count && std::memcmp(p0, p1, region.payload_len) == 0)
    {
        return false; // same content: nothing was altered in the elements
    }
    for (int variant = 0; variant < 3; ++variant)
    {
        uint64_t h0 = 0, h1 = 0;
        if (!library_hash(p0, region.count, region.esize, variant, h0) || h0 != stored || !library_hash(p1, now.count, now.esize, variant, h1))
        {
            continue;
        }
        const bool sign = variant == 1;
        if (h1 == h0 && ref_hash(p0, region.count, region.esize, sign) == ref_hash(p1, now.count, now.esize, sign))
        {
            return true;
        }
    }
    return false;
}

// ---------------------------------------------------------------------------------------
// subjects
// ---------------------------------------------------------------------------------------
struct outcome_t
{
    bool        failed{false};
    int         how{0}; // 0 success, 1 failed stream state, 2 exception, 3 std::bad_alloc
    std::string what;
    bytes_t     rewritten; // success: the re-read object serialised again
    std::string state;     // success && want_state: observation of the re-read object
    long        consumed{-1};
};

using reader_t = std::function<outcome_t(const char*, size_t, bool)>;

struct subject_t
{
    std::string family; // stable, used in signatures
    std::string label;  // details (type id, ...)
    bytes_t     bytes;  // the valid stream
    std::string state;  // observation of the original object
    reader_t    read;   // fresh object <- bytes
    int         nested{0};
    bool        free_function{false}; // read through the free nano::read (failure = stream state allowed)
    std::vector<bytes_t> images;      // the tensors of the object serialised separately (locates the empty ones)
    // set when `read` reads into an object that already holds data (non-empty tensors): the same read into a
    // pristine object.  Used to foresee the one situation in which `read` is known to corrupt the heap (see
    // crash_after_bad_alloc_sig) so that it can be run in a child process instead of killing the harness.
    reader_t read_pristine;
};

template <class ttensor>
bytes_t image_of(const ttensor& tensor)
{
    std::ostringstream out;
    ::nano::write(out, tensor);
    return out.str();
}

template <class F>
outcome_t guarded(F&& f)
{
    outcome_t o;
    try
    {
        f(o);
    }
    catch (const std::bad_alloc&)
    {
        o.failed = true;
        o.how    = 3;
        o.what   = "std::bad_alloc";
    }
    catch (const std::exception& e)
    {
        o.failed = true;
        o.how    = 2;
        o.what   = e.what();
    }
    catch (...)
    {
        o.failed = true;
        o.how    = 2;
        o.what   = "non-standard exception";
    }
    return o;
}

template <class tobject>
bytes_t to_bytes_member(const tobject& object)
{
    std::ostringstream out;
    object.write(out);
    if (!out)
    {
        throw std::runtime_error("c15: write() left the stream in a failed state");
    }
    return out.str();
}

template <class tobject>
bytes_t to_bytes_free(const tobject& object)
{
    std::ostringstream out;
    if (!::nano::write(out, object) || !out)
    {
        throw std::runtime_error("c15: nano::write left the stream in a failed state");
    }
    return out.str();
}

// object with member read/write; `fresh` creates the object to read into, `observe` its observation
template <class tobject>
subject_t member_subject(std::string family, std::string label, const tobject& original,
                         std::function<std::unique_ptr<tobject>()> fresh, std::function<std::string(const tobject&)> observe)
{
    subject_t s;
    s.family = std::move(family);
    s.label  = std::move(label);
    s.bytes  = to_bytes_member(original);
    s.state  = observe(original);
    s.read   = [fresh, observe](const char* p, size_t n, bool want_state)
    {
        return guarded(
            [&](outcome_t& o)
            {
                auto          object = fresh();
                input_t       input(p, n);
                std::istream& in = input.stream();
                object->read(in);
                if (!in)
                {
                    o.failed = true;
                    o.how    = 1;
                    return;
                }
                o.consumed  = static_cast<long>(in.tellg());
                o.rewritten = to_bytes_member(*object);
                if (want_state)
                {
                    o.state = observe(*object);
                }
            });
    };
    return s;
}

// factory object through the free functions: type id + object, re-created by the factory
template <class tbase>
subject_t factory_subject(std::string family, std::string label, const std::unique_ptr<tbase>& original,
                          std::function<std::string(const tbase&)> observe)
{
    subject_t s;
    s.family        = std::move(family);
    s.label         = std::move(label);
    s.bytes         = to_bytes_free(original);
    s.state         = observe(*original);
    s.nested        = 1;
    s.free_function = true;
    std::string other;
    if (s.bytes.size() % 2 == 1)
    {
        for (const auto& id : tbase::all().ids())
        {
            if (id != original->type_id())
            {
                other = id;
                break;
            }
        }
        s.label += cat(" (read into a pointer holding a ", other.empty() ? "-" : other, ")");
    }
    s.read          = [observe, other](const char* p, size_t n, bool want_state)
    {
        return guarded(
            [&](outcome_t& o)
            {
                // (half of the subjects) the destination already holds ANOTHER object of the same factory: the object read is
                // the one stored in the stream, whatever the pointer held before
                std::unique_ptr<tbase> object = other.empty() ? std::unique_ptr<tbase>{} : tbase::all().get(other);
                input_t                input(p, n);
                std::istream&          in = input.stream();
                ::nano::read(in, object);
                if (!in)
                {
                    o.failed = true;
                    o.how    = 1;
                    return;
                }
                if (!object)
                {
                    o.rewritten = "<null object, good stream>";
                    o.state     = "<null>";
                    return;
                }
                o.consumed  = static_cast<long>(in.tellg());
                o.rewritten = to_bytes_free(object);
                if (want_state)
                {
                    o.state = observe(*object);
                }
            });
    };
    return s;
}

// standalone tensor through the free functions; prefill != 0: the target already holds other data of another shape
template <class T, size_t R>
subject_t tensor_subject(const nano::tensor_mem_t<T, R>& original, int prefill, std::string label)
{
    using tensor_type  = nano::tensor_mem_t<T, R>;
    const auto observe = [](const tensor_type& t) { return tensor_bits(t); };

    subject_t s;
    s.family        = "tensor";
    s.label         = std::move(label);
    s.bytes         = image_of(original);
    s.state         = observe(original);
    s.images        = {s.bytes};
    s.free_function = true;

    const auto make_reader = [observe](int fill) -> reader_t
    {
        return [observe, fill](const char* p, size_t n, bool want_state)
        {
            return guarded(
                [&](outcome_t& o)
                {
                    tensor_type t;
                    if (fill != 0)
                    {
                        nano::tensor_dims_t<R> other;
                        for (size_t i = 0; i < R; ++i)
                        {
                            other[i] = fill == 1 ? 2 : static_cast<nano::tensor_size_t>(1 + i % 2);
                        }
                        t.resize(other);
                        std::memset(t.data(), 0x5a, static_cast<size_t>(t.size()) * sizeof(T));
                    }
                    input_t       input(p, n);
                    std::istream& in = input.stream();
                    if (!::nano::read(in, t) || !in)
                    {
                        o.failed = true;
                        o.how    = 1;
                        return;
                    }
                    o.consumed  = static_cast<long>(in.tellg());
                    o.rewritten = image_of(t);
                    if (want_state)
                    {
                        o.state = observe(t);
                    }
                });
        };
    };
    s.read = make_reader(prefill);
    if (prefill != 0)
    {
        s.read_pristine = make_reader(0);
    }
    return s;
}

// ---------------------------------------------------------------------------------------
// observations
// ---------------------------------------------------------------------------------------
inline std::string dump(const nano::parameter_t& p)
{
    using nano::parameter_t;
    const auto comp = [](const nano::LEorLT& c) { return std::holds_alternative<nano::LE_t>(c) ? "<=" : "<"; };
    std::string s   = cat("{", hex(p.name().data(), p.name().size()), "|", p.storage().index(), "|");
    std::visit(::overloaded{[&](const std::monostate&) { s += "none"; },
                                [&](const parameter_t::enum_t& e)
                                {
                                    s += hex(e.m_value.data(), e.m_value.size()) + "@";
                                    for (const auto& d : e.m_domain)
                                    {
                                        s += hex(d.data(), d.size()) + ",";
                                    }
                                },
                                [&](const parameter_t::irange_t& r)
                                { s += cat(r.m_min, comp(r.m_mincomp), r.m_value, comp(r.m_maxcomp), r.m_max); },
                                [&](const parameter_t::frange_t& r)
                                { s += cat(dbits(r.m_min), comp(r.m_mincomp), dbits(r.m_value), comp(r.m_maxcomp), dbits(r.m_max)); },
                                [&](const parameter_t::iprange_t& r) {
                                    s += cat(r.m_min, comp(r.m_mincomp), r.m_value1, comp(r.m_valcomp), r.m_value2, comp(r.m_maxcomp), r.m_max);
                                },
                                [&](const parameter_t::fprange_t& r)
                                {
                                    s += cat(dbits(r.m_min), comp(r.m_mincomp), dbits(r.m_value1), comp(r.m_valcomp), dbits(r.m_value2),
                                             comp(r.m_maxcomp), dbits(r.m_max));
                                },
                                [&](const nano::string_t& v) { s += hex(v.data(), v.size()); }},
               p.storage());
    return s + "}";
}

inline std::string dump(const nano::feature_t& f)
{
    std::string s = cat("{", static_cast<int>(f.type()), "|", hex(f.name().data(), f.name().size()), "|", f.dims()[0], ",", f.dims()[1], ",",
                        f.dims()[2], "|");
    for (const auto& l : f.labels())
    {
        s += hex(l.data(), l.size()) + ",";
    }
    return s + "}";
}

inline std::string dump(const nano::configurable_t& c)
{
    std::string s = cat("v", c.major_version(), ".", c.minor_version(), ".", c.patch_version(), ":");
    for (const auto& p : c.parameters())
    {
        s += dump(p);
    }
    return s;
}

// the library's own notion of equality, reported next to the field-wise dump
inline bool same_parameters(const nano::configurable_t& a, const nano::configurable_t& b)
{
    return a.parameters() == b.parameters();
}

// convex quadratic used for the behaviour runs of solvers and line-searches
class quadratic_function_t final : public nano::function_t
{
public:
    quadratic_function_t(nano::tensor_size_t dims, uint64_t seed)
        : nano::function_t("c15-quadratic", dims)
        , m_a(dims)
        , m_b(dims)
    {
        prng_t rng{seed};
        for (nano::tensor_size_t i = 0; i < dims; ++i)
        {
            m_a(i) = 0.5 + 4.0 * rng.unit();
            m_b(i) = 2.0 * rng.unit() - 1.0;
        }
        convex(nano::convexity::yes);
        smooth(nano::smoothness::yes);
        strong_convexity(0.5);
    }

    nano::rfunction_t clone() const override { return std::make_unique<quadratic_function_t>(*this); }

    nano::scalar_t do_vgrad(nano::vector_cmap_t x, nano::vector_map_t gx) const override
    {
        nano::scalar_t f = 0.0;
        for (nano::tensor_size_t i = 0; i < size(); ++i)
        {
            f += 0.5 * m_a(i) * x(i) * x(i) + m_b(i) * x(i);
        }
        if (gx.size() == x.size())
        {
            for (nano::tensor_size_t i = 0; i < size(); ++i)
            {
                gx(i) = m_a(i) * x(i) + m_b(i);
            }
        }
        return f;
    }

private:
    nano::vector_t m_a, m_b;
};

inline bool bundle_solver(const std::string& id)
{
    // reachable heap overflow in bundle_t::append for small bundle sizes (open finding of C02/C03, DESIGN.md F10):
    // not this property's business, the behaviour run is skipped for these three
    return id == "rqb" || id == "fpba1" || id == "fpba2";
}

inline std::string run_solver(const nano::solver_t& proto, uint64_t seed, int evals)
{
    try
    {
        auto solver                            = proto.clone();
        solver->parameter("solver::max_evals") = evals;
        const auto dims                        = static_cast<nano::tensor_size_t>(2 + seed % 3);
        const auto function                    = quadratic_function_t{dims, seed};
        auto       x0                          = nano::vector_t{dims};
        prng_t     rng{seed ^ 0x5555};
        for (nano::tensor_size_t i = 0; i < dims; ++i)
        {
            x0(i) = 4.0 * rng.unit() - 2.0;
        }
        nano::verif::rng_state().store(seed | 1U);
        const auto state = solver->minimize(function, x0, nano::make_null_logger());
        return cat("x=", tensor_bits(state.x()), " fx=", dbits(state.fx()), " status=", static_cast<int>(state.status()), " calls=", state.fcalls(), "/",
                   state.gcalls());
    }
    catch (const std::exception& e)
    {
        return cat("threw:", e.what());
    }
}

inline std::string observe_solver(const nano::solver_t& s, uint64_t seed, int evals, bool behaviour)
{
    auto r = cat("solver:", s.type_id(), ":", dump(s));
    if (behaviour && !bundle_solver(s.type_id()))
    {
        r += " run:" + run_solver(s, seed, evals);
    }
    return r;
}

inline std::string observe_lsearch0(const nano::lsearch0_t& l, uint64_t seed, int evals, bool behaviour)
{
    auto r = cat("lsearch0:", l.type_id(), ":", dump(l));
    if (behaviour)
    {
        auto solver = nano::solver_t::all().get(seed % 2 == 0 ? "gd" : "lbfgs");
        solver->lsearch0(l);
        r += " run:" + run_solver(*solver, seed, evals);
    }
    return r;
}

inline std::string observe_lsearchk(const nano::lsearchk_t& l, uint64_t seed, int evals, bool behaviour)
{
    auto r = cat("lsearchk:", l.type_id(), ":", dump(l));
    if (behaviour)
    {
        auto solver = nano::solver_t::all().get(seed % 2 == 0 ? "gd" : "cgd-pr");
        solver->lsearchk(l);
        r += " run:" + run_solver(*solver, seed, evals);
    }
    return r;
}

inline std::string observe_loss(const nano::loss_t& l, uint64_t seed)
{
    auto r = cat("loss:", l.type_id(), ":", dump(l), " convex=", l.convex(), " smooth=", l.smooth());
    try
    {
        const nano::tensor_size_t n = 5, k = 3;
        nano::tensor4d_t          targets(n, k, 1, 1), outputs(n, k, 1, 1), vgrads(n, k, 1, 1);
        nano::tensor1d_t          errors(n), values(n);
        prng_t                    rng{seed};
        for (nano::tensor_size_t i = 0; i < n; ++i)
        {
            const auto hot = static_cast<nano::tensor_size_t>(rng.below(static_cast<uint64_t>(k)));
            for (nano::tensor_size_t j = 0; j < k; ++j)
            {
                targets(i, j, 0, 0) = j == hot ? +1.0 : -1.0; // valid for regression, single- and multi-label losses
                outputs(i, j, 0, 0) = 4.0 * rng.unit() - 2.0;
            }
        }
        l.error(targets, outputs, errors.tensor());
        l.value(targets, outputs, values.tensor());
        l.vgrad(targets, outputs, vgrads.tensor());
        r += cat(" e=", tensor_bits(errors), " v=", tensor_bits(values), " g=", tensor_bits(vgrads));
    }
    catch (const std::exception& e)
    {
        r += cat(" threw:", e.what());
    }
    return r;
}

inline std::string observe_splitter(const nano::splitter_t& s, uint64_t seed)
{
    auto r = cat("splitter:", s.type_id(), ":", dump(s));
    try
    {
        const auto n = static_cast<nano::tensor_size_t>(20 + seed % 30);
        nano::verif::rng_state().store(seed | 1U);
        const auto splits = s.split(nano::arange(0, n));
        r += cat(" n=", n, " folds=", splits.size());
        for (const auto& [train, valid] : splits)
        {
            r += cat(" T", tensor_bits(train), " V", tensor_bits(valid));
        }
    }
    catch (const std::exception& e)
    {
        r += cat(" threw:", e.what());
    }
    return r;
}

inline std::string observe_tuner(const nano::tuner_t& t, uint64_t seed, bool behaviour)
{
    auto r = cat("tuner:", t.type_id(), ":", dump(t));
    if (!behaviour)
    {
        return r;
    }
    try
    {
        auto tuner                           = t.clone();
        tuner->parameter("tuner::max_evals") = static_cast<int64_t>(10 + seed % 8);
        auto spaces                          = nano::param_spaces_t{};
        spaces.emplace_back("p1", nano::param_space_t::type::log10, 1e-4, 1e-3, 1e-2, 1e-1, 1e+0, 1e+1, 1e+2);
        if (seed % 2 == 0)
        {
            spaces.emplace_back("p2", nano::param_space_t::type::linear, 0.1, 0.2, 0.3, 0.5, 0.7, 0.9);
        }
        const auto c1       = -3.0 + static_cast<double>(seed % 5);
        const auto callback = [&](const nano::tensor2d_t& params)
        {
            nano::tensor1d_t values(params.size<0>());
            for (nano::tensor_size_t i = 0; i < params.size<0>(); ++i)
            {
                double v = (std::log10(params(i, 0)) - c1) * (std::log10(params(i, 0)) - c1);
                if (params.size<1>() > 1)
                {
                    v += 3.0 * (params(i, 1) - 0.45) * (params(i, 1) - 0.45);
                }
                values(i) = v;
            }
            return values;
        };
        nano::verif::rng_state().store(seed | 1U);
        const auto steps = tuner->optimize(spaces, callback, nano::make_null_logger());
        r += cat(" steps=", steps.size());
        for (const auto& step : steps)
        {
            r += cat(" ", tensor_bits(step.m_igrid), tensor_bits(step.m_param), dbits(step.m_value));
        }
    }
    catch (const std::exception& e)
    {
        r += cat(" threw:", e.what());
    }
    return r;
}

// ---------------------------------------------------------------------------------------
// data for the fitted objects
// ---------------------------------------------------------------------------------------
struct data_t
{
    std::unique_ptr<verif::ds::generated_datasource_t> source;
    std::unique_ptr<nano::dataset_t>                   dataset;
    nano::indices_t                                    all;
    nano::indices_t                                    some; // a sub list with a repeat, reversed

    explicit data_t(const verif::ds::data_spec_t& spec)
        : source(verif::ds::make_datasource(spec))
        , dataset(std::make_unique<nano::dataset_t>(*source, size_t(1)))
    {
        dataset->add<nano::sclass_identity_generator_t>();
        dataset->add<nano::mclass_identity_generator_t>();
        dataset->add<nano::scalar_identity_generator_t>();
        dataset->add<nano::struct_identity_generator_t>();
        const auto n = dataset->samples();
        all          = nano::arange(0, n);
        some         = nano::indices_t{std::max<nano::tensor_size_t>(1, (n + 1) / 2) + 1};
        for (nano::tensor_size_t i = 0; i < some.size(); ++i)
        {
            some(i) = (n - 1 - 2 * i) >= 0 ? (n - 1 - 2 * i) : 0;
        }
    }
};

inline std::string predictions(const nano::learner_t& learner, const data_t& data)
{
    try
    {
        const auto p1 = learner.predict(*data.dataset, data.all);
        const auto p2 = learner.predict(*data.dataset, data.some);
        return cat("P", tensor_bits(p1), " Q", tensor_bits(p2));
    }
    catch (const std::exception& e)
    {
        return cat("predict threw:", e.what());
    }
}

inline std::string observe_wlearner(const nano::wlearner_t& w, const data_t* data)
{
    auto r = cat("wlearner:", w.type_id(), ":", dump(w));
    try
    {
        r += cat(" features=", tensor_bits(w.features()));
    }
    catch (const std::exception& e)
    {
        r += cat(" features threw:", e.what());
    }
    if (data != nullptr)
    {
        r += " " + predictions(w, *data);
        try
        {
            const auto cluster = w.split(*data->dataset, data->all);
            r += cat(" groups=", cluster.groups(), ":");
            for (nano::tensor_size_t i = 0; i < cluster.samples(); ++i)
            {
                r += cat(cluster.group(i), ",");
            }
        }
        catch (const std::exception& e)
        {
            r += cat(" split threw:", e.what());
        }
    }
    return r;
}

inline std::string observe_linear(const nano::linear_t& m, const data_t* data)
{
    auto r = cat("linear:", m.type_id(), ":", dump(m), " b=", tensor_bits(m.bias()), " W=", tensor_bits(m.weights()));
    if (data != nullptr)
    {
        r += " " + predictions(m, *data);
    }
    return r;
}

inline std::string observe_gboost(const nano::gboost_model_t& m, const data_t* data)
{
    auto r = cat("gboost:", dump(m), " b=", tensor_bits(m.bias()), " rounds=", m.wlearners().size(), " protos=", m.prototypes().size());
    for (const auto& w : m.wlearners())
    {
        r += " [" + observe_wlearner(*w, nullptr) + "]";
    }
    for (const auto& w : m.prototypes())
    {
        r += " <" + observe_wlearner(*w, nullptr) + ">";
    }
    try
    {
        r += cat(" features=", tensor_bits(m.features()));
    }
    catch (const std::exception& e)
    {
        r += cat(" features threw:", e.what());
    }
    if (data != nullptr)
    {
        r += " " + predictions(m, *data);
    }
    return r;
}

// ---------------------------------------------------------------------------------------
// random in-domain configuration: u[i] in [0,1) drives parameter i
// ---------------------------------------------------------------------------------------
inline int randomize(nano::configurable_t& object, const std::vector<double>& u)
{
    using nano::parameter_t;
    const auto strict   = [](const nano::LEorLT& c) { return std::holds_alternative<nano::LT_t>(c); };
    int        rejected = 0;
    size_t     i        = 0;
    // NB: copy of the names first, assignments do not invalidate them but keep the loop independent of the storage
    std::vector<std::string> names;
    for (const auto& p : object.parameters())
    {
        names.push_back(p.name());
    }
    for (const auto& name : names)
    {
        if (u.empty())
        {
            break;
        }
        auto&        p    = object.parameter(name);
        const double ui   = std::min(std::max(u[i++ % u.size()], 0.0), 0.999999999);
        const int    mode = static_cast<int>(ui * 5.0);     // 0: keep the default
        const double frac = ui * 5.0 - std::floor(ui * 5.0); // in [0,1)
        if (mode == 0)
        {
            continue;
        }
        const auto pick_int = [&](int64_t lo, int64_t hi, double f) -> int64_t
        {
            if (hi < lo)
            {
                return lo;
            }
            switch (mode)
            {
            case 1: return lo;
            case 2: return hi;
            case 3: return lo + static_cast<int64_t>(f * static_cast<double>(std::min<int64_t>(hi - lo, 1000)));
            default:
            {
                const auto span = static_cast<double>(hi - lo);
                return std::min(hi, lo + static_cast<int64_t>(std::pow(span + 1.0, f)) - 1);
            }
            }
        };
        const auto pick_real = [&](double lo, double hi, double f) -> double
        {
            switch (mode)
            {
            case 1: return lo;
            case 2: return hi;
            case 3:
            {
                const double span = std::isfinite(hi - lo) ? hi - lo : 1e6;
                return std::min(hi, lo + f * std::min(span, 1e6));
            }
            default:
            {
                // geometric between the ends when both are positive, otherwise close to the lower end
                if (lo > 0.0 && std::isfinite(hi))
                {
                    return std::min(hi, std::max(lo, lo * std::pow(hi / lo, f)));
                }
                const double span = std::isfinite(hi - lo) ? hi - lo : 1.0;
                return std::min(hi, lo + f * f * f * std::min(span, 1.0));
            }
            }
        };
        try
        {
            std::visit(::overloaded{[&](const parameter_t::enum_t& e)
                                        {
                                            if (!e.m_domain.empty())
                                            {
                                                p = e.m_domain[static_cast<size_t>(frac * static_cast<double>(e.m_domain.size())) % e.m_domain.size()];
                                            }
                                        },
                                        [&](const parameter_t::irange_t& r)
                                        {
                                            const auto lo = r.m_min + (strict(r.m_mincomp) ? 1 : 0);
                                            const auto hi = r.m_max - (strict(r.m_maxcomp) ? 1 : 0);
                                            p             = pick_int(lo, hi, frac);
                                        },
                                        [&](const parameter_t::frange_t& r)
                                        {
                                            const auto lo = strict(r.m_mincomp) ? std::nextafter(r.m_min, DBL_MAX) : r.m_min;
                                            const auto hi = strict(r.m_maxcomp) ? std::nextafter(r.m_max, -DBL_MAX) : r.m_max;
                                            p             = pick_real(lo, hi, frac);
                                        },
                                        [&](const parameter_t::iprange_t& r)
                                        {
                                            const auto lo = r.m_min + (strict(r.m_mincomp) ? 1 : 0);
                                            const auto hi = r.m_max - (strict(r.m_maxcomp) ? 1 : 0);
                                            auto       v1 = pick_int(lo, hi, frac * frac);
                                            auto       v2 = pick_int(lo, hi, frac);
                                            if (v1 > v2)
                                            {
                                                std::swap(v1, v2);
                                            }
                                            if (strict(r.m_valcomp) && v1 == v2)
                                            {
                                                if (v2 < hi)
                                                {
                                                    ++v2;
                                                }
                                                else
                                                {
                                                    --v1;
                                                }
                                            }
                                            p = std::make_tuple(v1, v2);
                                        },
                                        [&](const parameter_t::fprange_t& r)
                                        {
                                            const auto lo = strict(r.m_mincomp) ? std::nextafter(r.m_min, DBL_MAX) : r.m_min;
                                            const auto hi = strict(r.m_maxcomp) ? std::nextafter(r.m_max, -DBL_MAX) : r.m_max;
                                            auto       v1 = pick_real(lo, hi, frac * frac);
                                            auto       v2 = pick_real(lo, hi, frac);
                                            if (v1 > v2)
                                            {
                                                std::swap(v1, v2);
                                            }
                                            if (strict(r.m_valcomp) && v1 == v2)
                                            {
                                                if (v2 < hi)
                                                {
                                                    v2 = std::nextafter(v2, DBL_MAX);
                                                }
                                                else
                                                {
                                                    v1 = std::nextafter(v1, -DBL_MAX);
                                                }
                                            }
                                            p = std::make_tuple(v1, v2);
                                        },
                                        [&](const nano::string_t&) { p = nano::string_t(cat("value-", frac)); }, [&](const std::monostate&) {}},
                       parameter_t::storage_t(p.storage())); // visit a copy: the assignment changes the storage
        }
        catch (const std::exception&)
        {
            ++rejected; // an in-domain value was computed wrongly by this helper or rejected (C19's business): default kept
        }
    }
    return rejected;
}

// ---------------------------------------------------------------------------------------
// subjects of the learners (shared with the libFuzzer target)
// ---------------------------------------------------------------------------------------
template <class tbase>
std::string pick_id(int index)
{
    const auto ids = tbase::all().ids();
    return ids[static_cast<size_t>(index) % ids.size()];
}

inline std::vector<bytes_t> images_of(const nano::wlearner_t& w)
{
    std::vector<bytes_t> r;
    if (const auto* single = dynamic_cast<const nano::single_feature_wlearner_t*>(&w); single != nullptr)
    {
        r.push_back(image_of(single->tables()));
    }
    if (const auto* table = dynamic_cast<const nano::table_wlearner_t*>(&w); table != nullptr)
    {
        r.push_back(image_of(table->hashes()));
        r.push_back(image_of(table->hash2tables()));
    }
    if (const auto* dtree = dynamic_cast<const nano::dtree_wlearner_t*>(&w); dtree != nullptr)
    {
        r.push_back(image_of(dtree->tables()));
        r.push_back(image_of(dtree->features()));
    }
    return r;
}

inline std::vector<bytes_t> images_of(const nano::gboost_model_t& m)
{
    std::vector<bytes_t> r = {image_of(m.bias())};
    for (const auto* list : {&m.wlearners(), &m.prototypes()})
    {
        for (const auto& w : *list)
        {
            for (auto& image : images_of(*w))
            {
                r.push_back(std::move(image));
            }
        }
    }
    return r;
}

inline std::string dtree_nodes(const nano::wlearner_t& w)
{
    std::string r;
    if (const auto* dtree = dynamic_cast<const nano::dtree_wlearner_t*>(&w); dtree != nullptr)
    {
        r += cat(" nodes=", dtree->nodes().size(), ":");
        for (const auto& node : dtree->nodes())
        {
            r += cat(node.m_feature, "/", dbits(node.m_threshold), "/", node.m_next, "/", node.m_table, ";");
        }
    }
    return r;
}

// weak learner subject (member API); `data` may be null (unfitted object);
// reuse: the stream is read into a copy of the (fitted) object instead of a pristine one
inline subject_t wlearner_subject(const nano::wlearner_t& w, const data_t* data, bool with_predictions, bool reuse = false)
{
    const auto id      = w.type_id();
    const auto observe = [data, with_predictions](const nano::wlearner_t& x) { return observe_wlearner(x, with_predictions ? data : nullptr) + dtree_nodes(x); };
    auto       s       = member_subject<nano::wlearner_t>("wlearner", cat("wlearner ", id), w, [id] { return nano::wlearner_t::all().get(id); }, observe);
    if (reuse)
    {
        const std::shared_ptr<nano::wlearner_t> keep = w.clone();
        auto r = member_subject<nano::wlearner_t>("wlearner", cat("wlearner ", id, " (read into a fitted object)"), w, [keep] { return keep->clone(); }, observe);
        r.read_pristine = s.read;
        s               = std::move(r);
    }
    s.images = images_of(w);
    return s;
}

inline subject_t linear_subject(const nano::linear_t& m, const data_t* data, bool reuse = false)
{
    const auto id      = m.type_id();
    const auto observe = [data](const nano::linear_t& x) { return observe_linear(x, data); };
    auto       s       = member_subject<nano::linear_t>("linear", cat("linear ", id), m, [id] { return nano::linear_t::all().get(id); }, observe);
    if (reuse)
    {
        const std::shared_ptr<nano::linear_t> keep = m.clone();
        auto r = member_subject<nano::linear_t>("linear", cat("linear ", id, " (read into a fitted object)"), m, [keep] { return keep->clone(); }, observe);
        r.read_pristine = s.read;
        s               = std::move(r);
    }
    s.images = {image_of(m.bias()), image_of(m.weights())};
    return s;
}

inline subject_t gboost_subject(const nano::gboost_model_t& m, const data_t* data, bool with_predictions, bool reuse = false)
{
    const auto observe = [data, with_predictions](const nano::gboost_model_t& x)
    {
        auto r = observe_gboost(x, with_predictions ? data : nullptr);
        for (const auto& w : x.wlearners())
        {
            r += dtree_nodes(*w);
        }
        return r;
    };
    const auto label = cat("gboost model, ", m.wlearners().size(), " weak learners, ", m.prototypes().size(), " prototypes");
    auto       s     = member_subject<nano::gboost_model_t>("gboost", label, m, [] { return std::make_unique<nano::gboost_model_t>(); }, observe);
    if (reuse)
    {
        const auto keep = std::make_shared<nano::gboost_model_t>(m);
        auto       r    = member_subject<nano::gboost_model_t>("gboost", label + " (read into a fitted object)", m, [keep] { return std::make_unique<nano::gboost_model_t>(*keep); }, observe);
        r.read_pristine = s.read;
        s               = std::move(r);
    }
    s.images = images_of(m);
    s.nested = static_cast<int>(m.wlearners().size() + m.prototypes().size());
    return s;
}

inline nano::rwlearners_t make_prototypes(const std::vector<int>& protos, const std::vector<double>& u)
{
    nano::rwlearners_t r;
    size_t             shift = 0;
    for (const auto p : protos)
    {
        auto w = nano::wlearner_t::all().get(pick_id<nano::wlearner_t>(p));
        // rotate the choices so that two prototypes of one kind get different parameters
        std::vector<double> mine(u);
        if (!mine.empty())
        {
            std::rotate(mine.begin(), mine.begin() + static_cast<long>(++shift % mine.size()), mine.end());
        }
        randomize(*w, mine);
        r.push_back(std::move(w));
    }
    return r;
}

// ---------------------------------------------------------------------------------------
// fault engine
// ---------------------------------------------------------------------------------------
constexpr int default_heavy_alternatives()
{
#if defined(__SANITIZE_ADDRESS__)
    return 1;
#elif defined(__has_feature)
    #if __has_feature(address_sanitizer)
    return 1;
    #else
    return -1;
    #endif
#else
    return -1;
#endif
}

struct fault_plan_t
{
    bool     truncations{true};
    bool     payload{true};
    bool     header{true};
    bool     exhaustive_alternatives{false}; // all 255 alternatives per byte, else `sampled`
    int      sampled{8};
    size_t   max_payload_positions{512};     // per region; first and last element always included
    uint64_t seed{1};
    // alterations of the upper bytes of an extent make the reader allocate up to max_allocation_size_mb; cheap without a
    // sanitizer (untouched virtual memory), very expensive under ASan (shadow poisoning): the asan flavour samples them
    int heavy_alternatives{default_heavy_alternatives()};
};

// forking an ASan process costs tens of milliseconds (page tables of the shadow): the asan flavour confirms the
// crash-after-bad_alloc mechanism a few times per process and skips the remaining occurrences (the plain flavour runs all)
struct child_record_t
{
    long survived{0}, crashed{0};
};

inline child_record_t& child_record()
{
    static child_record_t record;
    return record;
}

inline long& child_budget()
{
    static long budget = default_heavy_alternatives() >= 0 ? 3 : (1L << 40);
    return budget;
}

struct fault_stats_t
{
    uint64_t truncations{0}, payload_alterations{0}, header_alterations{0};
    uint64_t by_state{0}, by_exception{0}, by_bad_alloc{0};
    uint64_t header_lenient{0}; // accepted header alteration with an unchanged element sequence
    uint64_t regions{0}, nonempty_regions{0}, max_elements{0};
    uint64_t collisions{0};
    uint64_t child_runs{0}, child_crashes{0}, child_skipped{0};
};

struct finding_t
{
    int         kind{0}; // 0 none, 1 violation, 2 known
    std::string sig, msg;
};

inline void count(const outcome_t& o, fault_stats_t& st)
{
    switch (o.how)
    {
    case 1: st.by_state++; break;
    case 2: st.by_exception++; break;
    case 3: st.by_bad_alloc++; break;
    default: break;
    }
}

inline std::string describe_success(const subject_t& s, const outcome_t& o)
{
    return cat("read returned normally with a good stream (consumed ", o.consumed, " bytes); re-read object re-serialises to ", o.rewritten.size(),
               " bytes (original ", s.bytes.size(), ")", o.rewritten == s.bytes ? ", identical to the original stream" : "", "; observed: ", clip(o.state, 300));
}

inline const char* known_collision_sig()
{
    return "C15/tensor-payload/accepted/checksum-collision";
}

// a header alteration that makes the reader request an allocation which fails (std::bad_alloc out of Eigen's
// resize) while the target tensor already owns a buffer: Eigen has released the old buffer before the allocation
// and keeps the dangling pointer, the destructor of the tensor frees it again
inline const char* crash_after_bad_alloc_sig()
{
    return "C15/header-alteration/bad_alloc-into-nonempty-tensor/crash";
}

// runs f in a forked child (the harness is single threaded outside the library's short-lived pools);
// 0: the child returned normally (exceptions are caught), otherwise 128 + signal or the exit code
template <class F>
int run_in_child(F&& f)
{
    std::fflush(stdout);
    std::fflush(stderr);
    const auto pid = ::fork();
    if (pid < 0)
    {
        return 0;
    }
    if (pid == 0)
    {
        verif::crash_state().path[0] = 0; // the parent's crash dump belongs to the parent
        const struct rlimit no_core = {0, 0};
        ::setrlimit(RLIMIT_CORE, &no_core);
        for (const int sig : {SIGSEGV, SIGABRT, SIGFPE, SIGBUS, SIGILL})
        {
            ::signal(sig, SIG_DFL);
        }
        const int fd = ::open("/dev/null", O_WRONLY);
        if (fd >= 0)
        {
            ::dup2(fd, 2);
        }
        try
        {
            f();
        }
        catch (...)
        {
        }
        ::_exit(0);
    }
    int status = 0;
    while (::waitpid(pid, &status, 0) < 0 && errno == EINTR)
    {
    }
    return WIFEXITED(status) ? WEXITSTATUS(status) : 128 + WTERMSIG(status);
}

inline finding_t sweep(const subject_t& s, const fault_plan_t& plan, fault_stats_t& st)
{
    const auto& bytes = s.bytes;
    const auto  n     = bytes.size();

    // 0. probe: a handful of the faults below, those that typical reader defects accept (ends of the stream and of
    //    each tensor).  They are all part of the full sweep; running them first makes a failing case fail fast,
    //    which keeps shrinking affordable (every shrink attempt re-runs the whole check).
    {
        const auto probe_regions = locate_regions(bytes, s.images);
        bytes_t    mutated       = bytes;
        if (plan.truncations && n > 0)
        {
            std::vector<size_t> offsets = {n - 1, 0, n / 2};
            for (const auto& region : probe_regions)
            {
                offsets.push_back(region.payload_begin());
                if (region.end() < n)
                {
                    offsets.push_back(region.end());
                }
                if (region.end() >= 1)
                {
                    offsets.push_back(region.end() - 1);
                }
            }
            for (const auto k : offsets)
            {
                if (k >= n)
                {
                    continue; // strict prefixes only
                }
                const auto o = s.read(bytes.data(), k, false);
                if (!o.failed)
                {
                    const auto again = s.read(bytes.data(), k, true);
                    return {1, cat("C15/", s.family, "/truncation/accepted"),
                            cat(s.label, ": prefix of ", k, " bytes of a ", n, "-byte stream: ", describe_success(s, again))};
                }
            }
        }
        if (plan.payload)
        {
            for (const auto& region : probe_regions)
            {
                if (region.payload_len == 0)
                {
                    continue;
                }
                for (const auto pos : {region.payload_len - 1, size_t(0), region.payload_len - region.esize, region.payload_len / 2})
                {
                    const auto at  = region.payload_begin() + pos;
                    const auto old = bytes[at];
                    mutated[at]    = static_cast<char>(old ^ 0x10);
                    const auto o   = s.read(mutated.data(), n, false);
                    if (!o.failed && !provable_hash_collision(bytes, region, mutated))
                    {
                        const auto again = s.read(mutated.data(), n, true);
                        return {1, cat("C15/", s.family, "/payload-alteration/accepted"),
                                cat(s.label, ": payload byte ", pos, " of the tensor at offset ", region.begin, " (element size ", region.esize, ", ", region.count,
                                    " elements) changed from ", static_cast<int>(static_cast<unsigned char>(old)), " to ",
                                    static_cast<int>(static_cast<unsigned char>(old ^ 0x10)), ": ", describe_success(s, again))};
                    }
                    mutated[at] = old;
                }
            }
        }
    }

    // 1. every strict prefix
    if (plan.truncations)
    {
        for (size_t k = 0; k < n; ++k)
        {
            const auto o = s.read(bytes.data(), k, false);
            st.truncations++;
            count(o, st);
            if (!o.failed)
            {
                const auto again = s.read(bytes.data(), k, true);
                return {1, cat("C15/", s.family, "/truncation/accepted"),
                        cat(s.label, ": prefix of ", k, " bytes of a ", n, "-byte stream: ", describe_success(s, again))};
            }
        }
    }

    const auto regions = locate_regions(bytes, s.images);
    st.regions += regions.size();
    prng_t     rng{plan.seed};
    bytes_t    mutated           = bytes;
    const auto original_payloads = payloads(bytes);
    finding_t  known; // first accepted alteration explained by a checksum collision (the sweep goes on behind it)

    const auto alternatives = [&](unsigned char old, std::vector<unsigned char>& out)
    {
        out.clear();
        if (plan.exhaustive_alternatives)
        {
            for (int d = 1; d < 256; ++d)
            {
                out.push_back(static_cast<unsigned char>(old ^ d));
            }
        }
        else
        {
            // single-bit flips and off-by-one are the classic corruptions, the rest is uniform
            out.push_back(static_cast<unsigned char>(old ^ (1U << rng.below(8))));
            out.push_back(static_cast<unsigned char>(old + 1));
            while (static_cast<int>(out.size()) < plan.sampled)
            {
                const auto d = static_cast<unsigned char>(1 + rng.below(255));
                out.push_back(static_cast<unsigned char>(old ^ d));
            }
        }
    };
    const auto dims_text = [](const region_t& region)
    {
        std::string d;
        for (const auto x : region.dims)
        {
            d += cat(x, " ");
        }
        return d;
    };

    std::vector<unsigned char> alts;
    for (const auto& region : regions)
    {
        st.max_elements = std::max<uint64_t>(st.max_elements, region.count);
        if (region.count > 0)
        {
            st.nonempty_regions++;
        }

        // 2. payload bytes
        if (plan.payload && region.payload_len > 0)
        {
            std::vector<size_t> positions;
            if (region.payload_len <= plan.max_payload_positions)
            {
                for (size_t i = 0; i < region.payload_len; ++i)
                {
                    positions.push_back(i);
                }
            }
            else
            {
                for (size_t i = 0; i < region.esize; ++i)
                {
                    positions.push_back(i);                          // first element
                    positions.push_back(region.payload_len - 1 - i); // last element
                }
                while (positions.size() < plan.max_payload_positions)
                {
                    positions.push_back(static_cast<size_t>(rng.below(region.payload_len)));
                }
            }
            for (const auto pos : positions)
            {
                const auto at  = region.payload_begin() + pos;
                const auto old = static_cast<unsigned char>(bytes[at]);
                alternatives(old, alts);
                for (const auto alt : alts)
                {
                    mutated[at]  = static_cast<char>(alt);
                    const auto o = s.read(mutated.data(), n, false);
                    st.payload_alterations++;
                    count(o, st);
                    if (!o.failed)
                    {
                        // mechanism predicate of the checksum-collision finding (see provable_hash_collision)
                        const bool match = provable_hash_collision(bytes, region, mutated);
                        const auto again = s.read(mutated.data(), n, true);
                        const auto msg   = cat(s.label, ": payload byte ", pos, " of the tensor at offset ", region.begin, " (dims ", dims_text(region),
                                               "element size ", region.esize, ") changed from ", static_cast<int>(old), " to ", static_cast<int>(alt), ": ",
                                               describe_success(s, again));
                        if (!match)
                        {
                            return {1, cat("C15/", s.family, "/payload-alteration/accepted"), msg};
                        }
                        st.collisions++;
                        if (known.kind == 0)
                        {
                            known = {2, known_collision_sig(), msg + " [nano::detail::hash of the altered payload equals that of the original payload]"};
                        }
                    }
                }
                mutated[at] = static_cast<char>(old);
            }
        }

        // 3. header bytes (lenient rule: failure, or an unchanged element sequence)
        if (plan.header)
        {
            for (size_t pos = 0; pos < region.header_len; ++pos)
            {
                const auto at  = region.begin + pos;
                const auto old = static_cast<unsigned char>(bytes[at]);
                alternatives(old, alts);
                const bool heavy = pos >= 8 && pos < 8 + 4 * region.dims.size() && (pos - 8) % 4 >= 1;
                if (heavy && plan.heavy_alternatives >= 0 && alts.size() > static_cast<size_t>(plan.heavy_alternatives))
                {
                    // lowest bit, sign/top bit, any other: rotating choice
                    const auto any = alts[static_cast<size_t>(rng.below(alts.size()))];
                    std::vector<unsigned char> few = {static_cast<unsigned char>(old ^ 0x01), static_cast<unsigned char>(old ^ 0x80), any};
                    std::rotate(few.begin(), few.begin() + static_cast<long>(rng.below(2)), few.end()); // a single one: never the arbitrary value
                    few.resize(std::min<size_t>(3, static_cast<size_t>(plan.heavy_alternatives)));
                    alts = few;
                }
                for (const auto alt : alts)
                {
                    mutated[at]  = static_cast<char>(alt);
                    if (s.read_pristine)
                    {
                        const auto pristine = s.read_pristine(mutated.data(), n, false);
                        if (pristine.how == 3 && child_record().crashed == 0 && child_record().survived >= 2)
                        {
                            // two children of this process survived this very situation and none died: the mechanism is absent
                            // in this build, the remaining alterations of this kind run in-process like all others
                        }
                        else if (pristine.how == 3 && (st.child_crashes > 0 || child_budget() <= 0))
                        {
                            // already demonstrated for this stream: not executed again (each crash costs a process)
                            st.header_alterations++;
                            st.child_skipped++;
                            continue;
                        }
                        else if (pristine.how == 3)
                        {
                            // the allocation fails: the read into the non-empty object runs in a child process
                            st.header_alterations++;
                            st.child_runs++;
                            child_budget()--;
                            count(pristine, st);
                            const int rc = run_in_child([&] { (void)s.read(mutated.data(), n, false); });
                            (rc != 0 ? child_record().crashed : child_record().survived)++;
                            if (rc != 0)
                            {
                                st.child_crashes++;
                                if (known.kind == 0)
                                {
                                    known = {2, crash_after_bad_alloc_sig(),
                                             cat(s.label, ": header byte ", pos, " of the tensor at offset ", region.begin, " (dims ", dims_text(region), "element size ",
                                                 region.esize, ") changed from ", static_cast<int>(old), " to ", static_cast<int>(alt),
                                                 ": reading into a pristine object fails with std::bad_alloc; reading into an object that already holds data kills the "
                                                 "process (child ",
                                                 rc >= 128 ? cat("died with signal ", rc - 128) : cat("exited with code ", rc), ")")};
                                }
                            }
                            continue;
                        }
                    }
                    const auto o = s.read(mutated.data(), n, false);
                    st.header_alterations++;
                    count(o, st);
                    if (!o.failed)
                    {
                        if (payloads(o.rewritten) == original_payloads)
                        {
                            st.header_lenient++;
                            continue;
                        }
                        const bool match  = provable_hash_collision(bytes, region, mutated);
                        const bool parsed = true;
                        const auto again  = s.read(mutated.data(), n, true);
                        const auto msg    = cat(s.label, ": header byte ", pos, " of the tensor at offset ", region.begin, " (dims ", dims_text(region),
                                                "element size ", region.esize, ") changed from ", static_cast<int>(old), " to ", static_cast<int>(alt), ": ",
                                                describe_success(s, again));
                        if (!(parsed && match))
                        {
                            return {1, cat("C15/", s.family, "/header-alteration/accepted-different-elements"), msg};
                        }
                        st.collisions++;
                        if (known.kind == 0)
                        {
                            known = {2, known_collision_sig(), msg + " [nano::detail::hash over the altered extent equals that of the original payload]"};
                        }
                    }
                }
                mutated[at] = static_cast<char>(old);
            }
        }
    }
    return known;
}

// round trip of the complete stream: success, everything consumed, same observation, same bytes
inline finding_t round_trip(const subject_t& s)
{
    const auto o = s.read(s.bytes.data(), s.bytes.size(), true);
    if (o.failed)
    {
        return {1, cat("C15/", s.family, "/roundtrip/read-failed"),
                cat(s.label, ": reading back the complete ", s.bytes.size(), "-byte stream failed (", o.how == 1 ? "stream state" : o.what, ")")};
    }
    if (o.consumed != static_cast<long>(s.bytes.size()))
    {
        return {1, cat("C15/", s.family, "/roundtrip/consumed"), cat(s.label, ": consumed ", o.consumed, " of ", s.bytes.size(), " bytes")};
    }
    if (o.state != s.state)
    {
        size_t at = 0;
        while (at < o.state.size() && at < s.state.size() && o.state[at] == s.state[at])
        {
            ++at;
        }
        return {1, cat("C15/", s.family, "/roundtrip/observation-differs"),
                cat(s.label, ": first difference at char ", at, ": original ...", clip(s.state.substr(at > 40 ? at - 40 : 0), 200), " re-read ...",
                    clip(o.state.substr(at > 40 ? at - 40 : 0), 200))};
    }
    if (o.rewritten != s.bytes)
    {
        size_t at = 0;
        while (at < o.rewritten.size() && at < s.bytes.size() && o.rewritten[at] == s.bytes[at])
        {
            ++at;
        }
        return {1, cat("C15/", s.family, "/roundtrip/bytes-differ"),
                cat(s.label, ": re-serialised stream differs at offset ", at, " (sizes ", s.bytes.size(), " / ", o.rewritten.size(), ")")};
    }
    // the same valid stream stored in a file and read through a std::ifstream (every stream above 4 KiB, a quarter of the others)
    if (s.bytes.size() >= 4096 || s.bytes.size() % 4 == 0)
    {
        file_mode()  = true;
        const auto f = s.read(s.bytes.data(), s.bytes.size(), true);
        file_mode()  = false;
        if (f.failed)
        {
            return {1, cat("C15/", s.family, "/roundtrip/file-stream/read-failed"),
                    cat(s.label, ": reading back the complete ", s.bytes.size(), "-byte stream from a file failed (", f.how == 1 ? "stream state" : f.what, ")")};
        }
        if (f.consumed != static_cast<long>(s.bytes.size()) || f.state != s.state || f.rewritten != s.bytes)
        {
            return {1, cat("C15/", s.family, "/roundtrip/file-stream/differs"),
                    cat(s.label, ": consumed ", f.consumed, " of ", s.bytes.size(), " bytes; observation ", f.state == s.state ? "equal" : "differs", "; bytes ",
                        f.rewritten == s.bytes ? "equal" : "differ")};
        }
    }
    return {};
}
} // namespace c15
