// C11 (part b) — fitted linear / gradient-boosting models reproduce the statistics they report
// (DESIGN.md section 5, C11; notes/C11.md).
//
//   "After fitting a linear or gradient-boosting model with any loss, splitter, tuner and hyper-parameters, the
//    per-trial/per-fold and final error and loss statistics in the returned result equal those recomputed from scratch
//    by predicting with the corresponding stored model on the corresponding samples; the boosting model's prediction is
//    its bias plus the sum of its weak learners' predictions, and the final boosting model predicts the average of the
//    per-fold models of the optimum trial. [early stopping] reports the round of the last accepted improvement with
//    that round's per-sample values, which is the number of weak learners the returned fold model keeps."
//
// Oracle = translation of the returned ml::result_t back through the lower-level API: the (deterministic, seeded)
// splitter is re-run to obtain each fold's indices, predictions are composed by the harness (linear: W.x+b on the
// un-scaled flatten inputs; boosting: bias + sum of the individual weak learners' predictions), per-sample errors and
// loss values come from loss_t::error/value on those predictions, and mean / stdev / count / percentiles are recomputed
// from the per-sample values.  Nothing is compared with a second run of the fitting code.
#include "c11_reference.h"
#include "common.h"
#include "dataset_gen.h"

#include <filesystem>
#include <sys/wait.h>
#include <nano/core/verif.h>
#include <nano/dataset.h>
#include <nano/gboost/enums.h>
#include <nano/gboost/model.h>
#include <nano/gboost/result.h>
#include <nano/generator/elemwise_identity.h>
#include <nano/linear.h>
#include <nano/linear/result.h>
#include <nano/loss.h>
#include <nano/machine/params.h>
#include <nano/machine/result.h>
#include <nano/splitter.h>
#include <nano/tuner.h>
#include <nano/wlearner.h>
#include <nano/wlearner/criterion.h>

using namespace verif;
using namespace verif::c11;
using verif::ds::data_spec_t;

namespace
{
using nano::indices_t;
using nano::scalar_t;
using nano::tensor2d_t;
using nano::tensor4d_t;
using nano::tensor_size_t;

constexpr double rel_tol = 1e-9; // DESIGN.md section 5, C11: statistics and predictions compared at 1e-9 relative

const char* const linear_ids[]   = {"ordinary", "lasso", "ridge", "elastic_net"};
const char* const wlearner_ids[] = {"affine", "stump", "hinge", "dense-table", "kbest-table", "ksplit-table", "dstep-table", "dtree"};
const char* const reg_losses[]   = {"mse", "mae", "cauchy", "pinball"};
const char* const s_losses[]     = {"s-classnll", "s-logistic", "s-hinge", "s-squared-hinge", "s-exponential", "s-savage", "s-tangent"};
const char* const m_losses[]     = {"m-logistic", "m-hinge", "m-squared-hinge", "m-exponential", "m-savage", "m-tangent"};

// ---------------------------------------------------------------------------------------------------
// case
// ---------------------------------------------------------------------------------------------------
struct mcase_t
{
    data_spec_t      data;
    std::vector<int> excluded; // sample indices NOT given to fit()
    int              model{0}; // 0..3 = linear_ids, 4 = gradient boosting
    int              loss{0};  // index into the loss list matching the target
    double           alpha{0.5};
    int              scaling{0}, batch{100};
    int              splitter{0}, folds{2}, split_seed{42}, train_per{80};
    int              tuner{0}, tuner_evals{10};
    int              solver_evals{50};
    double           solver_eps{1e-6};
    int              threads{1};
    // gradient boosting
    std::vector<int> pool;
    int              dtree_depth{2}, dtree_split{3}, criterion{2};
    int              shrinkage{0}, subsample{0}, wscale{0};
    double           ratio{1.0};
    int              gb_seed{42}, max_rounds{10}, patience{2};
    double           epsilon{1e-6};
    int              rng{1};

    template <class A>
    void io(A& a)
    {
        data.io(a);
        a("excluded", excluded);
        a("model", model);
        a("loss", loss);
        a("alpha", alpha);
        a("scaling", scaling);
        a("batch", batch);
        a("splitter", splitter);
        a("folds", folds);
        a("split_seed", split_seed);
        a("train_per", train_per);
        a("tuner", tuner);
        a("tuner_evals", tuner_evals);
        a("solver_evals", solver_evals);
        a("solver_eps", solver_eps);
        a("threads", threads);
        a("pool", pool);
        a("dtree_depth", dtree_depth);
        a("dtree_split", dtree_split);
        a("criterion", criterion);
        a("shrinkage", shrinkage);
        a("subsample", subsample);
        a("wscale", wscale);
        a("ratio", ratio);
        a("gb_seed", gb_seed);
        a("max_rounds", max_rounds);
        a("patience", patience);
        a("epsilon", epsilon);
        a("rng", rng);
    }
};

// ---------------------------------------------------------------------------------------------------
// generator
// ---------------------------------------------------------------------------------------------------
// number of target components the planted scores need (after forcing >= 2 classes for single-label targets)
int target_components(const data_spec_t& d)
{
    const auto s = d.spec(d.target);
    return s.is_sclass() ? std::max(2, s.classes) : s.is_mclass() ? s.classes : s.dsize();
}

// replace the (independent, random) target column of a generated data source by a noisy function of the inputs, so that
// boosting rounds and regularisation strengths matter: scores_k = sum_j a_kj phi_j + b_kj sign(phi_j) + noise
data_spec_t plant_targets(data_spec_t d, const std::vector<double>& coeffs, const std::vector<double>& noise, double level)
{
    const auto t      = static_cast<size_t>(d.target);
    const auto s      = d.spec(d.target);
    const auto K      = target_components(d);
    const auto inputs = d.inputs();
    const auto J      = static_cast<int>(inputs.size());

    if (s.is_sclass())
    {
        d.classes[t] = K;
    }
    d.values[t].assign(static_cast<size_t>(d.samples) * static_cast<size_t>(s.is_sclass() ? 1 : K), 0.0);

    for (int i = 0; i < d.samples; ++i)
    {
        std::vector<double> score(static_cast<size_t>(K), 0.0);
        for (int k = 0; k < K; ++k)
        {
            double v = 0.0;
            for (int j = 0; j < J; ++j)
            {
                const auto f  = inputs[static_cast<size_t>(j)];
                const auto fs = d.spec(f);
                double     phi = 0.0;
                if (d.given(f, i))
                {
                    const auto x = d.stored(f, i, 0);
                    phi          = fs.is_sclass() ? x - 0.5 * (fs.classes - 1) : fs.is_mclass() ? 2.0 * x - 1.0 : std::max(-5.0, std::min(5.0, x));
                }
                v += coeffs[static_cast<size_t>((k * J + j) * 2 + 0)] * phi;
                v += coeffs[static_cast<size_t>((k * J + j) * 2 + 1)] * (phi > 0.0 ? 1.0 : -1.0);
            }
            score[static_cast<size_t>(k)] = v + level * noise[static_cast<size_t>(i * K + k)];
        }
        if (s.is_sclass())
        {
            d.values[t][static_cast<size_t>(i)] = static_cast<double>(std::max_element(score.begin(), score.end()) - score.begin());
        }
        else
        {
            for (int k = 0; k < K; ++k)
            {
                d.values[t][static_cast<size_t>(i * K + k)] = s.is_mclass() ? (score[static_cast<size_t>(k)] > 0.0 ? 1.0 : 0.0) : score[static_cast<size_t>(k)];
            }
        }
    }
    return d;
}

rc::Gen<mcase_t> gen_mcase_of(bool gboost)
{
    ds::gen_options_t o;
    o.min_samples         = 20;
    o.max_samples         = 120;
    o.min_inputs          = 1;
    o.max_inputs          = 6;
    o.allow_integer_types = false; // storage types are C08's business; extreme integer values only make the fits overflow
    o.allow_missing       = gboost; // a missing input makes every linear prediction NaN
    o.allow_struct        = !gboost;
    o.max_classes         = 4;
    o.value_range         = 3.0;

    return rc::gen::mapcat(
        rc::gen::tuple(gen::range<int>(0, 9), rc::gen::arbitrary<bool>()),
        [=](const std::tuple<int, bool>& tk)
        {
            auto oo        = o;
            const auto pick = std::get<0>(tk);
            oo.target_kind  = pick <= 3 ? 1 : pick <= 5 ? 2 : pick <= 7 ? 3 : 4; // scalar regression, sclass, mclass, structured regression
            if (std::get<1>(tk))
            {
                oo.max_samples = 40; // small data sets: the folds are tiny
            }
            return rc::gen::mapcat(
                rc::gen::noShrink(ds::gen_data(oo)), // (every shrink attempt is a full fit: only the configuration shrinks)
                [=](const data_spec_t& d0)
                {
                    const auto K = target_components(d0);
                    const auto J = static_cast<int>(d0.inputs().size());
                    const auto n = d0.samples;

                    const auto planted = rc::gen::noShrink(rc::gen::map(
                        rc::gen::tuple(gen::vec(static_cast<size_t>(2 * K * J), 1.0), rc::gen::container<std::vector<double>>(static_cast<size_t>(n * K), gen::normal()),
                                       gen::real(0.05, 1.5)),
                        [d0](const std::tuple<std::vector<double>, std::vector<double>, double>& cn)
                        { return plant_targets(d0, std::get<0>(cn), std::get<1>(cn), std::get<2>(cn)); }));

                    const auto excluded = rc::gen::noShrink(rc::gen::mapcat(gen::range<int>(0, 3),
                                                          [n](int style) -> rc::Gen<std::vector<int>>
                                                          {
                                                              if (style <= 1)
                                                              {
                                                                  return rc::gen::just(std::vector<int>{});
                                                              }
                                                              // up to n-16 (at most a third) of the samples are left out
                                                              const auto most = std::max(0, std::min(n - 16, n / 3));
                                                              return rc::gen::mapcat(gen::range<int>(0, most),
                                                                                     [n](int k) {
                                                                                         return rc::gen::container<std::vector<int>>(static_cast<size_t>(k), gen::range<int>(0, n - 1));
                                                                                     });
                                                          }));

                    const auto common = rc::gen::tuple(
                        /*0 loss*/ gen::range<int>(0, 6), /*1 alpha*/ rc::gen::element(0.5, 0.1, 0.9, 0.25), /*2 scaling*/ gen::range<int>(0, 3),
                        /*3 batch*/ rc::gen::element(10, 16, 100, 33), /*4 splitter*/ gen::range<int>(0, 1), /*5 folds*/ rc::gen::element(2, 3, 3, 4, 5),
                        /*6 seed*/ gen::range<int>(0, 1024), /*7 train_per*/ rc::gen::element(80, 50, 66, 90, 25), /*8 tuner*/ gen::range<int>(0, 1),
                        /*9 tuner evals*/ gen::range<int>(10, 20), /*10 solver evals*/ rc::gen::element(10, 20, 50, 100), /*11 solver eps*/ rc::gen::element(1e-6, 1e-4, 1e-3),
                        /*12 threads*/ rc::gen::element(1, 2, 4), /*13 rng*/ gen::range<int>(1, 1 << 20));

                    const auto booster = rc::gen::tuple(
                        /*0 pool*/ rc::gen::mapcat(gen::range<int>(1, 4), [](int k) { return rc::gen::container<std::vector<int>>(static_cast<size_t>(k), gen::range<int>(0, 7)); }),
                        /*1 depth*/ gen::range<int>(1, 3), /*2 split*/ gen::range<int>(1, 6), /*3 criterion*/ gen::range<int>(0, 3),
                        /*4 shrinkage*/ rc::gen::element(0, 1, 1, 2), /*5 subsample*/ rc::gen::element(0, 0, 1, 2, 3, 4), /*6 wscale*/ gen::range<int>(0, 1),
                        /*7 ratio: the whole domain (0, 1], incl. ratio * #train < 1*/ rc::gen::oneOf(rc::gen::element(1.0, 0.5, 0.8, 0.35), rc::gen::element(1.0, 0.5, 0.8, 0.35), gen::logu(1e-3, 1.0), rc::gen::element(1.0, 0.05, 0.01, 0.1)), /*8 seed*/ gen::range<int>(0, 1024), /*9 rounds*/ gen::range<int>(10, 12),
                        /*10 patience*/ gen::range<int>(1, 4),
                        /*11 epsilon*/ rc::gen::oneOf(gen::logu(1e-12, 1e-3), gen::logu(1e-3, 1.0), rc::gen::element(1e-12, 1e-6, 1.0)),
                        /*12 linear model*/ gen::range<int>(0, 5));

                    return rc::gen::map(rc::gen::tuple(planted, excluded, common, booster),
                                        [gboost](const auto& all)
                                        {
                                            const auto& cm = std::get<2>(all);
                                            const auto& gb = std::get<3>(all);
                                            mcase_t     c;
                                            c.data         = std::get<0>(all);
                                            c.excluded     = std::get<1>(all);
                                            c.loss         = std::get<0>(cm);
                                            c.alpha        = std::get<1>(cm);
                                            c.scaling      = std::get<2>(cm);
                                            c.batch        = std::get<3>(cm);
                                            c.splitter     = std::get<4>(cm);
                                            c.folds        = std::get<5>(cm);
                                            c.split_seed   = std::get<6>(cm);
                                            c.train_per    = std::get<7>(cm);
                                            c.tuner        = std::get<8>(cm);
                                            c.tuner_evals  = std::get<9>(cm);
                                            c.solver_evals = std::get<10>(cm);
                                            c.solver_eps   = std::get<11>(cm);
                                            c.threads      = std::get<12>(cm);
                                            c.rng          = std::get<13>(cm);
                                            c.pool         = std::get<0>(gb);
                                            c.dtree_depth  = std::get<1>(gb);
                                            c.dtree_split  = std::get<2>(gb);
                                            c.criterion    = std::get<3>(gb);
                                            c.shrinkage    = std::get<4>(gb);
                                            c.subsample    = std::get<5>(gb);
                                            c.wscale       = std::get<6>(gb);
                                            c.ratio        = std::get<7>(gb);
                                            c.gb_seed      = std::get<8>(gb);
                                            c.max_rounds   = std::get<9>(gb);
                                            c.patience     = std::get<10>(gb);
                                            c.epsilon      = std::get<11>(gb);
                                            // linear: ordinary once in six, the tuned ones otherwise (lasso, ridge twice, elastic net twice)
                                            const int lin[] = {0, 1, 2, 2, 3, 3};
                                            c.model         = gboost ? 4 : lin[std::get<12>(gb)];
                                            return c;
                                        });
                });
        });
}

rc::Gen<mcase_t> gen_linear()
{
    return gen_mcase_of(false);
}

rc::Gen<mcase_t> gen_gboost()
{
    return gen_mcase_of(true);
}

// ---------------------------------------------------------------------------------------------------
// recomputation helpers
// ---------------------------------------------------------------------------------------------------
enum class cmp_t
{
    ok,
    borderline,
    bad
};

struct outcome_t
{
    cmp_t       worst{cmp_t::ok};
    std::string where, msg; // of the first `bad` (or, failing that, the first borderline)

    void add(cmp_t c, const std::string& w, const std::string& m)
    {
        if (c == cmp_t::ok)
        {
            return;
        }
        if (worst == cmp_t::ok || (worst == cmp_t::borderline && c == cmp_t::bad))
        {
            worst = c;
            where = w;
            msg   = m;
        }
    }

    bool bad() const { return worst == cmp_t::bad; }
};

cmp_t closeness(double got, double want, double tol)
{
    const auto diff = std::fabs(got - want);
    if (diff <= tol)
    {
        return cmp_t::ok;
    }
    return diff <= 10.0 * tol ? cmp_t::borderline : cmp_t::bad; // NaN => bad
}

indices_t to_indices(const std::vector<int>& v)
{
    indices_t r(static_cast<tensor_size_t>(v.size()));
    for (size_t i = 0; i < v.size(); ++i)
    {
        r(static_cast<tensor_size_t>(i)) = v[i];
    }
    return r;
}

// predictions: samples x components, plus the magnitude of the terms each one was summed from
struct preds_t
{
    tensor4d_t          outputs;
    std::vector<double> scale; // per element: sum of |terms|

    bool finite() const
    {
        for (tensor_size_t i = 0; i < outputs.size(); ++i)
        {
            if (!(std::fabs(outputs(i)) <= 1e100))
            {
                return false;
            }
        }
        return true;
    }
};

// the harness's own composition of a linear model: y = W x + b on the un-scaled flatten inputs
preds_t predict_linear(const nano::dataset_t& dataset, const indices_t& samples, const tensor2d_t& weights, const nano::tensor1d_t& bias)
{
    tensor2d_t buffer;
    const auto inputs  = dataset.flatten(samples, buffer);
    const auto tsize   = weights.rows();
    const auto columns = weights.cols();

    preds_t p;
    p.outputs.resize(nano::cat_dims(samples.size(), dataset.target_dims()));
    p.scale.assign(static_cast<size_t>(p.outputs.size()), 0.0);
    for (tensor_size_t i = 0; i < samples.size(); ++i)
    {
        for (tensor_size_t t = 0; t < tsize; ++t)
        {
            long double sum = bias(t), mag = std::fabs(bias(t));
            for (tensor_size_t c = 0; c < columns; ++c)
            {
                const long double term = static_cast<long double>(weights(t, c)) * static_cast<long double>(inputs(i, c));
                sum += term;
                mag += std::fabs(term);
            }
            p.outputs(i * tsize + t)                    = static_cast<double>(sum);
            p.scale[static_cast<size_t>(i * tsize + t)] = static_cast<double>(mag);
        }
    }
    return p;
}

// the harness's own composition of a boosting model: bias + sum of the weak learners' individual predictions
preds_t predict_boosted(const nano::dataset_t& dataset, const indices_t& samples, const nano::tensor1d_t& bias, const nano::rwlearners_t& wlearners)
{
    preds_t p;
    p.outputs.resize(nano::cat_dims(samples.size(), dataset.target_dims()));
    const auto tsize = bias.size();
    p.scale.assign(static_cast<size_t>(p.outputs.size()), 0.0);
    std::vector<long double> sums(static_cast<size_t>(p.outputs.size()), 0.0L);
    for (tensor_size_t i = 0; i < samples.size(); ++i)
    {
        for (tensor_size_t t = 0; t < tsize; ++t)
        {
            sums[static_cast<size_t>(i * tsize + t)]    = bias(t);
            p.scale[static_cast<size_t>(i * tsize + t)] = std::fabs(bias(t));
        }
    }
    for (const auto& wlearner : wlearners)
    {
        const tensor4d_t own = wlearner->predict(dataset, samples); // starts from zero: this weak learner's contribution only
        for (tensor_size_t k = 0; k < own.size(); ++k)
        {
            sums[static_cast<size_t>(k)] += own(k);
            p.scale[static_cast<size_t>(k)] += std::fabs(own(k));
        }
    }
    for (tensor_size_t k = 0; k < p.outputs.size(); ++k)
    {
        p.outputs(k) = static_cast<double>(sums[static_cast<size_t>(k)]);
    }
    return p;
}

// |a - b| <= 1e-9 * (sum of |terms|) element-wise
void compare_outputs(outcome_t& out, const std::string& where, const tensor4d_t& got, const preds_t& want, const std::vector<double>* extra_scale = nullptr)
{
    if (got.size() != want.outputs.size())
    {
        out.add(cmp_t::bad, where + "/shape", cat("sizes ", got.size(), " vs ", want.outputs.size()));
        return;
    }
    for (tensor_size_t k = 0; k < got.size(); ++k)
    {
        const auto scale = want.scale[static_cast<size_t>(k)] + (extra_scale != nullptr ? (*extra_scale)[static_cast<size_t>(k)] : 0.0);
        const auto tol   = rel_tol * scale + 1e-300;
        const auto c     = closeness(got(k), want.outputs(k), tol);
        if (c != cmp_t::ok)
        {
            out.add(c, where, cat("element ", k, ": ", got(k), " vs ", want.outputs(k), " (sum of |terms| ", scale, ")"));
        }
    }
}

// per-sample errors and loss values of the given predictions
struct values_t
{
    std::vector<double> errors, losses;
    bool                fragile{false}; // an error value is decided by the last bits of a prediction (classification)
    // predictions are compared at 1e-9 x (sum of |terms|): the largest change of a per-sample error / loss value such a
    // difference in the outputs induces (measured by perturbing the outputs) is the absolute part of the tolerance of
    // every statistic computed from them (matters when losses are ~0: (1 - t.o)^2 at t.o ~ 1, squared residuals ~ 0)
    double etol{0.0}, ltol{0.0};
};

values_t evaluate_preds(const nano::dataset_t& dataset, const indices_t& samples, const nano::loss_t& loss, const preds_t& p, int target_kind)
{
    tensor4d_t buffer;
    const auto targets = dataset.targets(samples, buffer);
    nano::tensor1d_t errors(samples.size()), losses(samples.size());
    loss.error(targets, p.outputs, errors.tensor());
    loss.value(targets, p.outputs, losses.tensor());

    values_t v;
    for (tensor_size_t i = 0; i < samples.size(); ++i)
    {
        v.errors.push_back(errors(i));
        v.losses.push_back(losses(i));
    }
    for (int pattern = 0; pattern < 4; ++pattern)
    {
        tensor4d_t       moved = p.outputs;
        nano::tensor1d_t e2(samples.size()), l2(samples.size());
        for (tensor_size_t k = 0; k < moved.size(); ++k)
        {
            const auto sign = pattern == 0 ? 1.0 : pattern == 1 ? -1.0 : ((k + pattern) % 2 == 0 ? 1.0 : -1.0);
            moved(k) += sign * 4.0 * rel_tol * p.scale[static_cast<size_t>(k)];
        }
        loss.error(targets, moved, e2.tensor());
        loss.value(targets, moved, l2.tensor());
        for (tensor_size_t i = 0; i < samples.size(); ++i)
        {
            if (target_kind == 0 && std::isfinite(e2(i)))
            {
                v.etol = std::max(v.etol, std::fabs(e2(i) - errors(i)));
            }
            if (std::isfinite(l2(i)))
            {
                v.ltol = std::max(v.ltol, std::fabs(l2(i) - losses(i)));
            }
        }
    }
    // classification errors are step functions of the outputs: a prediction within the comparison tolerance of a
    // decision boundary (output ~ 0, or the two largest scores equal) makes the 0/1 error depend on rounding
    if (target_kind != 0)
    {
        const auto tsize = p.outputs.size() / std::max<tensor_size_t>(samples.size(), 1);
        for (tensor_size_t i = 0; i < samples.size() && !v.fragile; ++i)
        {
            double top = -std::numeric_limits<double>::infinity(), second = top, mag = 0.0;
            for (tensor_size_t t = 0; t < tsize; ++t)
            {
                const auto o = p.outputs(i * tsize + t);
                const auto s = p.scale[static_cast<size_t>(i * tsize + t)];
                mag          = std::max(mag, s);
                if (o > top)
                {
                    second = top;
                    top    = o;
                }
                else if (o > second)
                {
                    second = o;
                }
                if ((target_kind == 2 || tsize == 1) && std::fabs(o) <= 100.0 * rel_tol * s + 1e-12)
                {
                    v.fragile = true; // sign of an output
                }
            }
            if (target_kind == 1 && tsize > 1 && (top - second) <= 100.0 * rel_tol * mag + 1e-12)
            {
                v.fragile = true; // arg-max
            }
        }
    }
    return v;
}

// finite and small enough for sums of squares (a diverged fit, e.g. an overflowing exponential loss, is outside this property)
bool all_finite(const std::vector<double>& v)
{
    for (const auto x : v)
    {
        if (!(std::fabs(x) <= 1e100))
        {
            return false;
        }
    }
    return true;
}

// mean / stdev / count / percentiles recomputed from the per-sample values and compared with the stored ones.
//   stdev is the library's `tensor.stdev()` statistic, whose definition is pinned by the baseline suite
//   (test/test_stats.cpp: sqrt(population variance / (n - 1))); percentile positions as in harness/c20_stats.cpp.
void compare_stats(outcome_t& out, ctx_t& ctx, const std::string& where, const nano::ml::stats_t& got, std::vector<double> values, double abs_tol)
{
    const auto n = values.size();
    if (n == 0)
    {
        return;
    }
    std::sort(values.begin(), values.end());
    long double sum = 0.0L, sum2 = 0.0L, asum = 0.0L;
    for (const auto v : values)
    {
        sum += v;
        sum2 += static_cast<long double>(v) * v;
        asum += std::fabs(v);
    }
    const auto dn      = static_cast<long double>(n);
    const auto mean    = static_cast<double>(sum / dn);
    const auto meanabs = static_cast<double>(asum / dn);
    const auto tol     = [&](double want) { return rel_tol * (std::fabs(want) + meanabs) + abs_tol + 1e-300; };

    if (got.m_count != static_cast<double>(n))
    {
        out.add(cmp_t::bad, where + "/count", cat("count=", got.m_count, " samples=", n));
    }
    out.add(closeness(got.m_mean, mean, tol(mean)), where + "/mean", cat("mean=", got.m_mean, " recomputed=", mean, " n=", n));

    // two-pass variance in long double
    long double ss = 0.0L;
    for (const auto v : values)
    {
        const auto d = static_cast<long double>(v) - sum / dn;
        ss += d * d;
    }
    const auto var   = n > 1 ? static_cast<double>(ss / dn / (dn - 1.0L)) : 0.0; // stdev^2
    const auto stdev = std::sqrt(var);
    // the one-pass formula the statistic is defined by cancels: its variance carries an absolute rounding error of
    // ~eps * mean(x^2); a value inside that band (including a NaN from a slightly negative variance) is "equal up to rounding"
    //   (+ the underflow quantum: squares of values below ~1e-154 are sub-normal doubles and carry an ABSOLUTE error of
    //   denorm_min / 2 each, e.g. losses of 1e-161 whose squares keep 5 bits)
    const auto band = n > 1 ? 1e3 * deps * static_cast<double>(sum2 / dn / (dn - 1.0L)) + 1e3 * std::numeric_limits<double>::denorm_min() : 0.0;
    auto       cs   = closeness(got.m_stdev, stdev, tol(stdev));
    if (cs != cmp_t::ok)
    {
        const auto in_band = std::isnan(got.m_stdev) ? (var <= band) : (std::fabs(got.m_stdev * got.m_stdev - var) <= band);
        if (in_band)
        {
            ctx.label(std::isnan(got.m_stdev) ? "stdev-cancellation-nan" : "stdev-cancellation");
            cs = cmp_t::ok;
        }
    }
    out.add(cs, where + "/stdev", cat("stdev=", got.m_stdev, " recomputed=", stdev, " n=", n));

    const int    ps[]    = {1, 5, 10, 20, 50, 80, 90, 95, 99};
    const double gots[]  = {got.m_per01, got.m_per05, got.m_per10, got.m_per20, got.m_per50, got.m_per80, got.m_per90, got.m_per95, got.m_per99};
    for (int i = 0; i < 9; ++i)
    {
        const auto q    = static_cast<size_t>(ps[i]) * (n - 1); // exact position = q / 100
        const auto lo   = q / 100;
        const auto hi   = lo + (q % 100 != 0 ? 1U : 0U);
        const auto want = lo == hi ? values[lo] : (values[lo] + values[hi]) / 2;
        out.add(closeness(gots[i], want, tol(want)), cat(where, "/percentile"), cat("p", ps[i], "=", gots[i], " recomputed=", want, " n=", n));
    }
}

std::string split_name(int split)
{
    return split == 0 ? "train" : "valid";
}

std::vector<double> row_of(const tensor2d_t& t, tensor_size_t row)
{
    std::vector<double> v;
    for (tensor_size_t i = 0; i < t.size<1>(); ++i)
    {
        v.push_back(t(row, i));
    }
    return v;
}

// ---------------------------------------------------------------------------------------------------
// the check
// ---------------------------------------------------------------------------------------------------
struct setup_t
{
    nano::rloss_t      loss;
    nano::ml::params_t params;
    indices_t          samples;
    int                target_kind{0}; // 0 regression, 1 single-label, 2 multi-label
};

void remove_logs(const nano::ml::result_t& result)
{
    std::error_code ec;
    for (tensor_size_t trial = 0; trial < result.trials(); ++trial)
    {
        for (tensor_size_t fold = 0; fold < result.folds(); ++fold)
        {
            std::filesystem::remove(result.log_path(trial, fold), ec);
        }
    }
    std::filesystem::remove(result.refit_log_path(), ec);
}

verdict_t finish(const outcome_t& out, const std::string& model)
{
    if (out.worst == cmp_t::bad)
    {
        return verdict_t::violation(cat("C11/", model, "/", out.where), out.msg);
    }
    if (out.worst == cmp_t::borderline)
    {
        return verdict_t::borderline(cat(model, "/", out.where));
    }
    return verdict_t::ok();
}

verdict_t check_mcase(const mcase_t& c, ctx_t& ctx)
{
    const auto& d = c.data;
    if (!d.valid() || d.target < 0 || d.samples < 16 || c.model < 0 || c.model > 4 || c.folds < 2 || c.folds > 10 || c.threads < 1 || c.threads > 8)
    {
        return verdict_t::discard("malformed");
    }
    const bool gboost = c.model == 4;
    const auto tspec  = d.spec(d.target);
    if ((tspec.is_sclass() && tspec.classes < 2) || (gboost && c.pool.empty()))
    {
        return verdict_t::discard("malformed");
    }

    nano::verif::rng_state().store(static_cast<uint64_t>(c.rng) * 2U + 1U);
    ::setenv("NANO_VERIF_MAX_THREADS", cat(c.threads).c_str(), 1);

    setup_t s;
    s.target_kind = tspec.is_sclass() ? 1 : tspec.is_mclass() ? 2 : 0;
    std::string loss_id;
    try
    {
        // samples given to fit(): all but the excluded ones, increasing
        std::vector<char> drop(static_cast<size_t>(d.samples), 0);
        for (const auto e : c.excluded)
        {
            if (e >= 0 && e < d.samples)
            {
                drop[static_cast<size_t>(e)] = 1;
            }
        }
        std::vector<int> keep;
        for (int i = 0; i < d.samples; ++i)
        {
            if (drop[static_cast<size_t>(i)] == 0)
            {
                keep.push_back(i);
            }
        }
        if (keep.size() < 16)
        {
            return verdict_t::discard("too-few-samples");
        }
        s.samples = to_indices(keep);

        loss_id = s.target_kind == 0   ? reg_losses[static_cast<size_t>(c.loss) % 4]
                  : s.target_kind == 1 ? s_losses[static_cast<size_t>(c.loss) % 7]
                                       : m_losses[static_cast<size_t>(c.loss) % 6];
        s.loss  = nano::loss_t::all().get(loss_id);
        if (loss_id == "pinball")
        {
            s.loss->parameter("loss::pinball::alpha") = c.alpha;
        }

        auto splitter                           = nano::splitter_t::all().get(c.splitter == 0 ? "k-fold" : "random");
        splitter->parameter("splitter::folds")  = c.folds;
        splitter->parameter("splitter::seed")   = c.split_seed;
        if (c.splitter != 0)
        {
            splitter->parameter("splitter::random::train_per") = c.train_per;
        }
        auto tuner                              = nano::tuner_t::all().get(c.tuner == 0 ? "local-search" : "surrogate");
        tuner->parameter("tuner::max_evals")    = c.tuner_evals;
        auto solver                             = nano::solver_t::all().get("lbfgs");
        solver->parameter("solver::max_evals")  = c.solver_evals;
        solver->parameter("solver::epsilon")    = c.solver_eps;
        s.params.splitter(*splitter).tuner(*tuner).solver(*solver);
    }
    catch (const std::exception&)
    {
        return verdict_t::discard("setup-rejected"); // a replay file with values outside a parameter's domain
    }

    // ---- open finding (notes/C11.md, "tboost crash"): with gboost::wscale == tboost, a look-up-table weak learner fitted on a
    // categorical feature without a given value among the fitting samples has zero tables, its split has zero groups and
    // gboost_model_t::fit reads `gstate.x().min()` of an empty vector (src/gboost/model.cpp:159) => SIGSEGV.  Cases the
    // mechanism can reach (over-approximation below) are first fitted in a forked child (no library thread exists at this
    // point: every pool is owned by an object of the case); only if the child is killed by a signal the case is counted
    // under the finding's signature, otherwise it is checked like any other case.
    //
    // second finding (notes/C11.md, "empty subsample"): gboost::subsample != off with subsample_ratio * #train < 1 makes
    // sampler_t::sample draw floor(ratio * n) = 0 samples; the weak learners are fitted on an EMPTY sample list and
    // dataset_t::check reads samples.max() of an empty tensor (SIGSEGV).  Predicate: the count is 0 for some fold.
    const auto splits = s.params.splitter().split(s.samples); // deterministic given its seed parameter

    bool risky = false, in_child = false, empty_subsample = false;
    if (gboost && c.subsample % 5 != 0)
    {
        for (const auto& split : splits)
        {
            empty_subsample = empty_subsample || static_cast<tensor_size_t>(c.ratio * static_cast<scalar_t>(split.first.size())) == 0;
        }
        risky = empty_subsample;
    }
    if (gboost && c.wscale % 2 == 1)
    {
        bool tables = false, optional_categorical = false;
        for (const auto id : c.pool)
        {
            tables = tables || (static_cast<size_t>(id) % 8 >= 3);
        }
        for (const auto f : d.inputs())
        {
            if (!d.spec(f).is_continuous())
            {
                for (int i = 0; i < d.samples; ++i)
                {
                    optional_categorical = optional_categorical || !d.given(f, i);
                }
            }
        }
        risky = risky || (tables && optional_categorical);
    }
    if (risky)
    {
        std::fflush(nullptr);
        const auto pid = ::fork();
        if (pid == 0)
        {
            in_child = true;
            for (const int sig : {SIGSEGV, SIGABRT, SIGFPE, SIGBUS, SIGILL, SIGTERM})
            {
                ::signal(sig, SIG_DFL); // the crash handler of common.h would dump this case as `crash.case`
            }
            ::alarm(600);
        }
        else if (pid > 0)
        {
            int status = 0;
            ::waitpid(pid, &status, 0);
            if (WIFSIGNALED(status) && WTERMSIG(status) == SIGALRM)
            {
                return verdict_t::discard("fit-probe-timeout");
            }
            if (WIFSIGNALED(status))
            {
                if (empty_subsample)
                {
                    ctx.label("empty-subsample-crash");
                    return verdict_t::known("C11/gboost/fit-crash/empty-subsample",
                                            cat("gboost_model_t::fit killed by signal ", WTERMSIG(status), " (gboost::subsample=", c.subsample % 5, ", subsample_ratio=", c.ratio,
                                                " x training samples of a fold < 1: the weak learners are fitted on an empty sample list)"));
                }
                ctx.label("tboost-empty-table-crash");
                return verdict_t::known("C11/gboost/fit-crash/tboost-empty-table",
                                        cat("gboost_model_t::fit killed by signal ", WTERMSIG(status), " (wscale=tboost, look-up-table weak learner, categorical input with missing values)"));
            }
            ctx.label(empty_subsample ? "empty-subsample-probe-survived" : "tboost-probe-survived");
        }
    }
    // the forked child never returns into the test loop, whichever way it leaves this function (return or exception)
    struct child_guard_t
    {
        const bool& m_in_child;

        ~child_guard_t()
        {
            if (m_in_child)
            {
                ::_exit(0);
            }
        }
    } const child_guard{in_child};
    const auto leave = [&](verdict_t v)
    {
        if (in_child)
        {
            ::_exit(0);
        }
        return v;
    };

    const auto source  = ds::make_datasource(d);
    auto       dataset = nano::dataset_t{*source, static_cast<size_t>(c.threads)};
    dataset.add<nano::sclass_identity_generator_t>();
    dataset.add<nano::mclass_identity_generator_t>();
    dataset.add<nano::scalar_identity_generator_t>();
    dataset.add<nano::struct_identity_generator_t>();

    // ---- configure the model (a replay file with values outside a parameter's domain is rejected here) -------------
    std::unique_ptr<nano::linear_t> linear;
    nano::gboost_model_t            booster;
    nano::ml::result_t              result;
    bool                            mergeable_pool = false;
    try
    {
        if (!gboost)
        {
            linear                               = nano::linear_t::all().get(linear_ids[c.model]);
            linear->parameter("linear::batch")   = c.batch;
            linear->parameter("linear::scaling") = static_cast<nano::scaling_type>(c.scaling % 4);
        }
        else
        {
            nano::rwlearners_t prototypes;
            for (const auto id : c.pool)
            {
                const auto wid = static_cast<size_t>(id) % 8;
                auto       w   = nano::wlearner_t::all().get(wlearner_ids[wid]);
                w->parameter("wlearner::criterion") = static_cast<nano::wlearner_criterion>(c.criterion % 4);
                if (wid == 7)
                {
                    w->parameter("wlearner::dtree::max_depth") = c.dtree_depth;
                    w->parameter("wlearner::dtree::min_split") = c.dtree_split;
                }
                mergeable_pool = mergeable_pool || wid == 0 || (wid >= 3 && wid <= 6); // affine and the look-up tables implement try_merge
                prototypes.push_back(std::move(w));
            }
            booster.prototypes(std::move(prototypes));
            booster.parameter("gboost::epsilon")         = c.epsilon;
            booster.parameter("gboost::seed")            = c.gb_seed;
            booster.parameter("gboost::batch")           = c.batch;
            booster.parameter("gboost::patience")        = c.patience;
            booster.parameter("gboost::max_rounds")      = c.max_rounds;
            booster.parameter("gboost::wscale")          = static_cast<nano::gboost_wscale>(c.wscale % 2);
            booster.parameter("gboost::shrinkage")       = static_cast<nano::gboost_shrinkage>(c.shrinkage % 3);
            booster.parameter("gboost::subsample")       = static_cast<nano::gboost_subsample>(c.subsample % 5);
            booster.parameter("gboost::subsample_ratio") = c.ratio;
        }
    }
    catch (const std::exception&)
    {
        return leave(verdict_t::discard("setup-rejected"));
    }

    // ---- fit -------------------------------------------------------------------------------------------------
    const bool refit = c.split_seed % 4 == 0;
    ctx.label_if(refit, "fitted-twice");
    try
    {
        // a quarter of the cases fit the SAME model object twice (re-training): the statement is about the state after
        // fitting, whatever the object held before; the second result is the one that is checked
        if (refit)
        {
            auto first = gboost ? booster.fit(dataset, s.samples, *s.loss, s.params) : linear->fit(dataset, s.samples, *s.loss, s.params);
            remove_logs(first);
        }
        result = gboost ? booster.fit(dataset, s.samples, *s.loss, s.params) : linear->fit(dataset, s.samples, *s.loss, s.params);
    }
    catch (const std::exception& e)
    {
        const std::string what = e.what();
        if (what.find("invalid value") != std::string::npos)
        {
            return leave(verdict_t::discard("tuner-rejects-non-finite-validation-error")); // diverged fit (outside this property)
        }
        if (what.find("surrogate model") != std::string::npos)
        {
            return leave(verdict_t::discard("surrogate-model-not-fitted")); // documented critical of the surrogate tuner (DESIGN.md 4.6)
        }
        return leave(verdict_t::violation("C11/exception/fit", what));
    }
    if (in_child)
    {
        ::_exit(0);
    }
    remove_logs(result);

    // ---- verify ----------------------------------------------------------------------------------------------
    outcome_t  out;
    const auto model_name = std::string(gboost ? "gboost" : "linear");
    const auto folds      = result.folds();
    const auto trials     = result.trials();
    if (folds != static_cast<tensor_size_t>(splits.size()) || folds != c.folds || trials < 1)
    {
        return verdict_t::violation(cat("C11/", model_name, "/shape"), cat("folds=", folds, " splits=", splits.size(), " trials=", trials));
    }

    using nano::ml::split_type;
    using nano::ml::value_type;

    bool                any_fragile = false, non_finite = false;
    std::vector<double> valid_means;
    int                 rounds_inner = 0, rounds_zero = 0, rounds_last = 0, merged_models = 0, monitor_ambiguous = 0, train_stops = 0;

    // per (trial, fold): predictions of the stored model on the fold's train / validation samples
    std::vector<std::vector<preds_t>> fold_preds_all(static_cast<size_t>(trials)); // gboost: fold model on ALL fitted samples (for the average)
    try
    {
        for (tensor_size_t trial = 0; trial < trials && !out.bad(); ++trial)
        {
            for (tensor_size_t fold = 0; fold < folds && !out.bad(); ++fold)
            {
                const auto& split = splits[static_cast<size_t>(fold)];
                const auto  tag   = cat("trial-fold");
                const auto  at    = cat(" (trial ", trial, "/", trials, ", fold ", fold, "/", folds, ")");

                const nano::linear::result_t* lres = nullptr;
                const nano::gboost::result_t* gres = nullptr;
                if (gboost)
                {
                    gres = std::any_cast<nano::gboost::result_t>(&result.extra(trial, fold));
                }
                else
                {
                    lres = std::any_cast<nano::linear::result_t>(&result.extra(trial, fold));
                }
                if (lres == nullptr && gres == nullptr)
                {
                    out.add(cmp_t::bad, tag + "/stored-model-missing", at);
                    break;
                }

                for (int isplit = 0; isplit < 2; ++isplit)
                {
                    const auto& idx = isplit == 0 ? split.first : split.second;
                    const auto  p   = gboost ? predict_boosted(dataset, idx, gres->m_bias, gres->m_wlearners) : predict_linear(dataset, idx, lres->m_weights, lres->m_bias);
                    const auto  v   = evaluate_preds(dataset, idx, *s.loss, p, s.target_kind);
                    // a fold model whose predictions are astronomically large (a scaling step that diverged on separable samples:
                    // observed scale 1.5e88, predictions 8e86) is a diverged fit like the non-finite ones: at such magnitudes the
                    // rounding of the weak learner's own coefficients (hinge: beta x - beta t at x == t) flips classes
                    bool diverged = false;
                    for (tensor_size_t k = 0; k < p.outputs.size(); ++k)
                    {
                        diverged = diverged || std::fabs(p.outputs(k)) > 1e30;
                    }
                    ctx.label_if(diverged, "fold-model-with-predictions-above-1e30(diverged)");
                    if (!p.finite() || diverged || !all_finite(v.errors) || !all_finite(v.losses))
                    {
                        non_finite = true;
                        continue;
                    }
                    any_fragile       = any_fragile || v.fragile;
                    if (std::getenv("VERIF_C11_DEBUG") != nullptr)
                    {
                        std::fprintf(stderr, "trial %d fold %d split %d fragile %d:", int(trial), int(fold), isplit, int(v.fragile));
                        for (tensor_size_t k = 0; k < p.outputs.size(); ++k)
                        {
                            std::fprintf(stderr, " [s%d out %.17g err %g]", int(idx(k)), p.outputs(k), v.errors[static_cast<size_t>(k)]);
                        }
                        if (gres != nullptr)
                        {
                            for (const auto& w : gres->m_wlearners)
                            {
                                std::ostringstream os;
                                w->write(os);
                                std::fprintf(stderr, " {%s features", w->type_id().c_str());
                                const auto fs = w->features();
                                for (tensor_size_t q = 0; q < fs.size(); ++q)
                                {
                                    std::fprintf(stderr, " %d", int(fs(q)));
                                }
                                std::fprintf(stderr, "}");
                            }
                            const auto& st = gres->m_statistics;
                            for (tensor_size_t r = 0; r < st.size<0>(); ++r)
                            {
                                std::fprintf(stderr, " (round %d:", int(r));
                                for (tensor_size_t q = 0; q < st.size<1>(); ++q)
                                {
                                    std::fprintf(stderr, " %g", st(r, q));
                                }
                                std::fprintf(stderr, ")");
                            }
                        }
                        std::fprintf(stderr, " stored mean %.17g; wlearners %d bias %.17g\n",
                                     result.stats(trial, fold, isplit == 0 ? split_type::train : split_type::valid, value_type::errors).m_mean,
                                     gres != nullptr ? int(gres->m_wlearners.size()) : -1, gres != nullptr && gres->m_bias.size() > 0 ? gres->m_bias(0) : 0.0);
                    }
                    const auto estats = result.stats(trial, fold, isplit == 0 ? split_type::train : split_type::valid, value_type::errors);
                    const auto lstats = result.stats(trial, fold, isplit == 0 ? split_type::train : split_type::valid, value_type::losses);
                    outcome_t  local;
                    if (!v.fragile)
                    {
                        compare_stats(local, ctx, cat(tag, "/", split_name(isplit), "-errors"), estats, v.errors, v.etol);
                    }
                    compare_stats(local, ctx, cat(tag, "/", split_name(isplit), "-losses"), lstats, v.losses, v.ltol);
                    out.add(local.worst, local.where, local.msg + at);
                    if (isplit == 1 && !v.fragile)
                    {
                        valid_means.push_back(estats.m_mean);
                    }

                    // the per-round statistics of the fold model: optimum_round + 1 rows, the last one describes the stored model
                    if (gboost)
                    {
                        const auto& st = gres->m_statistics;
                        const auto  R  = st.size<0>() - 1;
                        if (R < 0 || st.size<1>() != 8)
                        {
                            out.add(cmp_t::bad, "fold-model/statistics-shape", cat(st.size<0>(), "x", st.size<1>(), at));
                            continue;
                        }
                        long double esum = 0.0L, lsum = 0.0L, easum = 0.0L, lasum = 0.0L;
                        for (size_t i = 0; i < v.errors.size(); ++i)
                        {
                            esum += v.errors[i];
                            lsum += v.losses[i];
                            easum += std::fabs(v.errors[i]);
                            lasum += std::fabs(v.losses[i]);
                        }
                        const auto cnt = static_cast<long double>(std::max<size_t>(v.errors.size(), 1U));
                        if (!v.fragile)
                        {
                            out.add(closeness(st(R, 2 * isplit + 0), static_cast<double>(esum / cnt), 2 * rel_tol * static_cast<double>(easum / cnt) + v.etol + 1e-300),
                                    cat("fold-model/last-row/", split_name(isplit), "-error"),
                                    cat("statistics(", R, ",", 2 * isplit, ")=", st(R, 2 * isplit + 0), " recomputed from the stored fold model=", static_cast<double>(esum / cnt),
                                        " weak learners kept=", gres->m_wlearners.size(), at));
                        }
                        out.add(closeness(st(R, 2 * isplit + 1), static_cast<double>(lsum / cnt), 2 * rel_tol * static_cast<double>(lasum / cnt) + v.ltol + 1e-300),
                                cat("fold-model/last-row/", split_name(isplit), "-loss"),
                                cat("statistics(", R, ",", 2 * isplit + 1, ")=", st(R, 2 * isplit + 1), " recomputed from the stored fold model=", static_cast<double>(lsum / cnt),
                                    " weak learners kept=", gres->m_wlearners.size(), at));
                    }
                }

                if (gboost)
                {
                    const auto& st   = gres->m_statistics;
                    const auto  R    = st.size<0>() - 1;
                    const auto  kept = static_cast<tensor_size_t>(gres->m_wlearners.size());
                    // the reported optimum round is the number of weak learners the fold model keeps (merging compatible
                    // weak learners - affine / look-up tables on the same feature - may only reduce the count)
                    if (kept > R || (kept < R && !mergeable_pool))
                    {
                        out.add(cmp_t::bad, "fold-model/optimum-round-vs-weak-learners", cat("optimum round=", R, " weak learners kept=", kept, " max_rounds=", c.max_rounds, at));
                    }
                    if (R > c.max_rounds)
                    {
                        out.add(cmp_t::bad, "fold-model/optimum-round-beyond-max-rounds", cat("optimum round=", R, " max_rounds=", c.max_rounds, at));
                    }
                    merged_models += kept < R ? 1 : 0;
                    rounds_zero += R == 0 ? 1 : 0;
                    rounds_last += R == c.max_rounds ? 1 : 0;
                    rounds_inner += (R > 0 && R < c.max_rounds) ? 1 : 0;

                    // the reported rounds 0..R as a history for the reference monitor: it never stops before R and the
                    // last accepted improvement after round R is R itself
                    ref_monitor_t ref;
                    const bool    has_valid = split.second.size() > 0;
                    bool          ambiguous = false;
                    for (tensor_size_t r = 0; r <= R && !ambiguous; ++r)
                    {
                        const auto a = ref.done(static_cast<size_t>(r), st(r, 0), st(r, 2), has_valid, c.epsilon, static_cast<size_t>(c.patience), {});
                        if (a == answer_t::ambiguous)
                        {
                            ambiguous = true;
                        }
                        else if (a == answer_t::stop && r < R)
                        {
                            out.add(cmp_t::bad, "fold-model/rounds-continue-after-stop",
                                    cat("the reference monitor stops at round ", r, " (train error ", st(r, 0), ", validation error ", st(r, 2), ", eps ", c.epsilon,
                                        ", patience ", c.patience, ") but the fold model reports optimum round ", R, at));
                            break;
                        }
                        else if (a == answer_t::stop)
                        {
                            train_stops += st(r, 0) < c.epsilon ? 1 : 0;
                        }
                    }
                    monitor_ambiguous += ambiguous ? 1 : 0;
                    if (!ambiguous && !out.bad() && ref.round() != static_cast<size_t>(R))
                    {
                        out.add(cmp_t::bad, "fold-model/optimum-round-is-not-the-last-accepted-improvement",
                                cat("reported optimum round ", R, " but the last improvement larger than eps=", c.epsilon, " in the reported history is round ", ref.round(), at));
                    }

                    fold_preds_all[static_cast<size_t>(trial)].push_back(predict_boosted(dataset, s.samples, gres->m_bias, gres->m_wlearners));
                }
            }
        }

        // ---- final model ---------------------------------------------------------------------------------------
        if (!out.bad())
        {
            const nano::learner_t& learner = gboost ? static_cast<const nano::learner_t&>(booster) : static_cast<const nano::learner_t&>(*linear);
            const tensor4d_t       direct  = learner.predict(dataset, s.samples);

            // the overload that predicts into a buffer of the caller writes the same predictions whatever the buffer held before
            // (a buffer re-used batch after batch)
            {
                tensor4d_t buffer(direct.dims());
                buffer.full(123.0);
                learner.predict(dataset, s.samples, buffer.tensor());
                for (tensor_size_t k = 0; k < direct.size() && !out.bad(); ++k)
                {
                    const auto a = direct(k), b = buffer(k);
                    if (!(a == b || (std::isnan(a) && std::isnan(b))))
                    {
                        out.add(cmp_t::bad, "final/predict-into-a-used-buffer-differs", cat("element ", k, ": fresh ", a, " used buffer ", b));
                    }
                }
            }

            preds_t own;
            if (gboost)
            {
                // "the boosting model's prediction is its bias plus the sum of its weak learners' predictions"
                own = predict_boosted(dataset, s.samples, booster.bias(), booster.wlearners());
                compare_outputs(out, "final/predict-vs-bias-plus-weak-learners", direct, own);

                // "the final boosting model predicts the average of the per-fold models of the optimum trial" (any arg-min)
                std::vector<double> values(static_cast<size_t>(trials), 0.0);
                double              best = std::numeric_limits<double>::infinity();
                for (tensor_size_t trial = 0; trial < trials; ++trial)
                {
                    long double sum = 0.0L;
                    for (tensor_size_t fold = 0; fold < folds; ++fold)
                    {
                        sum += result.stats(trial, fold, split_type::valid, value_type::errors).m_mean;
                    }
                    values[static_cast<size_t>(trial)] = static_cast<double>(sum / static_cast<long double>(folds));
                    best                               = std::min(best, values[static_cast<size_t>(trial)]);
                }
                outcome_t first;
                bool      matched = false;
                int       optima  = 0;
                for (tensor_size_t trial = 0; trial < trials && !matched; ++trial)
                {
                    if (!(values[static_cast<size_t>(trial)] <= best + rel_tol * std::fabs(best)) || fold_preds_all[static_cast<size_t>(trial)].size() != static_cast<size_t>(folds))
                    {
                        continue;
                    }
                    ++optima;
                    preds_t avg;
                    avg.outputs.resize(direct.dims());
                    avg.scale.assign(static_cast<size_t>(direct.size()), 0.0);
                    for (tensor_size_t k = 0; k < direct.size(); ++k)
                    {
                        long double sum = 0.0L, mag = 0.0L;
                        for (const auto& fp : fold_preds_all[static_cast<size_t>(trial)])
                        {
                            sum += fp.outputs(k);
                            mag += fp.scale[static_cast<size_t>(k)];
                        }
                        avg.outputs(k)                    = static_cast<double>(sum / static_cast<long double>(folds));
                        avg.scale[static_cast<size_t>(k)] = static_cast<double>(mag / static_cast<long double>(folds));
                    }
                    outcome_t local;
                    compare_outputs(local, "final/not-the-average-of-the-optimum-trial-fold-models", direct, avg, &own.scale);
                    if (local.worst == cmp_t::ok)
                    {
                        matched = true;
                    }
                    else if (first.worst == cmp_t::ok)
                    {
                        first = local;
                        first.msg += cat(" (trial ", trial, " of ", trials, ", validation error ", values[static_cast<size_t>(trial)], ", optimum_trial()=", result.optimum_trial(), ")");
                    }
                }
                if (!matched && !non_finite)
                {
                    out.add(first.worst == cmp_t::ok ? cmp_t::bad : first.worst, first.where.empty() ? "final/no-optimum-trial" : first.where, first.msg);
                }
                ctx.label_if(optima > 1, "tied-optimum-trials");
            }
            else
            {
                own = predict_linear(dataset, s.samples, linear->weights(), linear->bias());
                compare_outputs(out, "final/predict-vs-weights-and-bias", direct, own);
                // the stored refit model is the model
                const auto* lres = std::any_cast<nano::linear::result_t>(&result.extra());
                if (lres == nullptr)
                {
                    out.add(cmp_t::bad, "final/stored-model-missing", "extra()");
                }
                else
                {
                    const auto stored = predict_linear(dataset, s.samples, lres->m_weights, lres->m_bias);
                    compare_outputs(out, "final/stored-refit-model-vs-model", stored.outputs, own, &stored.scale);
                }
            }

            const auto v = evaluate_preds(dataset, s.samples, *s.loss, own, s.target_kind);
            bool diverged = false;
            for (tensor_size_t k = 0; k < own.outputs.size(); ++k)
            {
                diverged = diverged || std::fabs(own.outputs(k)) > 1e30;
            }
            ctx.label_if(diverged, "final-model-with-predictions-above-1e30(diverged)");
            if (!own.finite() || diverged || !all_finite(v.errors) || !all_finite(v.losses))
            {
                non_finite = true;
            }
            else
            {
                any_fragile = any_fragile || v.fragile;
                outcome_t local;
                if (!v.fragile)
                {
                    compare_stats(local, ctx, "final/errors", result.stats(value_type::errors), v.errors, v.etol);
                }
                compare_stats(local, ctx, "final/losses", result.stats(value_type::losses), v.losses, v.ltol);
                out.add(local.worst, local.where, local.msg);

                // NB: learner_t::evaluate is not part of the statement and is not called here: for a linear model whose
                // linear::batch is smaller than the targets batch it re-enters the dataset's thread pool from inside a pool
                // task and dead-locks once every worker is busy (see notes/C11.md, "evaluate dead-lock").
            }
        }
    }
    catch (const std::exception& e)
    {
        return verdict_t::violation("C11/exception/verify", e.what());
    }

    if (non_finite)
    {
        // a diverged fit (e.g. overflowing exponential loss, un-normalised inputs): the statistics are NaN/inf on both sides
        return verdict_t::discard("non-finite-or-diverged-model-or-statistics");
    }

    // ---- classes ---------------------------------------------------------------------------------------------
    ctx.label(gboost ? "gboost" : linear_ids[c.model]);
    ctx.label(cat("loss-", loss_id));
    ctx.label(c.splitter == 0 ? "k-fold" : "random-splitter");
    ctx.label(cat("folds-", c.folds));
    ctx.label(c.tuner == 0 ? "local-search" : "surrogate");
    ctx.label(cat("threads-", c.threads));
    ctx.label_if(trials >= 2, "trials>=2");
    ctx.label_if(trials >= 10, "trials>=10");
    ctx.label_if(!c.excluded.empty(), "subset-of-samples");
    ctx.label_if(s.samples.size() % c.folds != 0, "samples-not-divisible-by-folds");
    ctx.label_if(any_fragile, "fragile-classification-error");
    ctx.maximum("trials", static_cast<double>(trials));
    if (gboost)
    {
        static const char* shrink[] = {"shrinkage-off", "shrinkage-global", "shrinkage-local"};
        static const char* subs[]   = {"subsample-off", "subsample", "bootstrap", "wei-loss-bootstrap", "wei-grad-bootstrap"};
        ctx.label(shrink[c.shrinkage % 3]);
        ctx.label(subs[c.subsample % 5]);
        ctx.label(c.wscale % 2 == 0 ? "wscale-gboost" : "wscale-tboost");
        for (const auto id : c.pool)
        {
            ctx.label(cat("pool-", wlearner_ids[static_cast<size_t>(id) % 8]));
        }
        ctx.label_if(rounds_zero > 0, "optimum-round-0");
        ctx.label_if(rounds_last > 0, "optimum-round-last");
        ctx.label_if(rounds_inner > 0, "optimum-round-inner");
        ctx.label_if(merged_models > 0, "fold-model-merged-weak-learners");
        ctx.label_if(monitor_ambiguous > 0, "monitor-history-ambiguous");
        ctx.label_if(train_stops > 0, "stopped-by-training-error");
        ctx.label_if(c.subsample % 5 != 0 && c.ratio < 0.3, "subsample-ratio<0.3");
        ctx.label_if(empty_subsample, "subsample-ratio*train<1");
    }
    else
    {
        static const char* scal[] = {"scaling-none", "scaling-mean", "scaling-minmax", "scaling-standard"};
        ctx.label(scal[c.scaling % 4]);
    }

    // non-trivial: >= 2 folds with non-zero, pairwise different validation errors (per trial and fold), and for
    // boosting a fold model whose optimum round is neither 0 nor the last
    bool distinct = valid_means.size() >= 2;
    std::sort(valid_means.begin(), valid_means.end());
    for (size_t i = 0; i < valid_means.size(); ++i)
    {
        distinct = distinct && valid_means[i] > 0.0 && (i == 0 || valid_means[i] != valid_means[i - 1]);
    }
    ctx.label_if(distinct, "validation-errors-all-different");
    // (classification errors are multiples of 1/n: ties across trials are common => require 2 distinct non-zero values there)
    const bool two_values = valid_means.size() >= 2 && valid_means.front() != valid_means.back() && valid_means.front() > 0.0;
    ctx.nontrivial        = (s.target_kind == 0 ? distinct : two_values) && (!gboost || rounds_inner > 0);

    std::sort(ctx.labels.begin(), ctx.labels.end());
    ctx.labels.erase(std::unique(ctx.labels.begin(), ctx.labels.end()), ctx.labels.end());
    return finish(out, model_name);
}
} // namespace

int main(int argc, char** argv)
{
    suite_t suite("C11");
    suite.add<mcase_t>("linear", gen_linear, check_mcase, 1.0);
    suite.add<mcase_t>("gboost", gen_gboost, check_mcase, 1.0);
    return suite.main(argc, argv);
}
