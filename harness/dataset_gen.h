// Generated data sources shared by the dataset / ML harnesses (C08 C09 C10 C11 C14 C15 C18).
//
// data_spec_t is a plain, serialisable description of a data source (schema + values +
// missing mask); it doubles as the REFERENCE MODEL: `stored(f, s, k)` is the value the
// library has to report for component k of feature f of sample s (after the cast to the
// feature's storage type), `given(f, s)` whether it is present.  generated_datasource_t
// loads exactly that description through the public datasource_t::set API.
#pragma once

#include "common.h"

#include <nano/datasource.h>

namespace verif::ds
{
using nano::feature_type;
using nano::tensor_size_t;

struct fspec_t
{
    int type{static_cast<int>(feature_type::float64)}; // nano::feature_type
    int d0{1}, d1{1}, d2{1};                           // continuous features
    int classes{0};                                    // categorical features

    bool is_sclass() const { return type == static_cast<int>(feature_type::sclass); }

    bool is_mclass() const { return type == static_cast<int>(feature_type::mclass); }

    bool is_continuous() const { return !is_sclass() && !is_mclass(); }

    int dsize() const { return d0 * d1 * d2; }

    bool is_scalar() const { return is_continuous() && dsize() == 1; }

    bool is_struct() const { return is_continuous() && dsize() > 1; }

    // number of stored components per sample
    int width() const { return is_sclass() ? 1 : is_mclass() ? classes : dsize(); }
};

inline double cast_to_storage(int type, double v)
{
    switch (static_cast<feature_type>(type))
    {
    case feature_type::int8: return static_cast<double>(static_cast<int8_t>(v));
    case feature_type::int16: return static_cast<double>(static_cast<int16_t>(v));
    case feature_type::int32: return static_cast<double>(static_cast<int32_t>(v));
    case feature_type::int64: return static_cast<double>(static_cast<int64_t>(v));
    case feature_type::uint8: return static_cast<double>(static_cast<uint8_t>(v));
    case feature_type::uint16: return static_cast<double>(static_cast<uint16_t>(v));
    case feature_type::uint32: return static_cast<double>(static_cast<uint32_t>(v));
    case feature_type::uint64: return static_cast<double>(static_cast<uint64_t>(v));
    case feature_type::float32: return static_cast<double>(static_cast<float>(v));
    default: return v;
    }
}

struct data_spec_t
{
    int                              samples{0};
    int                              target{-1};   // index into `types`, -1: unsupervised
    std::vector<int>                 types;        // per feature (including the target)
    std::vector<int>                 dims;         // 3 per feature
    std::vector<int>                 classes;      // per feature
    std::vector<std::vector<double>> values;       // [feature][sample * width + k], already representable in the storage type
    std::vector<std::vector<int>>    mask;         // [feature][sample] 1 = given
    int                              bad_sets{0};  // the data source also ATTEMPTS to store invalid values (out-of-range labels, tensors of the wrong
                                                   // size) in a quarter of the cells and goes on after the exception: bit 1 before the valid value is
                                                   // stored (also in cells that stay missing), bit 2 after it. A rejected value leaves no trace.

    template <class A>
    void io(A& a)
    {
        if constexpr (std::is_same_v<A, verif::reader_t>)
        {
            if (a.has("ds.bad_sets")) // absent in replay files written before rejected stores were generated
            {
                a("ds.bad_sets", bad_sets);
            }
        }
        else
        {
            a("ds.bad_sets", bad_sets);
        }
        a("ds.samples", samples);
        a("ds.target", target);
        a("ds.types", types);
        a("ds.dims", dims);
        a("ds.classes", classes);
        a("ds.values", values);
        a("ds.mask", mask);
    }

    int nfeatures_total() const { return static_cast<int>(types.size()); }

    fspec_t spec(int f) const
    {
        fspec_t s;
        s.type    = types[static_cast<size_t>(f)];
        s.d0      = dims[static_cast<size_t>(3 * f + 0)];
        s.d1      = dims[static_cast<size_t>(3 * f + 1)];
        s.d2      = dims[static_cast<size_t>(3 * f + 2)];
        s.classes = classes[static_cast<size_t>(f)];
        return s;
    }

    // input features in dataset order (the target is skipped)
    std::vector<int> inputs() const
    {
        std::vector<int> r;
        for (int f = 0; f < nfeatures_total(); ++f)
        {
            if (f != target)
            {
                r.push_back(f);
            }
        }
        return r;
    }

    bool given(int f, int s) const { return mask[static_cast<size_t>(f)][static_cast<size_t>(s)] != 0; }

    double stored(int f, int s, int k) const
    {
        return values[static_cast<size_t>(f)][static_cast<size_t>(s) * static_cast<size_t>(spec(f).width()) + static_cast<size_t>(k)];
    }

    // structural validity (generated specs always satisfy it; guards hand-written replay files)
    bool valid() const
    {
        const auto n = types.size();
        if (samples < 1 || n < 1 || dims.size() != 3 * n || classes.size() != n || values.size() != n || mask.size() != n ||
            target >= static_cast<int>(n))
        {
            return false;
        }
        for (int f = 0; f < static_cast<int>(n); ++f)
        {
            const auto s = spec(f);
            if (s.type < 0 || s.type > static_cast<int>(feature_type::mclass) || s.width() < 1 ||
                values[static_cast<size_t>(f)].size() != static_cast<size_t>(samples) * static_cast<size_t>(s.width()) ||
                mask[static_cast<size_t>(f)].size() != static_cast<size_t>(samples))
            {
                return false;
            }
            if (!s.is_continuous() && s.classes < 1)
            {
                return false;
            }
            for (int i = 0; i < samples; ++i)
            {
                if (f == target && !given(f, i))
                {
                    return false; // targets are never optional (datasource_t::load enforces it)
                }
                for (int k = 0; k < s.width(); ++k)
                {
                    const auto v = stored(f, i, k);
                    if (s.is_sclass() && !(v >= 0 && v < s.classes && v == std::floor(v)))
                    {
                        return false;
                    }
                    if (s.is_mclass() && !(v == 0.0 || v == 1.0))
                    {
                        return false;
                    }
                    if (s.is_continuous() && !(std::isfinite(v) && cast_to_storage(s.type, v) == v))
                    {
                        return false;
                    }
                }
            }
        }
        return true;
    }

    nano::features_t make_features() const
    {
        nano::features_t fs;
        for (int f = 0; f < nfeatures_total(); ++f)
        {
            const auto s    = spec(f);
            auto       feat = nano::feature_t{cat("f", f)};
            if (s.is_sclass())
            {
                feat.sclass(static_cast<size_t>(s.classes));
            }
            else if (s.is_mclass())
            {
                feat.mclass(static_cast<size_t>(s.classes));
            }
            else
            {
                feat.scalar(static_cast<feature_type>(s.type), nano::make_dims(s.d0, s.d1, s.d2));
            }
            fs.push_back(feat);
        }
        return fs;
    }
};

class generated_datasource_t final : public nano::datasource_t
{
public:
    explicit generated_datasource_t(data_spec_t spec)
        : nano::datasource_t("verif-generated")
        , m_spec(std::move(spec))
    {
    }

    nano::rdatasource_t clone() const override { return std::make_unique<generated_datasource_t>(*this); }

    const data_spec_t& spec() const { return m_spec; }

private:
    void do_load() override
    {
        const auto features = m_spec.make_features();
        if (m_spec.target >= 0)
        {
            resize(m_spec.samples, features, static_cast<size_t>(m_spec.target));
        }
        else
        {
            resize(m_spec.samples, features);
        }
        for (int f = 0; f < m_spec.nfeatures_total(); ++f)
        {
            const auto s = m_spec.spec(f);
            for (int i = 0; i < m_spec.samples; ++i)
            {
                const bool bad = m_spec.bad_sets != 0 && (f * 131 + i * 7 + m_spec.bad_sets) % 4 == 0;
                if (bad && (m_spec.bad_sets & 1) != 0)
                {
                    set_invalid(i, f, s);
                }
                if (!m_spec.given(f, i))
                {
                    continue;
                }
                if (s.is_sclass())
                {
                    set(i, f, static_cast<tensor_size_t>(m_spec.stored(f, i, 0)));
                }
                else if (s.is_mclass())
                {
                    nano::tensor_mem_t<uint8_t, 1> hits(s.classes);
                    for (int k = 0; k < s.classes; ++k)
                    {
                        hits(k) = static_cast<uint8_t>(m_spec.stored(f, i, k));
                    }
                    set(i, f, hits);
                }
                else if (s.dsize() == 1)
                {
                    set_scalar(i, f, s.type, m_spec.stored(f, i, 0));
                }
                else
                {
                    // structured: the setter casts element-wise from the given tensor's scalar type
                    set_struct(i, f, s);
                }
                if (bad && (m_spec.bad_sets & 2) != 0)
                {
                    set_invalid(i, f, s);
                }
            }
        }
    }

    // an attempt to store a value the feature cannot hold: the library rejects it with an exception; the loader goes on
    void set_invalid(int i, int f, const fspec_t& s)
    {
        try
        {
            if (s.is_sclass())
            {
                set(i, f, static_cast<tensor_size_t>((i % 2 == 0) ? s.classes + (i % 3) : -1));
            }
            else if (s.is_mclass())
            {
                nano::tensor_mem_t<uint8_t, 1> hits(s.classes + 1 + (i % 2));
                hits.full(static_cast<uint8_t>(1));
                set(i, f, hits);
            }
            else if (s.dsize() > 1)
            {
                nano::tensor_mem_t<double, 3> t(s.d0 + 1, s.d1, s.d2);
                t.full(7.0);
                set(i, f, t);
            }
        }
        catch (const std::exception&)
        {
        }
    }

    void set_scalar(int i, int f, int type, double v)
    {
        switch (static_cast<feature_type>(type))
        {
        case feature_type::int64: set(i, f, static_cast<int64_t>(v)); break;
        case feature_type::uint64: set(i, f, static_cast<uint64_t>(v)); break;
        case feature_type::int8:
        case feature_type::int16:
        case feature_type::int32: set(i, f, static_cast<int32_t>(v)); break;
        case feature_type::uint8:
        case feature_type::uint16:
        case feature_type::uint32: set(i, f, static_cast<uint32_t>(v)); break;
        case feature_type::float32: set(i, f, static_cast<float>(v)); break;
        default: set(i, f, v); break;
        }
    }

    template <class T>
    void set_struct_as(int i, int f, const fspec_t& s)
    {
        nano::tensor_mem_t<T, 3> t(s.d0, s.d1, s.d2);
        for (int k = 0; k < s.dsize(); ++k)
        {
            t(k) = static_cast<T>(m_spec.stored(f, i, k));
        }
        set(i, f, t);
    }

    void set_struct(int i, int f, const fspec_t& s)
    {
        switch (static_cast<feature_type>(s.type))
        {
        case feature_type::int64: set_struct_as<int64_t>(i, f, s); break;
        case feature_type::uint64: set_struct_as<uint64_t>(i, f, s); break;
        case feature_type::int8:
        case feature_type::int16:
        case feature_type::int32: set_struct_as<int32_t>(i, f, s); break;
        case feature_type::uint8:
        case feature_type::uint16:
        case feature_type::uint32: set_struct_as<uint32_t>(i, f, s); break;
        case feature_type::float32: set_struct_as<float>(i, f, s); break;
        default: set_struct_as<double>(i, f, s); break;
        }
    }

    data_spec_t m_spec;
};

// ---------------------------------------------------------------------------------------
// generators
// ---------------------------------------------------------------------------------------
struct gen_options_t
{
    int  min_samples{1}, max_samples{40};
    int  min_inputs{1}, max_inputs{8};
    bool allow_struct{true};
    bool allow_sclass{true};
    bool allow_mclass{true};
    bool allow_integer_types{true}; // otherwise float32/float64 only
    bool allow_missing{true};
    bool big_classes{false};        // class counts from {1,2,3,7,255,256,257,300} instead of 1..6
    int  max_classes{6};
    // target: 0 none, 1 scalar regression (float64), 2 sclass, 3 mclass, 4 struct regression, 5 any (incl. none)
    int    target_kind{5};
    double value_range{3.0}; // magnitude of continuous values
    bool   ties{true};       // continuous columns with few distinct values
};

inline rc::Gen<fspec_t> gen_fspec(const gen_options_t& o, int kind)
{
    // kind: 0 scalar, 1 struct, 2 sclass, 3 mclass
    const auto ctype = o.allow_integer_types
                         ? rc::gen::element(static_cast<int>(feature_type::int8), static_cast<int>(feature_type::int16),
                                            static_cast<int>(feature_type::int32), static_cast<int>(feature_type::int64),
                                            static_cast<int>(feature_type::uint8), static_cast<int>(feature_type::uint16),
                                            static_cast<int>(feature_type::uint32), static_cast<int>(feature_type::uint64),
                                            static_cast<int>(feature_type::float32), static_cast<int>(feature_type::float64),
                                            static_cast<int>(feature_type::float64), static_cast<int>(feature_type::float32))
                         : rc::gen::element(static_cast<int>(feature_type::float32), static_cast<int>(feature_type::float64));
    const auto nclasses = o.big_classes ? rc::gen::element(1, 2, 3, 7, 255, 256, 257, 300) : gen::range<int>(1, o.max_classes);
    switch (kind)
    {
    case 0:
        return rc::gen::map(ctype,
                            [](int t)
                            {
                                fspec_t s;
                                s.type = t;
                                return s;
                            });
    case 1:
        return rc::gen::map(rc::gen::tuple(ctype, rc::gen::element(std::array<int, 3>{2, 1, 1}, std::array<int, 3>{1, 2, 1},
                                                                    std::array<int, 3>{1, 1, 3}, std::array<int, 3>{2, 2, 1},
                                                                    std::array<int, 3>{3, 3, 2}, std::array<int, 3>{2, 3, 3},
                                                                    std::array<int, 3>{3, 3, 3}, std::array<int, 3>{1, 3, 3})),
                            [](const std::tuple<int, std::array<int, 3>>& td)
                            {
                                fspec_t s;
                                s.type = std::get<0>(td);
                                s.d0   = std::get<1>(td)[0];
                                s.d1   = std::get<1>(td)[1];
                                s.d2   = std::get<1>(td)[2];
                                return s;
                            });
    case 2:
        return rc::gen::map(nclasses,
                            [](int c)
                            {
                                fspec_t s;
                                s.type    = static_cast<int>(feature_type::sclass);
                                s.classes = c;
                                return s;
                            });
    default:
        return rc::gen::map(o.big_classes ? rc::gen::element(1, 2, 3, 7, 9) : gen::range<int>(1, o.max_classes),
                            [](int c)
                            {
                                fspec_t s;
                                s.type    = static_cast<int>(feature_type::mclass);
                                s.classes = c;
                                return s;
                            });
    }
}

inline rc::Gen<double> gen_component(const fspec_t& s, const gen_options_t& o, int style)
{
    if (s.is_sclass())
    {
        return gen::smallint(0, s.classes - 1);
    }
    if (s.is_mclass())
    {
        return gen::smallint(0, 1);
    }
    const auto type = s.type;
    const auto cast = [type](double v) { return cast_to_storage(type, v); };
    double     lo = -o.value_range, hi = o.value_range;
    double     tmin = -9e15, tmax = 9e15; // type limits (within 2^53 for the 64 bit types)
    switch (static_cast<feature_type>(type))
    {
    case feature_type::int8: tmin = -128; tmax = 127; break;
    case feature_type::int16: tmin = -32768; tmax = 32767; break;
    case feature_type::int32: tmin = -2147483648.0; tmax = 2147483647.0; break;
    case feature_type::int64: break;
    case feature_type::uint8: tmin = 0; tmax = 255; break;
    case feature_type::uint16: tmin = 0; tmax = 65535; break;
    case feature_type::uint32: tmin = 0; tmax = 4294967295.0; break;
    case feature_type::uint64: tmin = 0; break;
    default: break;
    }
    const bool integral = static_cast<feature_type>(type) != feature_type::float32 && static_cast<feature_type>(type) != feature_type::float64;
    if (integral)
    {
        lo = std::max(tmin, -20.0);
        hi = std::min(tmax, 20.0);
        switch (style)
        {
        case 0: return gen::smallint(static_cast<int>(std::max(lo, -2.0)), static_cast<int>(std::min(hi, 2.0))); // ties
        case 1: return gen::smallint(static_cast<int>(lo), static_cast<int>(hi));
        default: // including the extremes of the type
            return rc::gen::oneOf(gen::smallint(static_cast<int>(lo), static_cast<int>(hi)), rc::gen::element(tmin, tmax, tmin + 1, tmax - 1));
        }
    }
    switch (style)
    {
    case 0: return rc::gen::map(gen::smallint(-3, 3), cast); // ties
    case 1: return rc::gen::map(gen::sym(o.value_range), cast);
    default: return rc::gen::map(rc::gen::map(gen::smallint(-20, 20), [](double v) { return v / 8.0; }), cast);
    }
}

// mask styles: 0 all given, 1 random, 2 none given, 3 only first, 4 only last, 5 all but one
inline rc::Gen<std::vector<int>> gen_mask(int samples, int style)
{
    switch (style)
    {
    case 1: return rc::gen::container<std::vector<int>>(static_cast<size_t>(samples), rc::gen::map(gen::range<int>(0, 3), [](int v) { return v == 0 ? 0 : 1; }));
    case 2: return rc::gen::just(std::vector<int>(static_cast<size_t>(samples), 0));
    case 3:
    {
        std::vector<int> m(static_cast<size_t>(samples), 0);
        m.front() = 1;
        return rc::gen::just(m);
    }
    case 4:
    {
        std::vector<int> m(static_cast<size_t>(samples), 0);
        m.back() = 1;
        return rc::gen::just(m);
    }
    case 5:
        return rc::gen::map(gen::range<int>(0, samples - 1),
                            [samples](int hole)
                            {
                                std::vector<int> m(static_cast<size_t>(samples), 1);
                                m[static_cast<size_t>(hole)] = 0;
                                return m;
                            });
    default: return rc::gen::just(std::vector<int>(static_cast<size_t>(samples), 1));
    }
}

inline rc::Gen<data_spec_t> gen_data(const gen_options_t& o)
{
    // sample counts: small ones, the 8-boundaries of the bit mask, and up to max
    auto samples_gen = rc::gen::oneOf(gen::range<int>(o.min_samples, std::min(o.max_samples, std::max(o.min_samples, 17))),
                                      gen::range<int>(o.min_samples, o.max_samples),
                                      rc::gen::map(rc::gen::element(7, 8, 9, 15, 16, 17, 63, 64, 65),
                                                   [o](int n) { return std::max(o.min_samples, std::min(o.max_samples, n)); }));

    std::vector<int> kinds = {0, 0};
    if (o.allow_struct)
    {
        kinds.push_back(1);
    }
    if (o.allow_sclass)
    {
        kinds.push_back(2);
    }
    if (o.allow_mclass)
    {
        kinds.push_back(3);
    }
    auto target_kinds = std::vector<int>{};
    switch (o.target_kind)
    {
    case 0: target_kinds = {-1}; break;
    case 1: target_kinds = {0}; break;
    case 2: target_kinds = {2}; break;
    case 3: target_kinds = {3}; break;
    case 4: target_kinds = {1}; break;
    default: target_kinds = {-1, 0, 0, 1, 2, 2, 3}; break;
    }

    return rc::gen::mapcat(
        rc::gen::tuple(samples_gen, gen::range<int>(o.min_inputs, o.max_inputs), rc::gen::elementOf(target_kinds)),
        [o, kinds](const std::tuple<int, int, int>& st)
        {
            const int samples = std::get<0>(st);
            const int ninputs = std::get<1>(st);
            const int tkind   = std::get<2>(st);
            const int total   = ninputs + (tkind >= 0 ? 1 : 0);

            // per feature: kind, spec, value style, mask style
            auto feature_gen = [o, kinds, samples](int forced_kind, bool is_target)
            {
                auto kind_gen = forced_kind >= 0 ? rc::gen::just(forced_kind) : rc::gen::elementOf(kinds);
                return rc::gen::mapcat(
                    rc::gen::tuple(kind_gen, gen::range<int>(0, 2), (o.allow_missing && !is_target) ? rc::gen::element(0, 0, 1, 1, 1, 2, 3, 4, 5) : rc::gen::just(0)),
                    [o, samples, is_target](const std::tuple<int, int, int>& ksm)
                    {
                        auto fs = gen_fspec(o, std::get<0>(ksm));
                        if (is_target && std::get<0>(ksm) <= 1)
                        {
                            // regression targets are stored as float64 (scalar or structured)
                            fs = rc::gen::map(fs,
                                              [](fspec_t s)
                                              {
                                                  s.type = static_cast<int>(feature_type::float64);
                                                  return s;
                                              });
                        }
                        const int vstyle = o.ties ? std::get<1>(ksm) : 1;
                        const int mstyle = std::get<2>(ksm);
                        return rc::gen::mapcat(
                            fs,
                            [o, samples, vstyle, mstyle](const fspec_t& s)
                            {
                                return rc::gen::map(
                                    rc::gen::pair(rc::gen::container<std::vector<double>>(static_cast<size_t>(samples) * static_cast<size_t>(s.width()),
                                                                                          gen_component(s, o, vstyle)),
                                                  gen_mask(samples, mstyle)),
                                    [s](const std::pair<std::vector<double>, std::vector<int>>& vm)
                                    { return std::make_tuple(s, vm.first, vm.second); });
                            });
                    });
            };

            using feat_t = std::tuple<fspec_t, std::vector<double>, std::vector<int>>;
            return rc::gen::mapcat(
                gen::range<int>(0, total - 1), // position of the target among the features
                [=](int tpos)
                {
                    std::vector<rc::Gen<feat_t>> gens;
                    for (int f = 0; f < total; ++f)
                    {
                        const bool is_target = tkind >= 0 && f == tpos;
                        gens.push_back(feature_gen(is_target ? tkind : -1, is_target));
                    }
                    // sequence the per-feature generators
                    rc::Gen<std::vector<feat_t>> all = rc::gen::just(std::vector<feat_t>{});
                    for (const auto& g : gens)
                    {
                        all = rc::gen::mapcat(all,
                                              [g](const std::vector<feat_t>& sofar)
                                              {
                                                  return rc::gen::map(g,
                                                                      [sofar](const feat_t& f)
                                                                      {
                                                                          auto r = sofar;
                                                                          r.push_back(f);
                                                                          return r;
                                                                      });
                                              });
                    }
                    return rc::gen::map(rc::gen::pair(all, gen::range<int>(0, 9)),
                                        [=](const std::pair<std::vector<feat_t>, int>& fb)
                                        {
                                            const auto& feats = fb.first;
                                            data_spec_t d;
                                            d.bad_sets = fb.second < 7 ? 0 : fb.second - 6;
                                            d.samples = samples;
                                            d.target  = tkind >= 0 ? tpos : -1;
                                            for (const auto& ft : feats)
                                            {
                                                const auto& s = std::get<0>(ft);
                                                d.types.push_back(s.type);
                                                d.dims.push_back(s.d0);
                                                d.dims.push_back(s.d1);
                                                d.dims.push_back(s.d2);
                                                d.classes.push_back(s.classes);
                                                d.values.push_back(std::get<1>(ft));
                                                d.mask.push_back(std::get<2>(ft));
                                            }
                                            return d;
                                        });
                });
        });
}

inline std::unique_ptr<generated_datasource_t> make_datasource(const data_spec_t& spec)
{
    auto ds = std::make_unique<generated_datasource_t>(spec);
    ds->load();
    return ds;
}
} // namespace verif::ds
