// Shared helpers of the solver-contract harnesses (C02, C03): the counting function wrapper, the
// mapping of generated draws onto a solver's declared parameter domains and the log-line capture.
// Header only; used by c02_solver_contract.cpp and c03_sharp_minimum.cpp.
#pragma once

#include "common.h"

#include <algorithm>
#include <limits>
#include <nano/core/verif.h>
#include <nano/function.h>
#include <nano/solver.h>
#include <streambuf>
#include <variant>

namespace verif::ss
{
using nano::scalar_t;
using nano::tensor_size_t;
using nano::vector_cmap_t;
using nano::vector_map_t;
using nano::vector_t;

// thrown by the wrapper when the evaluation count explodes (not a std::exception on purpose)
struct runaway_t
{
};

inline vector_t to_vector(const std::vector<double>& v)
{
    vector_t x(static_cast<tensor_size_t>(v.size()));
    for (size_t i = 0; i < v.size(); ++i)
    {
        x(static_cast<tensor_size_t>(i)) = v[i];
    }
    return x;
}

inline bool same_bits(const double a, const double b)
{
    return (std::isnan(a) && std::isnan(b)) || a == b;
}

inline bool all_finite(const vector_t& x)
{
    for (tensor_size_t i = 0; i < x.size(); ++i)
    {
        if (!std::isfinite(x(i)))
        {
            return false;
        }
    }
    return true;
}

// ---------------------------------------------------------------------------------------
// counting wrapper: an ordinary user function (subclass of function_t) that forwards to the
// wrapped function and keeps its own evaluation counters, independent of the library's.
// Every evaluation goes through the same buffers and always asks the wrapped function for the
// gradient, so that f and g at a given point are bit-for-bit reproducible (no dependence on the
// alignment of the caller's vector or on a "value only" code path).
// ---------------------------------------------------------------------------------------
class counted_t final : public nano::function_t
{
public:
    explicit counted_t(const nano::function_t& inner)
        : nano::function_t("counted", inner.size())
        , m_inner(inner.clone())
        , m_xbuf(inner.size())
        , m_gbuf(inner.size())
    {
        convex(inner.convex() ? nano::convexity::yes : nano::convexity::no);
        smooth(inner.smooth() ? nano::smoothness::yes : nano::smoothness::no);
        strong_convexity(inner.strong_convexity());
    }

    counted_t(const counted_t& other)
        : nano::function_t(other)
        , m_inner(other.m_inner->clone())
        , m_xbuf(other.m_xbuf)
        , m_gbuf(other.m_gbuf)
        , m_fcount(other.m_fcount)
        , m_gcount(other.m_gcount)
        , m_max_abs_value(other.m_max_abs_value)
        , m_limit(other.m_limit)
    {
    }

    nano::rfunction_t clone() const override { return std::make_unique<counted_t>(*this); }

    scalar_t do_vgrad(vector_cmap_t x, vector_map_t gx) const override
    {
        ++m_fcount;
        if (gx.size() == size())
        {
            ++m_gcount;
        }
        if (m_limit > 0 && m_fcount + m_gcount > m_limit)
        {
            throw runaway_t{};
        }
        const auto fx = raw(x, gx);
        if (std::isfinite(fx) && std::fabs(fx) > m_max_abs_value)
        {
            m_max_abs_value = std::fabs(fx);
        }
        if (m_record)
        {
            eval_t e;
            e.f = fx;
            e.x.resize(static_cast<size_t>(size()));
            e.g.resize(static_cast<size_t>(size()));
            for (tensor_size_t i = 0; i < size(); ++i)
            {
                e.x[static_cast<size_t>(i)] = m_xbuf(i);
                e.g[static_cast<size_t>(i)] = m_gbuf(i);
            }
            m_history.push_back(std::move(e));
        }
        return fx;
    }

    // optional trace of the counted evaluations (point, value, gradient), in call order
    struct eval_t
    {
        std::vector<double> x, g;
        double              f{0.0};
    };

    void record(const bool on) { m_record = on; }

    const std::vector<eval_t>& history() const { return m_history; }

    // largest finite |f| the solver has been shown (counted evaluations only)
    double max_abs_value() const { return m_max_abs_value; }

    // evaluation that is not counted (used by the oracle)
    scalar_t eval(const vector_t& x, vector_t& gx) const
    {
        gx.resize(size());
        return raw(x, gx);
    }

    int64_t fcount() const { return m_fcount; }

    int64_t gcount() const { return m_gcount; }

    int64_t evals() const { return m_fcount + m_gcount; }

    void limit(const int64_t limit) { m_limit = limit; }

private:
    scalar_t raw(vector_cmap_t x, vector_map_t gx) const
    {
        m_xbuf        = x;
        const auto fx = m_inner->vgrad(m_xbuf, m_gbuf);
        if (gx.size() == size())
        {
            gx = m_gbuf;
        }
        return fx;
    }

    nano::rfunction_t m_inner;
    mutable vector_t  m_xbuf;
    mutable vector_t  m_gbuf;
    mutable int64_t   m_fcount{0};
    mutable int64_t   m_gcount{0};
    mutable double    m_max_abs_value{0.0};
    int64_t           m_limit{0};
    bool              m_record{false};
    mutable std::vector<eval_t> m_history;
};

// ---------------------------------------------------------------------------------------
// log capture: the solvers report one "[solver-<id>]: calls=F|G,..." line per outer iteration
// ---------------------------------------------------------------------------------------
class linebuf_t final : public std::streambuf
{
public:
    explicit linebuf_t(std::function<void(const std::string&)> on_line)
        : m_on_line(std::move(on_line))
    {
    }

protected:
    int overflow(int ch) override
    {
        if (ch != EOF)
        {
            put(static_cast<char>(ch));
        }
        return ch;
    }

    std::streamsize xsputn(const char* s, std::streamsize n) override
    {
        for (std::streamsize i = 0; i < n; ++i)
        {
            put(s[i]);
        }
        return n;
    }

private:
    void put(const char ch)
    {
        if (ch == '\n')
        {
            m_on_line(m_line);
            m_line.clear();
        }
        else
        {
            m_line.push_back(ch);
        }
    }

    std::function<void(const std::string&)> m_on_line;
    std::string                             m_line;
};

// ---------------------------------------------------------------------------------------
// parameter draws -> values inside the declared domains
//   mode 0: keep the default
//   mode 1: near the default (one decade around it / factor 4 for integers)
//   mode 2: anywhere in the declared domain (log-uniform, capped to [1e-12, 1e12] where the
//           declared bound is 0 or the largest double)
//   mode 3: at the boundary (exactly for <=, next to it for <; 1e-30 / 1e30 stand in for the
//           open ends 0 and max double)
// ---------------------------------------------------------------------------------------
inline bool is_lt(const nano::LEorLT& c)
{
    return std::holds_alternative<nano::LT_t>(c);
}

inline double lower_extreme(const double lo, const bool open)
{
    if (!open)
    {
        return lo;
    }
    if (lo == 0.0)
    {
        return 1e-30;
    }
    if (lo <= -1e100)
    {
        return -1e30;
    }
    return lo + std::fabs(lo) * 1e-12;
}

inline double upper_extreme(const double hi, const bool open)
{
    if (!open)
    {
        return hi;
    }
    if (hi >= 1e100)
    {
        return 1e30;
    }
    if (hi == 0.0)
    {
        return -1e-30;
    }
    return hi - std::fabs(hi) * 1e-12;
}

inline bool inside(const double v, const double lo, const bool lo_open, const double hi, const bool hi_open)
{
    return std::isfinite(v) && (lo_open ? v > lo : v >= lo) && (hi_open ? v < hi : v <= hi);
}

inline double draw_real(const double lo, const bool lo_open, const double hi, const bool hi_open, const double def,
                        const int mode, const double u1, const double u2)
{
    double v = def;
    switch (mode)
    {
    case 1:
        v = def != 0.0 ? def * std::pow(10.0, 2.0 * u1 - 1.0) : 1e-6 * u1;
        if (!inside(v, lo, lo_open, hi, hi_open))
        {
            v = v >= hi ? def + (std::min(hi, 1e300) - def) * 0.9 : lo + (def - lo) * 0.1;
        }
        break;
    case 2:
        if (lo >= 0.0)
        {
            const auto wl = lo > 0.0 ? lo : 1e-12;
            const auto wh = std::min(hi, 1e12);
            if (wh <= 1.0 && u2 >= 0.5)
            {
                v = lo + (hi - lo) * (0.001 + 0.998 * u1); // unit-interval parameters: uniform half of the time
            }
            else
            {
                v = wl * std::pow(wh / wl, u1);
            }
        }
        else
        {
            v = (u2 < 0.5 ? -1.0 : 1.0) * std::pow(10.0, -3.0 + 15.0 * u1);
        }
        if (!inside(v, lo, lo_open, hi, hi_open))
        {
            v = v >= hi ? upper_extreme(hi, hi_open) : lower_extreme(lo, lo_open);
        }
        break;
    case 3: v = u1 < 0.5 ? lower_extreme(lo, lo_open) : upper_extreme(hi, hi_open); break;
    default: break;
    }
    return inside(v, lo, lo_open, hi, hi_open) ? v : def;
}

inline int64_t draw_integer(const int64_t lo_, const bool lo_open, const int64_t hi_, const bool hi_open,
                            const int64_t def, const int mode, const double u1)
{
    const auto lo = lo_ + (lo_open ? 1 : 0);
    const auto hi = hi_ - (hi_open ? 1 : 0);
    auto       v  = def;
    switch (mode)
    {
    case 1: v = static_cast<int64_t>(std::llround(static_cast<double>(def) * std::pow(4.0, 2.0 * u1 - 1.0))); break;
    case 2:
    {
        const auto a = static_cast<double>(std::max<int64_t>(lo, 1));
        const auto b = static_cast<double>(hi);
        v            = static_cast<int64_t>(std::llround(a * std::pow(b / a, u1)));
        break;
    }
    case 3: v = u1 < 0.5 ? lo : hi; break;
    default: break;
    }
    return std::clamp(v, lo, hi);
}

struct applied_t
{
    std::string description;       // "name=value ..." of everything that is not at its default
    bool        any_nondefault{false};
    bool        lsearch_nondefault{false}; // a line-search setting differs from its default
};

inline bool is_lsearch_setting(const std::string& name)
{
    return name == "solver::tolerance" || name.find("lsearch") != std::string::npos;
}

// `fixed`: parameters set explicitly by the case (name -> handled by the caller, skipped here)
// `integer_cap`: optional upper caps for integer parameters (cost control), matched by substring
inline applied_t apply_parameters(nano::configurable_t& object, const std::vector<int>& modes,
                                  const std::vector<double>& u1s, const std::vector<double>& u2s,
                                  const std::vector<std::string>&                     fixed,
                                  const std::vector<std::pair<std::string, int64_t>>& integer_cap = {})
{
    applied_t applied;
    size_t    slot = 0;

    // NB: copy of the names first (assignment does not invalidate, but keep the loop simple)
    std::vector<std::string> names;
    for (const auto& p : object.parameters())
    {
        names.push_back(p.name());
    }

    for (const auto& name : names)
    {
        if (std::find(fixed.begin(), fixed.end(), name) != fixed.end())
        {
            continue;
        }
        const auto k    = slot++;
        const auto mode = k < modes.size() ? modes[k] : 0;
        const auto u1   = k < u1s.size() ? std::clamp(u1s[k], 0.0, 1.0) : 0.0;
        const auto u2   = k < u2s.size() ? std::clamp(u2s[k], 0.0, 1.0) : 0.0;
        if (mode <= 0 || mode > 3)
        {
            continue;
        }

        auto&       param   = object.parameter(name);
        const auto& storage = param.storage();
        bool        changed = false;
        std::string shown;

        if (const auto* e = std::get_if<nano::parameter_t::enum_t>(&storage))
        {
            if (!e->m_domain.empty())
            {
                const auto idx   = std::min(e->m_domain.size() - 1, static_cast<size_t>(u1 * static_cast<double>(e->m_domain.size())));
                const auto value = e->m_domain[idx];
                changed          = value != e->m_value;
                shown            = value;
                param            = value;
            }
        }
        else if (const auto* r = std::get_if<nano::parameter_t::irange_t>(&storage))
        {
            auto hi = r->m_max;
            for (const auto& [needle, cap] : integer_cap)
            {
                if (name.find(needle) != std::string::npos)
                {
                    hi = std::max(r->m_min + (is_lt(r->m_mincomp) ? 1 : 0), std::min(hi, cap));
                }
            }
            const auto hi_open = hi == r->m_max && is_lt(r->m_maxcomp);
            const auto value   = draw_integer(r->m_min, is_lt(r->m_mincomp), hi, hi_open, std::min(r->m_value, hi), mode, u1);
            changed            = value != r->m_value;
            shown              = std::to_string(value);
            param              = value;
        }
        else if (const auto* r = std::get_if<nano::parameter_t::frange_t>(&storage))
        {
            const auto value =
                draw_real(r->m_min, is_lt(r->m_mincomp), r->m_max, is_lt(r->m_maxcomp), r->m_value, mode, u1, u2);
            changed = value != r->m_value;
            shown   = cat(value);
            param   = value;
        }
        else if (const auto* r = std::get_if<nano::parameter_t::fprange_t>(&storage))
        {
            const auto lo_open = is_lt(r->m_mincomp);
            const auto hi_open = is_lt(r->m_maxcomp);
            auto       v1      = r->m_value1;
            auto       v2      = r->m_value2;
            if (mode == 3)
            {
                v1 = lower_extreme(r->m_min, lo_open);
                v2 = upper_extreme(r->m_max, hi_open);
            }
            else
            {
                v1 = draw_real(r->m_min, lo_open, r->m_max, hi_open, r->m_value1, mode, u1, 0.0);
                v2 = draw_real(r->m_min, lo_open, r->m_max, hi_open, r->m_value2, mode, u2, 1.0);
                if (r->m_min < 0.0 && mode == 2)
                {
                    v1 = -std::fabs(v1);
                    v2 = std::fabs(v2);
                }
                if (v1 > v2)
                {
                    std::swap(v1, v2);
                }
            }
            const auto ordered = is_lt(r->m_valcomp) ? v1 < v2 : v1 <= v2;
            if (!ordered)
            {
                v1 = r->m_value1;
                v2 = r->m_value2;
            }
            changed = v1 != r->m_value1 || v2 != r->m_value2;
            shown   = cat("(", v1, ",", v2, ")");
            param   = std::make_tuple(v1, v2);
        }
        // integer pairs and strings: none among the solver parameters, left at their defaults

        if (changed)
        {
            applied.any_nondefault = true;
            applied.lsearch_nondefault = applied.lsearch_nondefault || is_lsearch_setting(name);
            applied.description += name + "=" + shown + " ";
        }
    }
    return applied;
}

// generator of the draws for `slots` parameters: half of the configurations are entirely default
struct draws_t
{
    std::vector<int>    modes;
    std::vector<double> u1s, u2s;
};

inline rc::Gen<draws_t> gen_draws(const size_t slots, const int extreme_percent = 5)
{
    const auto mode = rc::gen::map(gen::range<int>(0, 99),
                                   [=](int v)
                                   {
                                       if (v < 50)
                                       {
                                           return 0;
                                       }
                                       if (v < 80)
                                       {
                                           return 1;
                                       }
                                       return v < 100 - extreme_percent ? 2 : 3;
                                   });
    return rc::gen::mapcat(gen::chance(35),
                           [=](bool all_default) -> rc::Gen<draws_t>
                           {
                               if (all_default)
                               {
                                   return rc::gen::just(draws_t{std::vector<int>(slots, 0), std::vector<double>(slots, 0.0),
                                                                std::vector<double>(slots, 0.0)});
                               }
                               return rc::gen::map(
                                   rc::gen::tuple(rc::gen::container<std::vector<int>>(slots, mode),
                                                  rc::gen::container<std::vector<double>>(slots, gen::real(0.0, 1.0)),
                                                  rc::gen::container<std::vector<double>>(slots, gen::real(0.0, 1.0))),
                                   [](const std::tuple<std::vector<int>, std::vector<double>, std::vector<double>>& t) {
                                       return draws_t{std::get<0>(t), std::get<1>(t), std::get<2>(t)};
                                   });
                           });
}

inline const char* status_name(const nano::solver_status s)
{
    switch (s)
    {
    case nano::solver_status::max_iters: return "max_iters";
    case nano::solver_status::converged: return "converged";
    case nano::solver_status::failed: return "failed";
    case nano::solver_status::unfeasible: return "unfeasible";
    case nano::solver_status::unbounded: return "unbounded";
    default: return "invalid";
    }
}
} // namespace verif::ss
