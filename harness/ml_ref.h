// Helpers shared by c09_objectives.cpp and c14_scaling.cpp: the flatten column layout implied by a
// generated data source (reference model, independent of the library's own bookkeeping), the raw
// flatten / target matrices it has to produce (validated value by value by C08), and the harness
// re-implementation of the four scaling modes.
#pragma once

#include "common.h"
#include "dataset_gen.h"

#include <nano/dataset.h>
#include <nano/dataset/stats.h>
#include <nano/generator/elemwise_identity.h>

#include <limits>

namespace verif::mlref
{
using ds::data_spec_t;
using ds::fspec_t;

constexpr double eps = std::numeric_limits<double>::epsilon();
constexpr double qnan = std::numeric_limits<double>::quiet_NaN();

struct column_t
{
    int  feature{0}; // index into the data_spec_t (not the dataset's feature index)
    int  comp{0};
    bool categorical{false};
};

struct layout_t
{
    std::vector<column_t> cols;
    int                   tsize{0};
    bool                  target_categorical{false};

    int ncols() const { return static_cast<int>(cols.size()); }
};

// the four identity generators are always added in the order sclass, mclass, scalar, struct;
// each serves the input features of its kind in data-source order:
//   sclass with C classes -> C-1 columns of +-1, mclass -> C columns of +-1, scalar -> 1, struct -> d0*d1*d2
inline layout_t make_layout(const data_spec_t& d)
{
    layout_t   l;
    const auto inputs = d.inputs();
    for (int kind = 0; kind < 4; ++kind)
    {
        for (const auto f : inputs)
        {
            const auto s = d.spec(f);
            if (kind == 0 && s.is_sclass())
            {
                for (int k = 0; k + 1 < s.classes; ++k)
                {
                    l.cols.push_back({f, k, true});
                }
            }
            else if (kind == 1 && s.is_mclass())
            {
                for (int k = 0; k < s.classes; ++k)
                {
                    l.cols.push_back({f, k, true});
                }
            }
            else if (kind == 2 && s.is_scalar())
            {
                l.cols.push_back({f, 0, false});
            }
            else if (kind == 3 && s.is_struct())
            {
                for (int k = 0; k < s.dsize(); ++k)
                {
                    l.cols.push_back({f, k, false});
                }
            }
        }
    }
    if (d.target >= 0)
    {
        const auto s         = d.spec(d.target);
        l.tsize              = s.is_continuous() ? s.dsize() : s.classes;
        l.target_categorical = !s.is_continuous();
    }
    return l;
}

inline void add_generators(nano::dataset_t& dataset)
{
    dataset.add<nano::sclass_identity_generator_t>();
    dataset.add<nano::mclass_identity_generator_t>();
    dataset.add<nano::scalar_identity_generator_t>();
    dataset.add<nano::struct_identity_generator_t>();
}

// raw flatten value of (sample, column): NaN when the feature value is missing
inline double raw_input(const data_spec_t& d, const column_t& c, int sample)
{
    if (!d.given(c.feature, sample))
    {
        return qnan;
    }
    const auto s = d.spec(c.feature);
    if (s.is_sclass())
    {
        return static_cast<int>(d.stored(c.feature, sample, 0)) == c.comp ? 1.0 : -1.0;
    }
    if (s.is_mclass())
    {
        return 2.0 * d.stored(c.feature, sample, c.comp) - 1.0;
    }
    return d.stored(c.feature, sample, c.comp);
}

inline double raw_target(const data_spec_t& d, int sample, int k)
{
    const auto s = d.spec(d.target);
    if (s.is_sclass())
    {
        return static_cast<int>(d.stored(d.target, sample, 0)) == k ? 1.0 : -1.0;
    }
    if (s.is_mclass())
    {
        return 2.0 * d.stored(d.target, sample, k) - 1.0;
    }
    return d.stored(d.target, sample, k);
}

inline bool same_value(double a, double b)
{
    return (std::isnan(a) && std::isnan(b)) || a == b;
}

// harness re-implementation of the scaling modes (none, mean, minmax, standard) from the statistics;
// non-finite results (missing values) become zero
inline double scale_ref(int mode, const nano::scalar_stats_t& st, nano::tensor_size_t col, double v)
{
    double r = v;
    switch (mode)
    {
    case 1: r = (v - st.m_mean(col)) * st.m_div_range(col); break;
    case 2: r = (v - st.m_min(col)) * st.m_div_range(col); break;
    case 3: r = (v - st.m_mean(col)) * st.m_div_stdev(col); break;
    default: break;
    }
    return std::isfinite(r) ? r : 0.0;
}

inline nano::indices_t to_indices(const std::vector<int>& v)
{
    nano::indices_t r(static_cast<nano::tensor_size_t>(v.size()));
    for (size_t i = 0; i < v.size(); ++i)
    {
        r(static_cast<nano::tensor_size_t>(i)) = v[i];
    }
    return r;
}

// sorted, distinct, non-empty subsets of 0..n-1 (what the splitters hand to the iterators)
inline rc::Gen<std::vector<int>> gen_subset(int n)
{
    return rc::gen::mapcat(gen::range<int>(0, 5),
                           [n](int style) -> rc::Gen<std::vector<int>>
                           {
                               std::vector<int> all(static_cast<size_t>(n));
                               for (int i = 0; i < n; ++i)
                               {
                                   all[static_cast<size_t>(i)] = i;
                               }
                               switch (style)
                               {
                               case 0:
                               case 1: return rc::gen::just(all);
                               case 2: // random subset
                                   return rc::gen::map(rc::gen::container<std::vector<int>>(static_cast<size_t>(n), gen::range<int>(0, 2)),
                                                       [n](const std::vector<int>& keep)
                                                       {
                                                           std::vector<int> r;
                                                           for (int i = 0; i < n; ++i)
                                                           {
                                                               if (keep[static_cast<size_t>(i)] != 0)
                                                               {
                                                                   r.push_back(i);
                                                               }
                                                           }
                                                           if (r.empty())
                                                           {
                                                               r.push_back(n - 1);
                                                           }
                                                           return r;
                                                       });
                               case 3: // a range [a, b]
                                   return rc::gen::map(rc::gen::pair(gen::range<int>(0, n - 1), gen::range<int>(0, n - 1)),
                                                       [](const std::pair<int, int>& ab)
                                                       {
                                                           std::vector<int> r;
                                                           for (int i = std::min(ab.first, ab.second); i <= std::max(ab.first, ab.second); ++i)
                                                           {
                                                               r.push_back(i);
                                                           }
                                                           return r;
                                                       });
                               case 4: // every second sample
                               {
                                   std::vector<int> r;
                                   for (int i = n > 1 ? 1 : 0; i < n; i += 2)
                                   {
                                       r.push_back(i);
                                   }
                                   return rc::gen::just(r);
                               }
                               default: return rc::gen::map(gen::range<int>(0, n - 1), [](int i) { return std::vector<int>(1, i); });
                               }
                           });
}

inline bool valid_subset(const std::vector<int>& s, int n)
{
    if (s.empty())
    {
        return false;
    }
    for (size_t i = 0; i < s.size(); ++i)
    {
        if (s[i] < 0 || s[i] >= n || (i > 0 && s[i] <= s[i - 1]))
        {
            return false;
        }
    }
    return true;
}
} // namespace verif::mlref
