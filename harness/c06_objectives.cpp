// C06 — machine-learning objectives: linear::function_t and the three gboost objectives over generated datasets
// (DESIGN.md section 5, C06; known finding F4 in section 9).  The oracle is in c06_calculus.h.
//
// Data source: a datasource_t subclass that loads the generated values (the extension point the repository's own
// fixtures use): 1..6 scalar input features, 5..40 samples, a regression target with 1..3 components, a single-label
// target with 2..3 classes or a multi-label target with 1..3 labels, chosen to match the loss family.
#include "c06_calculus.h"

#include <nano/core/verif.h>
#include <nano/dataset.h>
#include <nano/dataset/iterator.h>
#include <nano/datasource.h>
#include <nano/gboost/function.h>
#include <nano/generator/elemwise_identity.h>
#include <nano/linear/function.h>
#include <nano/loss.h>
#include <nano/machine/cluster.h>

using namespace verif;
using c06::vec_t;

namespace
{
const char* const F4_SIG = "C06/linear-objective/strong-convexity/bias-direction";

enum class family_t
{
    regression,
    single_label,
    multi_label
};

family_t family_of(const std::string& id)
{
    if (id.rfind("s-", 0) == 0)
    {
        return family_t::single_label;
    }
    if (id.rfind("m-", 0) == 0)
    {
        return family_t::multi_label;
    }
    return family_t::regression;
}

struct ocase_t
{
    int              kind{0}; // 0 linear, 1 gboost-bias, 2 gboost-scale, 3 gboost-grads
    std::string      loss;
    double           alpha{0.5};
    int              samples{5}, inputs{1}, targets{1};
    vec_t            xs;     // samples*inputs
    vec_t            ys;     // samples*targets (regression)
    std::vector<int> labels; // samples*targets: multi-label bits; single-label: labels[s*targets] is the class index
    std::vector<int> used;   // samples: 1 if the sample is part of the iterator's sample list
    int              batch{1};
    int              scaling{0};
    double           l1{0}, l2{0};
    int              groups{1};
    std::vector<int> cluster; // samples: -1 (unassigned) .. groups-1
    vec_t            soutputs, woutputs; // samples*targets
    c06::material_t  m;

    template <class A>
    void io(A& a)
    {
        a("kind", kind);
        a("loss", loss);
        a("alpha", alpha);
        a("samples", samples);
        a("inputs", inputs);
        a("targets", targets);
        a("xs", xs);
        a("ys", ys);
        a("labels", labels);
        a("used", used);
        a("batch", batch);
        a("scaling", scaling);
        a("l1", l1);
        a("l2", l2);
        a("groups", groups);
        a("cluster", cluster);
        a("soutputs", soutputs);
        a("woutputs", woutputs);
        m.io(a);
    }
};

std::vector<int> used_samples(const ocase_t& c)
{
    std::vector<int> s;
    for (int i = 0; i < c.samples; ++i)
    {
        if (c.used[static_cast<size_t>(i)] != 0)
        {
            s.push_back(i);
        }
    }
    if (s.empty())
    {
        s.push_back(0);
    }
    return s;
}

size_t object_size(const ocase_t& c)
{
    switch (c.kind)
    {
    case 0: return static_cast<size_t>((c.inputs + 1) * c.targets);
    case 1: return static_cast<size_t>(c.targets);
    case 2: return static_cast<size_t>(c.groups);
    default: return used_samples(c).size() * static_cast<size_t>(c.targets);
    }
}

rc::Gen<ocase_t> gen_ocase()
{
    std::vector<std::string> ids;
    for (const auto& id : nano::loss_t::all().ids())
    {
        ids.push_back(id);
    }
    const auto reg = rc::gen::oneOf(rc::gen::just(0.0), gen::logu(1e-6, 1e3));
    return rc::gen::mapcat(
        rc::gen::tuple(rc::gen::weightedElement<int>({{5, 0}, {2, 1}, {2, 2}, {1, 3}}), rc::gen::elementOf(ids), gen::range<int>(5, 40),
                       gen::range<int>(1, 6), gen::range<int>(1, 3), gen::range<int>(1, 3)),
        [=](const std::tuple<int, std::string, int, int, int, int>& t)
        {
            const auto kind    = std::get<0>(t);
            const auto id      = std::get<1>(t);
            const auto samples = std::get<2>(t);
            const auto inputs  = std::get<3>(t);
            const auto fam     = family_of(id);
            const auto targets = fam == family_t::single_label ? std::max(2, std::get<4>(t)) : std::get<4>(t);
            const auto groups  = std::get<5>(t);
            const auto st      = static_cast<size_t>(samples * targets);
            const auto labels  = fam == family_t::single_label
                                   ? rc::gen::container<std::vector<int>>(st, gen::range<int>(0, targets - 1))
                                   : rc::gen::container<std::vector<int>>(st, gen::range<int>(0, 1));
            const auto used    = rc::gen::oneOf(rc::gen::container<std::vector<int>>(static_cast<size_t>(samples), rc::gen::just(1)),
                                                rc::gen::container<std::vector<int>>(static_cast<size_t>(samples), rc::gen::weightedElement<int>({{3, 1}, {1, 0}})));
            return rc::gen::mapcat(
                rc::gen::noShrink(used),
                [=](const std::vector<int>& u)
                {
                    ocase_t proto;
                    proto.kind = kind, proto.samples = samples, proto.inputs = inputs, proto.targets = targets, proto.groups = groups, proto.used = u;
                    const auto n = object_size(proto);
                    return rc::gen::map(
                        rc::gen::tuple(rc::gen::oneOf(gen::real(0.0, 1.0), rc::gen::element(0.0, 1.0, 0.5)),
                                       rc::gen::noShrink(gen::vec(static_cast<size_t>(samples * inputs), 3.0)),
                                       rc::gen::noShrink(rc::gen::oneOf(gen::vec(st, 5.0), rc::gen::container<vec_t>(st, gen::smallint(-2, 2)))),
                                       rc::gen::noShrink(labels), gen::range<int>(1, samples + 1), gen::range<int>(0, 3), reg, reg,
                                       rc::gen::noShrink(rc::gen::container<std::vector<int>>(static_cast<size_t>(samples), gen::range<int>(-1, groups - 1))),
                                       rc::gen::noShrink(gen::vec(st, 3.0)), rc::gen::noShrink(gen::vec(st, 2.0)),
                                       c06::gen_material(n, 60)),
                        [=](const std::tuple<double, vec_t, vec_t, std::vector<int>, int, int, double, double, std::vector<int>, vec_t, vec_t,
                                             c06::material_t>& v)
                        {
                            ocase_t c  = proto;
                            c.loss     = id;
                            c.alpha    = std::get<0>(v);
                            c.xs       = std::get<1>(v);
                            c.ys       = std::get<2>(v);
                            c.labels   = std::get<3>(v);
                            c.batch    = std::get<4>(v);
                            c.scaling  = std::get<5>(v);
                            c.l1       = std::get<6>(v);
                            c.l2       = std::get<7>(v);
                            c.cluster  = std::get<8>(v);
                            c.soutputs = std::get<9>(v);
                            c.woutputs = std::get<10>(v);
                            c.m        = std::get<11>(v);
                            return c;
                        });
                });
        });
}

class gen_datasource_t final : public nano::datasource_t
{
public:
    explicit gen_datasource_t(const ocase_t& c)
        : nano::datasource_t("c06-generated")
        , m_case(&c)
    {
    }

    nano::rdatasource_t clone() const override { return std::make_unique<gen_datasource_t>(*this); }

private:
    void do_load() override
    {
        const auto& c   = *m_case;
        const auto  fam = family_of(c.loss);

        nano::features_t features;
        for (int i = 0; i < c.inputs; ++i)
        {
            features.push_back(nano::feature_t{"x" + std::to_string(i)}.scalar(nano::feature_type::float64));
        }
        switch (fam)
        {
        case family_t::regression:
            features.push_back(nano::feature_t{"y"}.scalar(nano::feature_type::float64, nano::make_dims(c.targets, 1, 1)));
            break;
        case family_t::single_label: features.push_back(nano::feature_t{"y"}.sclass(static_cast<size_t>(c.targets))); break;
        default: features.push_back(nano::feature_t{"y"}.mclass(static_cast<size_t>(c.targets))); break;
        }
        resize(c.samples, features, static_cast<size_t>(c.inputs));

        for (int s = 0; s < c.samples; ++s)
        {
            for (int i = 0; i < c.inputs; ++i)
            {
                set(s, i, c.xs[static_cast<size_t>(s * c.inputs + i)]);
            }
            const auto base = static_cast<size_t>(s * c.targets);
            switch (fam)
            {
            case family_t::regression:
            {
                nano::tensor3d_t y(c.targets, 1, 1);
                for (int k = 0; k < c.targets; ++k)
                {
                    y(k, 0, 0) = c.ys[base + static_cast<size_t>(k)];
                }
                set(s, c.inputs, y);
                break;
            }
            case family_t::single_label: set(s, c.inputs, c.labels[base]); break;
            default:
            {
                nano::tensor_mem_t<int8_t, 1> bits(c.targets);
                for (int k = 0; k < c.targets; ++k)
                {
                    bits(k) = static_cast<int8_t>(c.labels[base + static_cast<size_t>(k)]);
                }
                set(s, c.inputs, bits);
                break;
            }
            }
        }
    }

    const ocase_t* m_case;
};

nano::vector_t to_vector(const vec_t& v)
{
    nano::vector_t x(static_cast<nano::tensor_size_t>(v.size()));
    for (size_t i = 0; i < v.size(); ++i)
    {
        x(static_cast<nano::tensor_size_t>(i)) = v[i];
    }
    return x;
}

c06::object_t wrap_function(const nano::function_t& f, std::string where)
{
    c06::object_t o;
    o.family = "objectives";
    o.where  = std::move(where);
    o.n      = static_cast<size_t>(f.size());
    o.convex = f.convex();
    o.smooth = f.smooth();
    o.mu     = f.strong_convexity();
    o.value  = [&f](const vec_t& x) { return f.vgrad(to_vector(x)); };
    o.vgrad  = [&f](const vec_t& x, vec_t& g)
    {
        nano::vector_t gx(static_cast<nano::tensor_size_t>(x.size()));
        gx.full(std::numeric_limits<double>::quiet_NaN());
        const auto fx = f.vgrad(to_vector(x), gx);
        g.resize(x.size());
        for (size_t i = 0; i < g.size(); ++i)
        {
            g[i] = gx(static_cast<nano::tensor_size_t>(i));
        }
        return fx;
    };
    return o;
}

verdict_t check_ocase(const ocase_t& c, ctx_t& ctx)
{
    const auto st = static_cast<size_t>(c.samples) * static_cast<size_t>(std::max(c.targets, 0));
    if (c.kind < 0 || c.kind > 3 || c.samples < 1 || c.samples > 1000 || c.inputs < 1 || c.targets < 1 || c.groups < 1 ||
        c.xs.size() != static_cast<size_t>(c.samples * c.inputs) || c.ys.size() != st || c.labels.size() != st ||
        c.used.size() != static_cast<size_t>(c.samples) || c.cluster.size() != static_cast<size_t>(c.samples) || c.soutputs.size() != st ||
        c.woutputs.size() != st || c.batch < 1 || c.scaling < 0 || c.scaling > 3 || !(c.l1 >= 0.0) || !(c.l2 >= 0.0) ||
        !(c.alpha >= 0.0 && c.alpha <= 1.0))
    {
        return verdict_t::discard("out-of-domain");
    }
    const auto fam = family_of(c.loss);
    if (fam == family_t::single_label && c.targets < 2)
    {
        return verdict_t::discard("single-label-target-with-one-class");
    }
    for (size_t i = 0; i < st; ++i)
    {
        const auto l = c.labels[i];
        if (l < 0 || (fam == family_t::single_label ? l >= c.targets : l > 1))
        {
            return verdict_t::discard("label-out-of-range");
        }
    }
    for (const auto g : c.cluster)
    {
        if (g < -1 || g >= c.groups)
        {
            return verdict_t::discard("group-out-of-range");
        }
    }
    nano::verif::rng_state().store(0x9e3779b97f4a7c15ULL ^ static_cast<uint64_t>(c.samples * 131 + c.inputs));

    static const char* kinds[]    = {"linear-objective", "gboost-bias", "gboost-scale", "gboost-grads"};
    static const char* scalings[] = {"none", "mean", "minmax", "standard"};
    try
    {
        auto loss = nano::loss_t::all().get(c.loss);
        if (!loss)
        {
            return verdict_t::discard("unknown-loss");
        }
        if (c.loss == "pinball")
        {
            loss->parameter("loss::pinball::alpha") = c.alpha;
        }

        auto datasource = gen_datasource_t{c};
        datasource.load();
        auto dataset = nano::dataset_t{datasource, 1U}; // one thread: evaluation order (and so every bit) is reproducible
        dataset.add<nano::scalar_identity_generator_t>();
        if (dataset.columns() != c.inputs || nano::size(dataset.target_dims()) != c.targets)
        {
            return verdict_t::violation("C06/harness/dataset-shape", cat("columns=", dataset.columns(), " inputs=", c.inputs));
        }

        const auto      used = used_samples(c);
        nano::indices_t samples(static_cast<nano::tensor_size_t>(used.size()));
        for (size_t i = 0; i < used.size(); ++i)
        {
            samples(static_cast<nano::tensor_size_t>(i)) = used[i];
        }
        const auto scaling = static_cast<nano::scaling_type>(c.scaling);
        const auto where   = std::string("C06/") + kinds[c.kind];

        c06::counters_t cnt;
        verdict_t       v;
        if (c.kind == 0)
        {
            auto iterator = nano::flatten_iterator_t{dataset, samples};
            iterator.batch(c.batch);
            iterator.scaling(scaling);
            const auto fun = nano::linear::function_t{iterator, *loss, c.l1, c.l2};
            auto       o   = wrap_function(fun, where);
            if (o.n != object_size(c))
            {
                return verdict_t::violation(where + "/size", cat("size=", o.n, " expected=", object_size(c)));
            }
            o.bias_begin = static_cast<long>(c.inputs * c.targets);
            o.bias_end   = static_cast<long>((c.inputs + 1) * c.targets);
            o.known_sig  = F4_SIG;
            v            = c06::check_object(o, c.m, ctx, cnt);
            ctx.label_if(c.l1 > 0, "linear/l1>0");
            ctx.label_if(c.l2 > 0, "linear/l2>0");
            ctx.label_if(c.l1 == 0 && c.l2 == 0, "linear/no-regularisation");
        }
        else
        {
            auto iterator = nano::targets_iterator_t{dataset, samples};
            iterator.batch(c.batch);
            iterator.scaling(scaling);
            if (c.kind == 1)
            {
                const auto fun = nano::gboost::bias_function_t{iterator, *loss};
                auto       o   = wrap_function(fun, where);
                v              = c06::check_object(o, c.m, ctx, cnt);
            }
            else if (c.kind == 3)
            {
                const auto fun = nano::gboost::grads_function_t{iterator, *loss};
                auto       o   = wrap_function(fun, where);
                if (o.n != object_size(c))
                {
                    return verdict_t::violation(where + "/size", cat("size=", o.n, " expected=", object_size(c)));
                }
                v = c06::check_object(o, c.m, ctx, cnt);
            }
            else
            {
                nano::cluster_t cluster(c.samples, c.groups);
                bool            any_unassigned = false;
                for (int s = 0; s < c.samples; ++s)
                {
                    if (c.cluster[static_cast<size_t>(s)] >= 0)
                    {
                        cluster.assign(s, c.cluster[static_cast<size_t>(s)]);
                    }
                    else
                    {
                        any_unassigned = true;
                    }
                }
                nano::tensor4d_t so(c.samples, c.targets, 1, 1), wo(c.samples, c.targets, 1, 1);
                for (int s = 0; s < c.samples; ++s)
                {
                    for (int k = 0; k < c.targets; ++k)
                    {
                        so(s, k, 0, 0) = c.soutputs[static_cast<size_t>(s * c.targets + k)];
                        wo(s, k, 0, 0) = c.woutputs[static_cast<size_t>(s * c.targets + k)];
                    }
                }
                const auto fun = nano::gboost::scale_function_t{iterator, *loss, cluster, so, wo};
                auto       o   = wrap_function(fun, where);
                v              = c06::check_object(o, c.m, ctx, cnt);
                ctx.label_if(any_unassigned, "gboost-scale/unassigned-samples");
            }
        }
        // signatures carry the object kind, the loss is reported as a class label
        ctx.label(std::string("objective/") + kinds[c.kind]);
        ctx.label("objective-loss/" + c.loss);
        ctx.label(std::string("scaling/") + scalings[c.scaling]);
        ctx.label_if(c.batch == 1, "batch/1");
        ctx.label_if(c.batch > static_cast<int>(used.size()), "batch/larger-than-samples");
        ctx.label_if(static_cast<int>(used.size()) < c.samples, "sample-subset");
        ctx.label(fam == family_t::regression ? "target/regression" : fam == family_t::single_label ? "target/single-label" : "target/multi-label");
        if (v.kind == kind_t::violation)
        {
            v.msg = "loss=" + c.loss + " scaling=" + scalings[c.scaling] + cat(" samples=", used.size(), " inputs=", c.inputs, " targets=", c.targets,
                                                                              " l1=", c.l1, " l2=", c.l2, " batch=", c.batch, " ") + v.msg;
        }
        return v;
    }
    catch (const std::exception& e)
    {
        return verdict_t::violation(std::string("C06/exception/") + kinds[c.kind], e.what());
    }
}
} // namespace

int main(int argc, char** argv)
{
    suite_t suite("C06");
    suite.add<ocase_t>("objectives", gen_ocase, check_ocase, 1.0);
    return suite.main(argc, argv);
}
