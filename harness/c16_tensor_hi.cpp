// C16 (ranks 4..5 and nano::stack): see c16_tensor.cpp / c16_tensor.h.
#define C16_RANK_MIN 4
#define C16_RANK_MAX 5
#define C16_SUFFIX "-hi"
#define C16_WITH_STACK
#include "c16_tensor.h"
