// C06 — values, gradients and convexity flags are truthful: benchmark functions, constraints and the
// quadratic surrogate functions of the tuner (DESIGN.md section 5, C06).  Losses: c06_losses.cpp,
// linear / gboost objectives: c06_objectives.cpp.  The oracle is in c06_calculus.h.
#include "c06_calculus.h"

#include <nano/function.h>
#include <nano/function/constraint.h>
#include <nano/function/util.h>
#include <nano/loss.h>
#include <nano/tuner/surrogate.h>

using namespace verif;
using c06::vec_t;

namespace
{
nano::vector_t to_vector(const vec_t& v)
{
    nano::vector_t x(static_cast<nano::tensor_size_t>(v.size()));
    for (size_t i = 0; i < v.size(); ++i)
    {
        x(static_cast<nano::tensor_size_t>(i)) = v[i];
    }
    return x;
}

void from_vector(const nano::vector_t& g, vec_t& v)
{
    v.resize(static_cast<size_t>(g.size()));
    for (size_t i = 0; i < v.size(); ++i)
    {
        v[i] = g(static_cast<nano::tensor_size_t>(i));
    }
}

// wraps a nano::function_t (kept alive by the caller)
c06::object_t wrap_function(const nano::function_t& f, std::string family, std::string where)
{
    c06::object_t o;
    o.family = std::move(family);
    o.where  = std::move(where);
    o.n      = static_cast<size_t>(f.size());
    o.convex = f.convex();
    o.smooth = f.smooth();
    o.mu     = f.strong_convexity();
    o.value  = [&f](const vec_t& x) { return f.vgrad(to_vector(x)); };
    o.vgrad  = [&f](const vec_t& x, vec_t& g)
    {
        nano::vector_t gx(static_cast<nano::tensor_size_t>(x.size()));
        gx.full(std::numeric_limits<double>::quiet_NaN()); // the call must write every component
        const auto fx = f.vgrad(to_vector(x), gx);
        from_vector(gx, g);
        return fx;
    };
    return o;
}

std::vector<std::string> function_ids()
{
    std::vector<std::string> ids;
    for (const auto& id : nano::function_t::all().ids())
    {
        ids.push_back(id);
    }
    return ids;
}

rc::Gen<int> gen_dims(int maxd)
{
    std::vector<int> special;
    for (const int d : {1, 2, 3, 4, 5, 7, 8, 16, 32})
    {
        if (d <= maxd)
        {
            special.push_back(d);
        }
    }
    return rc::gen::oneOf(rc::gen::elementOf(special), gen::range<int>(1, maxd), gen::range<int>(1, std::min(maxd, 6)));
}

// ---- benchmark functions ---------------------------------------------------------------------
struct fcase_t
{
    std::string     id;
    int             dims{1};
    int             summands{10};
    c06::material_t m;

    template <class A>
    void io(A& a)
    {
        a("id", id);
        a("dims", dims);
        a("summands", summands);
        m.io(a);
    }
};

rc::Gen<fcase_t> gen_fcase()
{
    const auto ids = function_ids();
    return rc::gen::mapcat(rc::gen::tuple(rc::gen::elementOf(ids), gen_dims(32), gen::range<int>(1, 60)),
                           [](const std::tuple<std::string, int, int>& t)
                           {
                               const auto id       = std::get<0>(t);
                               const auto dims     = std::get<1>(t);
                               const auto summands = std::get<2>(t);
                               // the built function may have another size than requested (powell, rosenbrock, elastic net)
                               const auto proto = nano::function_t::all().get(id);
                               const auto fun   = proto ? proto->make(dims, summands) : nano::rfunction_t{};
                               const auto n     = fun ? static_cast<size_t>(fun->size()) : static_cast<size_t>(dims);
                               return rc::gen::map(c06::gen_material(n, 200),
                                                   [=](c06::material_t m)
                                                   {
                                                       fcase_t c;
                                                       c.id       = id;
                                                       c.dims     = dims;
                                                       c.summands = summands;
                                                       c.m        = std::move(m);
                                                       return c;
                                                   });
                           });
}

verdict_t check_fcase(const fcase_t& c, ctx_t& ctx)
{
    if (c.dims < 1 || c.dims > 32 || c.summands < 1)
    {
        return verdict_t::discard("out-of-domain");
    }
    try
    {
        const auto proto = nano::function_t::all().get(c.id);
        if (!proto)
        {
            return verdict_t::discard("unknown-function-id");
        }
        const auto fun = proto->make(c.dims, c.summands);
        if (!fun)
        {
            return verdict_t::violation("C06/function/" + c.id + "/make-returns-null", cat("dims=", c.dims));
        }
        // the flags of the built function must be the ones of the prototype family (they are what solvers read)
        auto o = wrap_function(*fun, "functions", "C06/function/" + c.id);
        c06::counters_t cnt;
        const auto      v = c06::check_object(o, c.m, ctx, cnt);
        ctx.label("function/" + c.id);
        return v;
    }
    catch (const std::exception& e)
    {
        return verdict_t::violation("C06/exception/function/" + c.id, e.what());
    }
}

// ---- constraints -------------------------------------------------------------------------------
struct ccase_t
{
    int             kind{0};  // index into the constraint_t variant (0..10)
    int             dims{1};
    int             index{0}; // dimension of constant / minimum / maximum
    int             pmode{0}; // quadratic term: 0 B B^T (rank k), 1 B B^T + c I, 2 symmetric indefinite, 3 diagonal >= 0, 4 zero,
                              // 5 general (non-symmetric), 6 upper triangular with a positive diagonal (non-symmetric, real positive eigenvalues)
    int             rank{1};
    double          scalar{0}; // value / radius / r
    double          shift{0};
    double          pscale{1};
    vec_t           q;   // origin / q
    vec_t           P;   // dims*dims raw values in [-1, 1]
    std::string     fid; // functional: wrapped benchmark function
    int             summands{10};
    c06::material_t m;

    template <class A>
    void io(A& a)
    {
        a("kind", kind);
        a("dims", dims);
        a("index", index);
        a("pmode", pmode);
        a("rank", rank);
        a("scalar", scalar);
        a("shift", shift);
        a("pscale", pscale);
        a("q", q);
        a("P", P);
        a("fid", fid);
        a("summands", summands);
        m.io(a);
    }
};

const char* kind_name(int kind)
{
    static const char* names[] = {"constant",         "minimum",         "maximum",           "euclidean-ball-equality", "euclidean-ball-inequality",
                                  "linear-equality",  "linear-inequality", "quadratic-equality", "quadratic-inequality",
                                  "functional-equality", "functional-inequality"};
    return (kind >= 0 && kind <= 10) ? names[kind] : "?";
}

rc::Gen<ccase_t> gen_ccase()
{
    const auto ids = function_ids();
    return rc::gen::mapcat(
        rc::gen::tuple(gen::range<int>(0, 10), gen_dims(12), rc::gen::elementOf(ids), gen::range<int>(1, 30)),
        [](const std::tuple<int, int, std::string, int>& t)
        {
            const auto kind     = std::get<0>(t);
            auto       dims     = std::get<1>(t);
            const auto fid      = std::get<2>(t);
            const auto summands = std::get<3>(t);
            size_t     n        = static_cast<size_t>(dims);
            if (kind >= 9)
            {
                const auto proto = nano::function_t::all().get(fid);
                const auto fun   = proto->make(dims, summands);
                n                = static_cast<size_t>(fun->size());
            }
            const auto nn = static_cast<size_t>(dims) * static_cast<size_t>(dims);
            return rc::gen::map(
                rc::gen::tuple(gen::range<int>(0, dims - 1), gen::range<int>(0, 6), gen::range<int>(1, dims),
                               rc::gen::oneOf(gen::sym(5.0), gen::smallint(-2, 2), gen::logu(1e-3, 1e3)), gen::logu(1e-6, 10.0),
                               gen::logu(1e-3, 1e3), rc::gen::oneOf(gen::vec(static_cast<size_t>(dims), 3.0), gen::vec(static_cast<size_t>(dims), 0.0)),
                               gen::vec(nn, 1.0), c06::gen_material(n, 100)),
                [=](const std::tuple<int, int, int, double, double, double, vec_t, vec_t, c06::material_t>& u)
                {
                    ccase_t c;
                    c.kind     = kind;
                    c.dims     = dims;
                    c.fid      = fid;
                    c.summands = summands;
                    c.index    = std::get<0>(u);
                    c.pmode    = std::get<1>(u);
                    c.rank     = std::get<2>(u);
                    c.scalar   = std::get<3>(u);
                    c.shift    = std::get<4>(u);
                    c.pscale   = std::get<5>(u);
                    c.q        = std::get<6>(u);
                    c.P        = std::get<7>(u);
                    c.m        = std::get<8>(u);
                    return c;
                });
        });
}

nano::matrix_t make_P(const ccase_t& c, double& frobenius)
{
    const auto     n = static_cast<nano::tensor_size_t>(c.dims);
    nano::matrix_t B(n, n), P(n, n);
    for (nano::tensor_size_t i = 0; i < n; ++i)
    {
        for (nano::tensor_size_t j = 0; j < n; ++j)
        {
            B(i, j) = c.P[static_cast<size_t>(i * n + j)];
        }
    }
    P.full(0.0);
    const auto k = std::clamp<nano::tensor_size_t>(c.rank, 1, n);
    switch (c.pmode)
    {
    case 0:
    case 1:
        // B_k B_k^T: exactly symmetric (each entry is computed once and mirrored)
        for (nano::tensor_size_t i = 0; i < n; ++i)
        {
            for (nano::tensor_size_t j = i; j < n; ++j)
            {
                double s = 0;
                for (nano::tensor_size_t l = 0; l < k; ++l)
                {
                    s += B(i, l) * B(j, l);
                }
                P(i, j) = P(j, i) = c.pscale * s;
            }
            if (c.pmode == 1)
            {
                P(i, i) += c.shift;
            }
        }
        break;
    case 2:
        for (nano::tensor_size_t i = 0; i < n; ++i)
        {
            for (nano::tensor_size_t j = i; j < n; ++j)
            {
                P(i, j) = P(j, i) = c.pscale * 0.5 * (B(i, j) + B(j, i));
            }
        }
        break;
    case 3:
        for (nano::tensor_size_t i = 0; i < n; ++i)
        {
            P(i, i) = c.pscale * std::fabs(B(i, i)) + c.shift;
        }
        break;
    case 5:
        // nothing in the library requires a symmetric P: the value is 1/2 x'Px + q.x + r for any P
        for (nano::tensor_size_t i = 0; i < n; ++i)
        {
            for (nano::tensor_size_t j = 0; j < n; ++j)
            {
                P(i, j) = c.pscale * B(i, j);
            }
        }
        break;
    case 6:
        for (nano::tensor_size_t i = 0; i < n; ++i)
        {
            P(i, i) = c.pscale * std::fabs(B(i, i)) + c.shift;
            for (nano::tensor_size_t j = i + 1; j < n; ++j)
            {
                P(i, j) = c.pscale * B(i, j);
            }
        }
        break;
    default: break;
    }
    frobenius = 0;
    for (nano::tensor_size_t i = 0; i < n; ++i)
    {
        for (nano::tensor_size_t j = 0; j < n; ++j)
        {
            frobenius += P(i, j) * P(i, j);
        }
    }
    frobenius = std::sqrt(frobenius);
    return P;
}

verdict_t check_ccase(const ccase_t& c, ctx_t& ctx)
{
    if (c.kind < 0 || c.kind > 10 || c.dims < 1 || c.dims > 32 || c.q.size() != static_cast<size_t>(c.dims) ||
        c.P.size() != static_cast<size_t>(c.dims) * static_cast<size_t>(c.dims) || c.index < 0 || c.index >= c.dims || c.summands < 1)
    {
        return verdict_t::discard("out-of-domain");
    }
    try
    {
        using namespace nano::constraint;
        nano::constraint_t constraint;
        double             curv = 0.0;
        const auto         q    = to_vector(c.q);
        size_t             n    = static_cast<size_t>(c.dims);
        nano::rfunction_t  wrapped;
        switch (c.kind)
        {
        case 0: constraint = constant_t{c.scalar, c.index}; break;
        case 1: constraint = minimum_t{{c.scalar, c.index}}; break;
        case 2: constraint = maximum_t{{c.scalar, c.index}}; break;
        case 3: constraint = euclidean_ball_equality_t{{q, std::fabs(c.scalar) + 1e-3}}; break;
        case 4: constraint = euclidean_ball_inequality_t{{q, std::fabs(c.scalar) + 1e-3}}; break;
        case 5: constraint = linear_equality_t{{q, c.scalar}}; break;
        case 6: constraint = linear_inequality_t{{q, c.scalar}}; break;
        case 7: constraint = quadratic_equality_t{{make_P(c, curv), q, c.scalar}}; break;
        case 8: constraint = quadratic_inequality_t{{make_P(c, curv), q, c.scalar}}; break;
        default:
        {
            const auto proto = nano::function_t::all().get(c.fid);
            if (!proto)
            {
                return verdict_t::discard("unknown-function-id");
            }
            wrapped = proto->make(c.dims, c.summands);
            n       = static_cast<size_t>(wrapped->size());
            if (c.kind == 9)
            {
                constraint = functional_equality_t{*wrapped};
            }
            else
            {
                constraint = functional_inequality_t{*wrapped};
            }
            break;
        }
        }
        if (constraint.index() != static_cast<size_t>(c.kind))
        {
            return verdict_t::violation("C06/harness/constraint-kind-mismatch", cat("kind=", c.kind, " index=", constraint.index()));
        }

        c06::object_t o;
        o.family     = "constraints";
        o.where      = std::string("C06/constraint/") + kind_name(c.kind) + (c.kind >= 9 ? "/" + c.fid : std::string());
        o.n          = n;
        o.convex     = nano::convex(constraint);
        o.smooth     = nano::smooth(constraint);
        o.mu         = nano::strong_convexity(constraint);
        o.curv_scale = curv;
        o.value      = [&](const vec_t& x) { return nano::vgrad(constraint, to_vector(x)); };
        o.vgrad      = [&](const vec_t& x, vec_t& g)
        {
            nano::vector_t gx(static_cast<nano::tensor_size_t>(x.size()));
            gx.full(std::numeric_limits<double>::quiet_NaN());
            const auto fx = nano::vgrad(constraint, to_vector(x), gx);
            from_vector(gx, g);
            return fx;
        };
        // a non-convex declaration of a non-convex object is fine; a strong-convexity coefficient only counts with convex()
        if (!o.convex)
        {
            o.mu = 0.0;
        }
        c06::counters_t cnt;
        const auto      v = c06::check_object(o, c.m, ctx, cnt);
        ctx.label(std::string("constraint/") + kind_name(c.kind));
        if (c.kind == 7 || c.kind == 8)
        {
            static const char* modes[] = {"quadratic/psd-low-rank", "quadratic/pd", "quadratic/indefinite", "quadratic/diagonal", "quadratic/zero",
                                          "quadratic/non-symmetric", "quadratic/non-symmetric-upper-triangular"};
            ctx.label(modes[std::clamp(c.pmode, 0, 6)]);
            ctx.label_if(o.convex, "quadratic/declared-convex");
        }
        return v;
    }
    catch (const std::exception& e)
    {
        return verdict_t::violation(std::string("C06/exception/constraint/") + kind_name(c.kind), e.what());
    }
}

// ---- quadratic surrogate functions of the tuner -----------------------------------------------
struct scase_t
{
    int             mode{0}; // 0: fit (loss over quadratic terms), 1: the quadratic surrogate itself
    int             params{1};
    int             samples{1};
    std::string     loss;
    double          alpha{0.5}; // pinball
    vec_t           p;          // samples*params in [-3, 3]
    vec_t           y;          // samples
    vec_t           model;      // (params+1)(params+2)/2
    c06::material_t m;

    template <class A>
    void io(A& a)
    {
        a("mode", mode);
        a("params", params);
        a("samples", samples);
        a("loss", loss);
        a("alpha", alpha);
        a("p", p);
        a("y", y);
        a("model", model);
        m.io(a);
    }
};

rc::Gen<scase_t> gen_scase()
{
    return rc::gen::mapcat(
        rc::gen::tuple(gen::range<int>(0, 1), gen::range<int>(1, 4), gen::range<int>(1, 12)),
        [](const std::tuple<int, int, int>& t)
        {
            const auto mode    = std::get<0>(t);
            const auto params  = std::get<1>(t);
            const auto samples = std::get<2>(t);
            const auto msize   = static_cast<size_t>((params + 1) * (params + 2) / 2);
            const auto n       = mode == 0 ? msize : static_cast<size_t>(params);
            return rc::gen::map(
                rc::gen::tuple(rc::gen::element(std::string("mse"), std::string("mae"), std::string("cauchy"), std::string("pinball")),
                               rc::gen::oneOf(gen::real(0.0, 1.0), rc::gen::element(0.0, 1.0, 0.5)),
                               gen::vec(static_cast<size_t>(samples * params), 3.0),
                               rc::gen::oneOf(gen::vec(static_cast<size_t>(samples), 10.0),
                                              rc::gen::container<vec_t>(static_cast<size_t>(samples), gen::smallint(-2, 2))),
                               gen::vec(msize, 2.0), c06::gen_material(n, 100)),
                [=](const std::tuple<std::string, double, vec_t, vec_t, vec_t, c06::material_t>& u)
                {
                    scase_t c;
                    c.mode    = mode;
                    c.params  = params;
                    c.samples = samples;
                    c.loss    = std::get<0>(u);
                    c.alpha   = std::get<1>(u);
                    c.p       = std::get<2>(u);
                    c.y       = std::get<3>(u);
                    c.model   = std::get<4>(u);
                    c.m       = std::get<5>(u);
                    return c;
                });
        });
}

verdict_t check_scase(const scase_t& c, ctx_t& ctx)
{
    const auto msize = static_cast<size_t>((c.params + 1) * (c.params + 2) / 2);
    if (c.params < 1 || c.samples < 1 || c.p.size() != static_cast<size_t>(c.samples * c.params) ||
        c.y.size() != static_cast<size_t>(c.samples) || c.model.size() != msize || !(c.alpha >= 0.0 && c.alpha <= 1.0))
    {
        return verdict_t::discard("out-of-domain");
    }
    try
    {
        c06::counters_t cnt;
        if (c.mode == 0)
        {
            auto loss = nano::loss_t::all().get(c.loss);
            if (!loss)
            {
                return verdict_t::discard("unknown-loss");
            }
            if (c.loss == "pinball")
            {
                loss->parameter("loss::pinball::alpha") = c.alpha;
            }
            nano::tensor2d_t p(static_cast<nano::tensor_size_t>(c.samples), static_cast<nano::tensor_size_t>(c.params));
            nano::tensor1d_t y(static_cast<nano::tensor_size_t>(c.samples));
            for (int s = 0; s < c.samples; ++s)
            {
                y(s) = c.y[static_cast<size_t>(s)];
                for (int k = 0; k < c.params; ++k)
                {
                    p(s, k) = c.p[static_cast<size_t>(s * c.params + k)];
                }
            }
            const auto fun = nano::quadratic_surrogate_fit_t{*loss, p, y};
            if (static_cast<size_t>(fun.size()) != msize)
            {
                return verdict_t::violation("C06/surrogate-fit/size", cat("size=", fun.size(), " expected=", msize));
            }
            auto       o = wrap_function(fun, "objectives", "C06/surrogate-fit/" + c.loss);
            const auto v = c06::check_object(o, c.m, ctx, cnt);
            ctx.label("surrogate-fit/" + c.loss);
            return v;
        }
        const auto fun = nano::quadratic_surrogate_t{to_vector(c.model)};
        if (fun.size() != c.params)
        {
            return verdict_t::violation("C06/surrogate/size", cat("size=", fun.size(), " expected=", c.params));
        }
        auto       o = wrap_function(fun, "objectives", "C06/surrogate");
        const auto v = c06::check_object(o, c.m, ctx, cnt);
        ctx.label("surrogate");
        return v;
    }
    catch (const std::exception& e)
    {
        return verdict_t::violation("C06/exception/surrogate", e.what());
    }
}
} // namespace

int main(int argc, char** argv)
{
    suite_t suite("C06");
    suite.add<fcase_t>("functions", gen_fcase, check_fcase, 6.0);
    suite.add<ccase_t>("constraints", gen_ccase, check_ccase, 2.0);
    suite.add<scase_t>("surrogate", gen_scase, check_scase, 1.0);
    return suite.main(argc, argv);
}
