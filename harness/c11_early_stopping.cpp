// C11 (part a) — the gradient-boosting early-stopping monitor vs a reference model written from the
// property statement (DESIGN.md section 5, C11; notes/C11.md).
//
//   "For every history of (training, validation) error values the early-stopping monitor stops exactly when the
//    training error drops below epsilon or no validation improvement larger than epsilon was accepted in the last
//    `patience` rounds, and reports the round of the last accepted improvement with that round's per-sample values"
//
// sub-checks
//   exhaustive   one chunk of the finite space {patience 1..4} x {with, without validation samples} x {the "above
//                epsilon" training value is 1 or exactly epsilon} x {first symbol}: the check walks ALL continuations
//                up to `depth` calls over the alphabet (train below/above eps) x (5 validation values whose pairwise
//                differences are <, = and > eps), all arithmetic exact (dyadic values, sample counts 2 and 4)
//   random       long real-valued histories (up to 60 rounds), arbitrary epsilon/patience/sample layout
//
// The monitor is only driven the way its caller drives it (src/gboost/model.cpp): rounds 0, 1, 2, ... with
// `wlearners.size()` == round, and never again after it has answered "stop".
#include "common.h"
#include "c11_reference.h"

#include <nano/gboost/early_stopping.h>
#include <nano/gboost/util.h>

using namespace verif;
using namespace verif::c11;

namespace
{
using nano::indices_t;
using nano::scalar_t;
using nano::tensor2d_t;
using nano::tensor_size_t;

long double mean_of(const std::vector<double>& values, size_t n, size_t row, const std::vector<int>& samples)
{
    long double sum = 0.0L;
    for (const auto s : samples)
    {
        sum += static_cast<long double>(values[row * n + static_cast<size_t>(s)]);
    }
    return sum / static_cast<long double>(std::max<size_t>(samples.size(), 1U));
}

indices_t to_indices(const std::vector<int>& v)
{
    indices_t r(static_cast<tensor_size_t>(v.size()));
    for (size_t i = 0; i < v.size(); ++i)
    {
        r(static_cast<tensor_size_t>(i)) = v[i];
    }
    return r;
}

tensor2d_t to_tensor(const std::vector<double>& values, size_t n)
{
    tensor2d_t t(2, static_cast<tensor_size_t>(n));
    for (size_t i = 0; i < 2 * n; ++i)
    {
        t(static_cast<tensor_size_t>(i)) = values[i];
    }
    return t;
}

// compare the monitor with the reference after one call; returns an empty string when they agree
std::string compare(const nano::gboost::early_stopping_t& mon, const ref_monitor_t& ref, size_t n, bool has_valid, bool exact,
                    std::string& how)
{
    if (mon.round() != ref.round())
    {
        how = "round";
        return cat("round()=", mon.round(), " reference=", ref.round());
    }
    const auto& mv = mon.values();
    if (mv.size<0>() != 2 || mv.size<1>() != static_cast<tensor_size_t>(n))
    {
        how = "values-shape";
        return cat("values() is ", mv.size<0>(), "x", mv.size<1>());
    }
    for (size_t i = 0; i < 2 * n; ++i)
    {
        const auto got = mv(static_cast<tensor_size_t>(i));
        if (!(got == ref.snapshot[i]))
        {
            how = "values";
            return cat("values()(", i / n, ",", i % n, ")=", got, " reference snapshot (round ", ref.round(), ")=", ref.snapshot[i]);
        }
    }
    if (has_valid)
    {
        const auto want = static_cast<double>(ref.best);
        const auto tol  = exact ? 0.0 : 1e-12 * std::fabs(want);
        if (!(std::fabs(mon.value() - want) <= tol))
        {
            how = "value";
            return cat("value()=", mon.value(), " reference=", want);
        }
    }
    return {};
}

// ---------------------------------------------------------------------------------------------------
// exhaustive sub-check
// ---------------------------------------------------------------------------------------------------
constexpr int    x_chunks   = 4 * 2 * 2 * 10; // patience x validation x above-kind x first symbol
constexpr double x_eps      = 0.25;
constexpr double x_valid[5] = {1.0, 1.125, 1.25, 1.5, 2.0}; // differences: 0.125 < eps, 0.25 == eps, 0.375.. > eps
constexpr size_t x_n        = 8;                             // samples; 7 is never listed and carries a poison value

struct xcase_t
{
    int chunk_lo{0}, chunk_hi{0}; // inclusive
    int depth{8};                 // maximum number of done() calls of a history without validation samples (5^depth growth)
    int vdepth{16};               // the same with validation samples (the tree is finite: every history stops by round 13)

    template <class A>
    void io(A& a)
    {
        a("chunk_lo", chunk_lo);
        a("chunk_hi", chunk_hi);
        a("depth", depth);
        a("vdepth", vdepth);
    }
};

int& generated_depth()
{
    static int depth = 8;
    return depth;
}

rc::Gen<xcase_t> gen_xcase()
{
    return rc::gen::map(gen::range<int>(0, x_chunks - 1),
                        [](int chunk)
                        {
                            xcase_t c;
                            c.chunk_lo = c.chunk_hi = chunk;
                            c.depth                 = generated_depth();
                            return c;
                        });
}

struct xwalk_t
{
    size_t           patience{1};
    bool             has_valid{true};
    double           above{1.0};
    int              depth{8};
    std::vector<int> train_idx{0, 5};
    std::vector<int> valid_idx{1, 3, 4, 6};
    indices_t        train, valid;

    uint64_t calls{0}, stops_train{0}, stops_patience{0}, full_length{0}, ties{0}, accepted_after_wait{0};
    int      first_symbol{0};

    std::string fail_how, fail_msg, fail_history;

    // per-sample values of round `r` for symbol `sym`: the means are exactly (train value, validation value)
    std::vector<double> values_of(size_t r, int sym) const
    {
        const double tv = (sym / 5) == 0 ? x_eps / 2 : above;
        const double vv = x_valid[sym % 5];
        const double d  = static_cast<double>(r + 1) / 64.0;
        std::vector<double> v(2 * x_n, 0.0);
        v[0] = tv + d;
        v[5] = tv - d;
        v[1] = vv + d;
        v[3] = vv - d;
        v[4] = vv + 2 * d;
        v[6] = vv - 2 * d;
        v[2] = 1e30; // listed nowhere
        v[7] = -1e30;
        for (size_t i = 0; i < x_n; ++i)
        {
            v[x_n + i] = 100.0 * static_cast<double>(r) + static_cast<double>(i) + static_cast<double>(sym) / 16.0; // loss row: identifies the round
        }
        return v;
    }

    // returns false on a mismatch
    bool walk(const nano::gboost::early_stopping_t& mon0, const ref_monitor_t& ref0, nano::rwlearners_t& wlearners, std::vector<int>& history,
              int only_symbol)
    {
        const auto r = history.size();
        for (int sym = 0; sym < 10; ++sym)
        {
            if (only_symbol >= 0 && sym != only_symbol)
            {
                continue;
            }
            auto       mon    = mon0;
            auto       ref    = ref0;
            const auto values = values_of(r, sym);
            const auto tv     = mean_of(values, x_n, 0, train_idx);
            const auto vv     = has_valid ? mean_of(values, x_n, 0, valid_idx) : 0.0L;
            const auto before = ref.round();
            const auto tie    = has_valid && ref.has_best && (ref.best - vv) == static_cast<long double>(x_eps);

            history.push_back(sym);
            const auto want = ref.done(r, tv, vv, has_valid, x_eps, patience, values);
            const auto got  = mon.done(to_tensor(values, x_n), train, valid, wlearners, x_eps, patience);
            ++calls;
            ties += tie ? 1U : 0U;

            std::string how;
            std::string msg;
            if (want == answer_t::ambiguous)
            {
                how = "harness";
                msg = "exact arithmetic expected";
            }
            else if (got != (want == answer_t::stop))
            {
                how = got ? "stops-early" : "does-not-stop";
                msg = cat("done()=", got, " reference=", want == answer_t::stop, " at round ", r, " (train=", static_cast<double>(tv),
                          " valid=", static_cast<double>(vv), " best=", static_cast<double>(ref0.best), " last accepted round=", before, ")");
            }
            else
            {
                msg = compare(mon, ref, x_n, has_valid, true, how);
            }
            if (!how.empty())
            {
                fail_how = how;
                fail_msg = msg;
                for (const auto s : history)
                {
                    fail_history += cat(s / 5 == 0 ? "b" : "a", s % 5, " ");
                }
                return false;
            }

            if (want == answer_t::stop)
            {
                (tv < static_cast<long double>(x_eps) ? stops_train : stops_patience)++;
            }
            else
            {
                accepted_after_wait += (ref.round() == r && r > before + 1) ? 1U : 0U;
                if (static_cast<int>(history.size()) < depth)
                {
                    wlearners.emplace_back();
                    const auto ok = walk(mon, ref, wlearners, history, -1);
                    wlearners.pop_back();
                    if (!ok)
                    {
                        return false;
                    }
                }
                else
                {
                    ++full_length;
                }
            }
            history.pop_back();
        }
        return true;
    }
};

verdict_t check_xcase(const xcase_t& c, ctx_t& ctx)
{
    if (!(0 <= c.chunk_lo && c.chunk_lo <= c.chunk_hi && c.chunk_hi < x_chunks && c.depth >= 1 && c.depth <= 10 && c.vdepth >= 1 && c.vdepth <= 20))
    {
        return verdict_t::discard("chunk-out-of-range");
    }
    uint64_t calls = 0, stops_train = 0, stops_patience = 0, full = 0, vfull = 0, ties = 0, waits = 0;
    try
    {
        for (int chunk = c.chunk_lo; chunk <= c.chunk_hi; ++chunk)
        {
            xwalk_t w;
            w.first_symbol = chunk % 10;
            w.above        = ((chunk / 10) % 2) == 0 ? 1.0 : x_eps; // exactly epsilon is not "below epsilon"
            w.has_valid    = ((chunk / 20) % 2) == 0;
            w.patience     = static_cast<size_t>(1 + (chunk / 40) % 4);
            w.depth        = w.has_valid ? c.vdepth : c.depth;
            w.train        = to_indices(w.train_idx);
            w.valid        = w.has_valid ? to_indices(w.valid_idx) : indices_t{};

            // initial per-sample values (reported if no round is ever accepted: cannot happen, round 0 always is)
            std::vector<double> init(2 * x_n, -7.0);
            ref_monitor_t       ref;
            ref.exact    = true;
            ref.snapshot = init;
            auto               mon = nano::gboost::early_stopping_t{to_tensor(init, x_n)};
            nano::rwlearners_t wlearners;
            std::vector<int>   history;
            if (!w.walk(mon, ref, wlearners, history, w.first_symbol))
            {
                return verdict_t::violation(cat("C11/early-stopping/", w.fail_how, w.has_valid ? "" : "/no-validation-samples"),
                                            cat(w.fail_msg, "; patience=", w.patience, " eps=", x_eps, " above=", w.above,
                                                " history (b/a = train below/above eps, digit = validation value index)= ", w.fail_history));
            }
            calls += w.calls;
            stops_train += w.stops_train;
            stops_patience += w.stops_patience;
            (w.has_valid ? vfull : full) += w.full_length;
            ties += w.ties;
            waits += w.accepted_after_wait;
        }
    }
    catch (const std::exception& e)
    {
        return verdict_t::violation("C11/exception/early-stopping", e.what());
    }

    ctx.label(cat("depth-", c.depth, "/", c.vdepth));
    ctx.label_if(vfull > 0, "validation-tree-truncated");
    ctx.label_if(stops_patience > 0, "stop-by-patience");
    ctx.label_if(stops_train > 0, "stop-by-training-error");
    ctx.label_if(ties > 0, "improvement-exactly-epsilon");
    ctx.label_if(waits > 0, "improvement-after-waiting");
    if (c.chunk_lo == c.chunk_hi)
    {
        ctx.label(cat("chunk-", c.chunk_lo / 10, "x")); // (patience, validation, above-kind) cell: 16 labels, hit counts in the evidence
    }
    ctx.maximum("done-calls-per-case", static_cast<double>(calls));
    ctx.nontrivial = calls >= 100; // the first symbol does not stop the history (80 of the 160 chunks)

    verdict_t v;
    v.msg = cat("calls=", calls, " stop-train=", stops_train, " stop-patience=", stops_patience, " reached-depth=", full, " reached-depth-with-validation=", vfull, " ties=", ties,
                " accepted-after-waiting=", waits);
    return v;
}

// ---------------------------------------------------------------------------------------------------
// random sub-check
// ---------------------------------------------------------------------------------------------------
struct rcase_t
{
    double                           epsilon{1e-6};
    int                              patience{1};
    int                              samples{4};
    std::vector<int>                 train, valid; // sample indices (valid may be empty)
    std::vector<double>              initial;      // 2 x samples
    std::vector<std::vector<double>> history;      // per round: 2 x samples (errors | losses)

    template <class A>
    void io(A& a)
    {
        a("epsilon", epsilon);
        a("patience", patience);
        a("samples", samples);
        a("train", train);
        a("valid", valid);
        a("initial", initial);
        a("history", history);
    }
};

rc::Gen<rcase_t> gen_rcase()
{
    // style 0: dyadic grid (exact arithmetic, exact ties), style 1: reals
    return rc::gen::mapcat(
        rc::gen::tuple(gen::range<int>(0, 1), gen::range<int>(1, 12), gen::range<int>(1, 60), gen::range<int>(0, 9), gen::range<int>(0, 7)),
        [](const std::tuple<int, int, int, int, int>& t)
        {
            const int  style    = std::get<0>(t);
            const int  patience = std::get<1>(t) <= 8 ? 1 + (std::get<1>(t) - 1) % 4 : std::get<1>(t); // mostly 1..4, up to 12
            const int  length   = std::get<2>(t);
            const bool no_valid = std::get<3>(t) == 0;
            const int  layout   = std::get<4>(t) % 4;
            const bool calm     = std::get<4>(t) >= 4; // mostly improving rounds, rare training stops: long histories

            // sample layout: counts are powers of two in the grid style
            const int ntrain = style == 0 ? (1 << (layout % 3)) : 1 + layout;
            const int nvalid = no_valid ? 0 : (style == 0 ? (1 << ((layout + 1) % 3)) : 2 + layout % 3);
            const int extra  = 1 + layout % 2;
            const int n      = ntrain + nvalid + extra;

            const auto eps_gen = style == 0 ? rc::gen::element(1.0, 0.5, 0.25, 0.125, 0.0625) : rc::gen::oneOf(gen::logu(1e-12, 1.0), rc::gen::element(1e-12, 1e-6, 1.0));

            // per round: validation step in units of epsilon (positive = improvement), training level, noise
            const auto grid_steps = calm ? rc::gen::element(2.0, 1.5, 1.25, 3.0, 2.0, 1.5, 2.0, 3.0, 1.25, 1.0, 0.5, 0.0, -1.0)
                                         : rc::gen::element(2.0, 1.5, 1.0, 1.0, 0.5, 0.0, -1.0, 1.25, 3.0, 0.75);
            // (reals: an improvement of exactly 1.0 epsilon is decided by rounding => near ties instead)
            const auto real_steps = calm ? rc::gen::element(2.0, 1.5, 1.25, 3.0, 2.0, 1.5, 2.0, 3.0, 1.001, 0.999, 0.5, 0.0, -1.0)
                                         : rc::gen::element(2.0, 1.5, 1.001, 0.999, 0.5, 0.0, -1.0, 1.25, 3.0, 0.75, 1.000001, 0.999999);
            const auto step_gen   = style == 0 ? grid_steps : rc::gen::oneOf(real_steps, calm ? gen::real(0.5, 3.0) : gen::real(-1.0, 3.0));
            // training level in units of epsilon
            const auto train_gen = calm ? rc::gen::map(gen::range<int>(0, 79), [](int k) { return k == 0 ? 0.5 : k == 1 ? 1.0 : 8.0; })
                                        : rc::gen::map(gen::range<int>(0, 15), [](int k) { return k == 0 ? 0.5 : k <= 2 ? 1.0 : k == 3 ? 2.0 : 8.0; });
            const auto noise_gen = style == 0 ? rc::gen::map(gen::range<int>(-8, 8), [](int k) { return static_cast<double>(k); }) : gen::sym(8.0);

            return rc::gen::map(
                rc::gen::tuple(eps_gen, rc::gen::container<std::vector<double>>(static_cast<size_t>(length), step_gen),
                               rc::gen::container<std::vector<double>>(static_cast<size_t>(length), train_gen),
                               rc::gen::container<std::vector<double>>(static_cast<size_t>(length) * static_cast<size_t>(2 * n), noise_gen),
                               rc::gen::container<std::vector<int>>(static_cast<size_t>(n), gen::range<int>(0, 1000))),
                [=](const std::tuple<double, std::vector<double>, std::vector<double>, std::vector<double>, std::vector<int>>& u)
                {
                    rcase_t c;
                    c.epsilon  = std::get<0>(u);
                    c.patience = patience;
                    c.samples  = n;

                    // a permutation of the samples from the generated keys: first ntrain -> train, next nvalid -> valid
                    std::vector<int> order(static_cast<size_t>(n));
                    for (int i = 0; i < n; ++i)
                    {
                        order[static_cast<size_t>(i)] = i;
                    }
                    const auto& keys = std::get<4>(u);
                    std::stable_sort(order.begin(), order.end(), [&](int a, int b) { return keys[static_cast<size_t>(a)] < keys[static_cast<size_t>(b)]; });
                    c.train.assign(order.begin(), order.begin() + ntrain);
                    c.valid.assign(order.begin() + ntrain, order.begin() + ntrain + nvalid);
                    std::sort(c.train.begin(), c.train.end());
                    std::sort(c.valid.begin(), c.valid.end());

                    const auto& steps  = std::get<1>(u);
                    const auto& trains = std::get<2>(u);
                    const auto& noise  = std::get<3>(u);
                    const auto  eps    = c.epsilon;
                    const auto  unit   = style == 0 ? eps / 4 : eps; // noise unit

                    double level = 0.0;
                    for (const auto s : steps)
                    {
                        level += std::max(0.0, s) * eps;
                    }
                    level += 4 * eps; // validation error stays positive

                    c.initial.assign(static_cast<size_t>(2 * n), 0.0);
                    for (int i = 0; i < 2 * n; ++i)
                    {
                        c.initial[static_cast<size_t>(i)] = 1000.0 + i;
                    }
                    for (int r = 0; r < length; ++r)
                    {
                        level -= steps[static_cast<size_t>(r)] * eps;
                        std::vector<double> v(static_cast<size_t>(2 * n), 0.0);
                        const auto          z = [&](int i) { return noise[static_cast<size_t>(r * 2 * n + i)]; };
                        for (int i = 0; i < n; ++i)
                        {
                            v[static_cast<size_t>(i)]     = 64 * eps + z(i) * unit;                      // unlisted samples
                            v[static_cast<size_t>(n + i)] = 100.0 * r + i + z(n + i) / 16.0;              // losses
                        }
                        // zero-sum noise around the level (pairs +z, -z; a single sample gets the level itself)
                        const auto fill = [&](const std::vector<int>& idx, double mean)
                        {
                            for (size_t k = 0; k < idx.size(); ++k)
                            {
                                const auto zz = (k + 1 < idx.size() || idx.size() % 2 == 0) ? std::fabs(z(idx[k - k % 2])) * unit : 0.0;
                                v[static_cast<size_t>(idx[k])] = mean + ((k % 2 == 0) ? zz : -zz);
                            }
                        };
                        fill(c.valid, level);
                        fill(c.train, trains[static_cast<size_t>(r)] * eps + (style == 0 ? 0.0 : 0.25 * eps));
                        c.history.push_back(std::move(v));
                    }
                    return c;
                });
        });
}

bool valid_indices(const std::vector<int>& idx, int n)
{
    for (const auto i : idx)
    {
        if (i < 0 || i >= n)
        {
            return false;
        }
    }
    return true;
}

verdict_t check_rcase(const rcase_t& c, ctx_t& ctx)
{
    const auto n = static_cast<size_t>(c.samples);
    if (c.samples < 1 || c.train.empty() || !valid_indices(c.train, c.samples) || !valid_indices(c.valid, c.samples) || c.initial.size() != 2 * n ||
        c.patience < 1 || !(c.epsilon > 0.0) || !std::isfinite(c.epsilon))
    {
        return verdict_t::discard("malformed");
    }
    for (const auto& v : c.history)
    {
        if (v.size() != 2 * n)
        {
            return verdict_t::discard("malformed");
        }
        for (const auto x : v)
        {
            if (!std::isfinite(x) || std::fabs(x) > 1e100)
            {
                return verdict_t::discard("non-finite-value");
            }
        }
    }

    // exact arithmetic: values on the grid 2^-10 below 2^12, power-of-two sample counts, dyadic epsilon
    const auto pow2  = [](size_t k) { return k != 0 && (k & (k - 1)) == 0; };
    const auto ongrid = [](double x) { return std::fabs(x) < 4096.0 && std::floor(x * 1024.0) == x * 1024.0; };
    bool       exact = pow2(c.train.size()) && (c.valid.empty() || pow2(c.valid.size())) && ongrid(c.epsilon);
    for (const auto& v : c.history)
    {
        for (size_t i = 0; i < n && exact; ++i)
        {
            exact = ongrid(v[i]);
        }
    }

    const auto has_valid = !c.valid.empty();
    const auto train     = to_indices(c.train);
    const auto valid     = to_indices(c.valid);
    const auto patience  = static_cast<size_t>(c.patience);

    ref_monitor_t ref;
    ref.exact    = exact;
    ref.snapshot = c.initial;

    size_t rounds = 0, improvements = 0, ties = 0, waits = 0;
    bool   stopped_train = false, stopped_patience = false, ambiguous = false;
    try
    {
        auto               mon = nano::gboost::early_stopping_t{to_tensor(c.initial, n)};
        nano::rwlearners_t wlearners;
        for (size_t r = 0; r < c.history.size(); ++r)
        {
            const auto& values = c.history[r];
            const auto  tv     = mean_of(values, n, 0, c.train);
            const auto  vv     = has_valid ? mean_of(values, n, 0, c.valid) : 0.0L;
            const auto  before = ref.round();
            const auto  best0  = ref.best;
            ties += (exact && has_valid && ref.has_best && (ref.best - vv) == static_cast<long double>(c.epsilon)) ? 1U : 0U;

            const auto want = ref.done(r, tv, vv, has_valid, c.epsilon, patience, values);
            if (want == answer_t::ambiguous)
            {
                ambiguous = true;
                break;
            }
            const auto got = mon.done(to_tensor(values, n), train, valid, wlearners, c.epsilon, patience);
            ++rounds;
            if (got != (want == answer_t::stop))
            {
                return verdict_t::violation(cat("C11/early-stopping/", got ? "stops-early" : "does-not-stop", has_valid ? "" : "/no-validation-samples"),
                                            cat("done()=", got, " reference=", want == answer_t::stop, " at round ", r, " train=", static_cast<double>(tv),
                                                " valid=", static_cast<double>(vv), " best=", static_cast<double>(best0), " last accepted round=", before,
                                                " patience=", patience, " eps=", c.epsilon));
            }
            std::string how;
            const auto  msg = compare(mon, ref, n, has_valid, exact, how);
            if (!how.empty())
            {
                return verdict_t::violation(cat("C11/early-stopping/", how, has_valid ? "" : "/no-validation-samples"),
                                            cat(msg, " after round ", r, " patience=", patience, " eps=", c.epsilon));
            }
            if (ref.round() == r && r > 0)
            {
                ++improvements;
                waits += r > before + 1 ? 1U : 0U;
            }
            if (want == answer_t::stop)
            {
                stopped_train    = tv < static_cast<long double>(c.epsilon);
                stopped_patience = !stopped_train;
                break;
            }
            wlearners.emplace_back();
        }
    }
    catch (const std::exception& e)
    {
        return verdict_t::violation("C11/exception/early-stopping", e.what());
    }

    ctx.label(exact ? "exact-grid" : "reals");
    ctx.label(has_valid ? "with-validation" : "no-validation-samples");
    ctx.label_if(stopped_train, "stop-by-training-error");
    ctx.label_if(stopped_patience, "stop-by-patience");
    ctx.label_if(!stopped_train && !stopped_patience && !ambiguous, "history-exhausted");
    ctx.label_if(ambiguous, "ambiguous-threshold");
    ctx.label_if(ties > 0, "improvement-exactly-epsilon");
    ctx.label_if(waits > 0, "improvement-after-waiting");
    ctx.label_if(rounds >= 20, "rounds>=20");
    ctx.label_if(c.patience > 4, "patience>4");
    ctx.maximum("rounds", static_cast<double>(rounds));
    ctx.nontrivial = rounds >= 5 && improvements >= 2 && (stopped_patience || stopped_train || waits > 0);
    return verdict_t::ok();
}
} // namespace

int main(int argc, char** argv)
{
    // `--depth D`: maximum history length of the generated exhaustive chunks (default 8)
    std::vector<char*> args;
    for (int i = 0; i < argc; ++i)
    {
        if (i > 0 && std::string(argv[i]) == "--depth" && i + 1 < argc)
        {
            generated_depth() = std::atoi(argv[++i]);
        }
        else
        {
            args.push_back(argv[i]);
        }
    }

    suite_t suite("C11");
    // weights = share of the case budget (1 : 9): cfg/C11.py gives `exhaustive` 3 300 of 33 000 >= 20 x 160 cases (one uniformly drawn chunk per case)
    suite.add<xcase_t>("exhaustive", gen_xcase, check_xcase, 1.0);
    suite.add<rcase_t>("random", gen_rcase, check_rcase, 9.0);
    return suite.main(static_cast<int>(args.size()), args.data());
}
