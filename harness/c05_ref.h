// C05 — constraint data, harness-side re-implementation of h_j / g_i and their gradients (from the DATA, never
// through nano::vgrad), and the objects handed to the library.
#pragma once

#include "common.h"

#include <Eigen/Dense>
#include <nano/function.h>
#include <nano/function/constraint.h>

namespace c05
{
using Eigen::MatrixXd;
using Eigen::VectorXd;

// order of nano::constraint_t's alternatives
enum ckind : int
{
    k_constant = 0, // h(x) = x(d) - value
    k_minimum,      // g(x) = value - x(d)
    k_maximum,      // g(x) = x(d) - value
    k_ball_eq,      // h(x) = |x - o|^2 - R^2
    k_ball_ineq,    // g(x) = |x - o|^2 - R^2
    k_linear_eq,    // h(x) = q.x + r
    k_linear_ineq,  // g(x) = q.x + r
    k_quad_eq,      // h(x) = 1/2 x'Px + q.x + r
    k_quad_ineq,    // g(x) = 1/2 x'Px + q.x + r
    k_func_eq,      // h(x) = inner(x)
    k_func_ineq,    // g(x) = inner(x)
    k_count
};

inline const char* kind_name(int k)
{
    static const char* names[] = {"constant",        "minimum",      "maximum",        "ball-equality",       "ball-inequality",      "linear-equality",
                                  "linear-inequality", "quadratic-equality", "quadratic-inequality", "functional-equality", "functional-inequality"};
    return (k >= 0 && k < k_count) ? names[k] : "invalid";
}

inline bool is_eq(int k)
{
    return k == k_constant || k == k_ball_eq || k == k_linear_eq || k == k_quad_eq || k == k_func_eq;
}

// one constraint as plain data
struct cdata_t
{
    int      kind{0};
    int      dim{0};      // constant / minimum / maximum
    double   value{0.0};  // constant / minimum / maximum; radius for the balls; r otherwise
    int      inner{0};    // functional: 0 = quadratic 1/2 x'Px + q.x + r, 1 = sum |x_i - q_i| - r
    VectorXd v;           // origin / q
    MatrixXd P;           // quadratic / functional-quadratic (symmetric)
};

// value, gradient, and the magnitudes of the elementary terms (rounding of any evaluation order is bounded by
// a few eps times these)
struct ceval_t
{
    double   v{0.0};
    VectorXd g;
    double   a{0.0}; // sum of |elementary terms| of v
    VectorXd b;      // same for each gradient component
};

inline ceval_t evaluate(const cdata_t& c, const VectorXd& x)
{
    const auto n = x.size();
    ceval_t    e;
    e.g = VectorXd::Zero(n);
    e.b = VectorXd::Zero(n);
    switch (c.kind)
    {
    case k_constant:
    case k_maximum:
        e.v        = x(c.dim) - c.value;
        e.a        = std::fabs(x(c.dim)) + std::fabs(c.value);
        e.g(c.dim) = 1.0;
        e.b(c.dim) = 1.0;
        break;
    case k_minimum:
        e.v        = c.value - x(c.dim);
        e.a        = std::fabs(x(c.dim)) + std::fabs(c.value);
        e.g(c.dim) = -1.0;
        e.b(c.dim) = 1.0;
        break;
    case k_ball_eq:
    case k_ball_ineq:
    {
        double s = 0.0;
        for (Eigen::Index i = 0; i < n; ++i)
        {
            const double d = x(i) - c.v(i);
            s += d * d;
            const double m = std::fabs(x(i)) + std::fabs(c.v(i));
            e.a += m * m;
            e.g(i) = 2.0 * d;
            e.b(i) = 2.0 * m;
        }
        e.v = s - c.value * c.value;
        e.a += c.value * c.value;
        break;
    }
    case k_linear_eq:
    case k_linear_ineq:
    {
        double s = 0.0;
        for (Eigen::Index i = 0; i < n; ++i)
        {
            s += c.v(i) * x(i);
            e.a += std::fabs(c.v(i) * x(i));
        }
        e.v = s + c.value;
        e.a += std::fabs(c.value);
        e.g = c.v;
        e.b = c.v.cwiseAbs();
        break;
    }
    default:
        if (c.kind >= k_func_eq && c.inner == 1)
        {
            double s = 0.0;
            for (Eigen::Index i = 0; i < n; ++i)
            {
                const double d = x(i) - c.v(i);
                s += std::fabs(d);
                e.a += std::fabs(x(i)) + std::fabs(c.v(i));
                e.g(i) = d > 0.0 ? 1.0 : (d < 0.0 ? -1.0 : 0.0);
                e.b(i) = 1.0;
            }
            e.v = s - c.value;
            e.a += std::fabs(c.value);
        }
        else
        {
            double s = 0.0;
            for (Eigen::Index i = 0; i < n; ++i)
            {
                double gi = c.v(i), bi = std::fabs(c.v(i));
                for (Eigen::Index j = 0; j < n; ++j)
                {
                    // d/dx_i of 1/2 x'Px = 1/2 sum_j (P_ij + P_ji) x_j  (= (Px)_i only for symmetric P)
                    gi += 0.5 * (c.P(i, j) + c.P(j, i)) * x(j);
                    bi += 0.5 * (std::fabs(c.P(i, j) * x(j)) + std::fabs(c.P(j, i) * x(j)));
                    s += 0.5 * x(i) * c.P(i, j) * x(j);
                    e.a += 0.5 * std::fabs(x(i) * c.P(i, j) * x(j));
                }
                s += c.v(i) * x(i);
                e.a += std::fabs(c.v(i) * x(i));
                e.g(i) = gi;
                e.b(i) = bi;
            }
            e.v = s + c.value;
            e.a += std::fabs(c.value);
        }
        break;
    }
    return e;
}

inline nano::vector_t to_nano(const VectorXd& v)
{
    nano::vector_t r(static_cast<nano::tensor_size_t>(v.size()));
    for (Eigen::Index i = 0; i < v.size(); ++i)
    {
        r(i) = v(i);
    }
    return r;
}

inline nano::matrix_t to_nano(const MatrixXd& m)
{
    nano::matrix_t r(static_cast<nano::tensor_size_t>(m.rows()), static_cast<nano::tensor_size_t>(m.cols()));
    for (Eigen::Index i = 0; i < m.rows(); ++i)
    {
        for (Eigen::Index j = 0; j < m.cols(); ++j)
        {
            r(i, j) = m(i, j);
        }
    }
    return r;
}

inline VectorXd from_nano(const nano::vector_t& v)
{
    VectorXd r(v.size());
    for (nano::tensor_size_t i = 0; i < v.size(); ++i)
    {
        r(i) = v(i);
    }
    return r;
}

// generated functions handed to the library (objective, or wrapped by a functional constraint)
class quadratic_function_t final : public nano::function_t
{
public:
    quadratic_function_t(MatrixXd P, VectorXd q, double r, bool convex)
        : nano::function_t("verif-quadratic", static_cast<nano::tensor_size_t>(q.size()))
        , m_P(std::move(P))
        , m_q(std::move(q))
        , m_r(r)
    {
        this->convex(convex ? nano::convexity::yes : nano::convexity::no);
        this->smooth(nano::smoothness::yes);
    }

    nano::rfunction_t clone() const override { return std::make_unique<quadratic_function_t>(*this); }

    nano::scalar_t do_vgrad(nano::vector_cmap_t x, nano::vector_map_t gx) const override
    {
        const auto n = m_q.size();
        VectorXd   xx(n);
        for (Eigen::Index i = 0; i < n; ++i)
        {
            xx(i) = x(i);
        }
        const VectorXd Px = m_P * xx;
        if (gx.size() == x.size())
        {
            for (Eigen::Index i = 0; i < n; ++i)
            {
                gx(i) = Px(i) + m_q(i);
            }
        }
        return 0.5 * xx.dot(Px) + m_q.dot(xx) + m_r;
    }

private:
    MatrixXd m_P;
    VectorXd m_q;
    double   m_r;
};

class l1_function_t final : public nano::function_t
{
public:
    l1_function_t(VectorXd centre, double r)
        : nano::function_t("verif-l1", static_cast<nano::tensor_size_t>(centre.size()))
        , m_c(std::move(centre))
        , m_r(r)
    {
        this->convex(nano::convexity::yes);
        this->smooth(nano::smoothness::no);
    }

    nano::rfunction_t clone() const override { return std::make_unique<l1_function_t>(*this); }

    nano::scalar_t do_vgrad(nano::vector_cmap_t x, nano::vector_map_t gx) const override
    {
        double s = 0.0;
        for (Eigen::Index i = 0; i < m_c.size(); ++i)
        {
            const double d = x(i) - m_c(i);
            s += std::fabs(d);
            if (gx.size() == x.size())
            {
                gx(i) = d > 0.0 ? 1.0 : (d < 0.0 ? -1.0 : 0.0);
            }
        }
        return s - m_r;
    }

private:
    VectorXd m_c;
    double   m_r;
};

inline nano::constraint_t make_constraint(const cdata_t& c)
{
    using namespace nano::constraint;
    switch (c.kind)
    {
    case k_constant: return constant_t{c.value, c.dim};
    case k_minimum: return minimum_t{{c.value, c.dim}};
    case k_maximum: return maximum_t{{c.value, c.dim}};
    case k_ball_eq: return euclidean_ball_equality_t{{to_nano(c.v), c.value}};
    case k_ball_ineq: return euclidean_ball_inequality_t{{to_nano(c.v), c.value}};
    case k_linear_eq: return linear_equality_t{{to_nano(c.v), c.value}};
    case k_linear_ineq: return linear_inequality_t{{to_nano(c.v), c.value}};
    case k_quad_eq: return quadratic_equality_t{{to_nano(c.P), to_nano(c.v), c.value}};
    case k_quad_ineq: return quadratic_inequality_t{{to_nano(c.P), to_nano(c.v), c.value}};
    default:
    {
        nano::rfunction_t inner;
        if (c.inner == 1)
        {
            inner = std::make_unique<l1_function_t>(c.v, c.value);
        }
        else
        {
            inner = std::make_unique<quadratic_function_t>(c.P, c.v, c.value, false);
        }
        if (c.kind == k_func_eq)
        {
            return functional_equality_t{std::move(inner)};
        }
        return functional_inequality_t{std::move(inner)};
    }
    }
}
} // namespace c05
