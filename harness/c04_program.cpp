// C04 — LP/QP primal-dual interior point: `converged` means feasible and optimal as stated
// (DESIGN.md section 5, C04; notes/C04.md).
//
// sub-checks
//   kkt   : programs with n in 1..12 whose optimum (x*,u*,v*) is fixed by KKT construction (G1)
//   small : arbitrary small integer programs (n<=3, m<=6, p<=2) decided by the exact rational oracle (G2)
// both solve the program as stated and once more under an equivalent restatement.
#include "common.h"

#include "c04_exact.h"
#include "c04_face.h"

#include <nano/program/solver.h>

using namespace verif;
using c04::MatrixXd;
using c04::VectorXd;

namespace
{
constexpr const char* F9_SIG = "C04/unbounded-optimal-face/iterate-divergence";
constexpr const char* F5_SIG = "C04/objective-consistency/stale-trial-point";

// ---------------------------------------------------------------------------------------
// the program as the caller states it, the truth about it, the start point
// ---------------------------------------------------------------------------------------
struct prog_t
{
    int      n{0};
    bool     lp{true};     // no quadratic term at all
    bool     as_qp{false}; // an LP handed over as quadratic_program_t with Q = 0
    MatrixXd Q;            // n x n (empty for lp unless as_qp)
    VectorXd c;
    MatrixXd A;
    VectorXd b;
    MatrixXd G;
    VectorXd h;
};

enum class truth_status
{
    optimal,
    infeasible,
    unbounded
};

struct truth_t
{
    truth_status status{truth_status::optimal};
    VectorXd     xstar;
    double       fstar{0.0};
};

struct start_t
{
    bool     user{false};
    VectorXd x0;
};

double objective(const prog_t& P, const VectorXd& x)
{
    double f = P.c.dot(x);
    if (P.Q.size() > 0)
    {
        f += 0.5 * x.dot(P.Q * x);
    }
    return f;
}

// sum of the magnitudes of the elementary terms of the objective at x
double objective_terms(const prog_t& P, const VectorXd& x)
{
    double t = P.c.cwiseAbs().dot(x.cwiseAbs());
    if (P.Q.size() > 0)
    {
        t += 0.5 * x.cwiseAbs().dot(P.Q.cwiseAbs() * x.cwiseAbs());
    }
    return t;
}

nano::vector_t to_nano(const VectorXd& v)
{
    nano::vector_t r(static_cast<nano::tensor_size_t>(v.size()));
    for (Eigen::Index i = 0; i < v.size(); ++i)
    {
        r(i) = v(i);
    }
    return r;
}

nano::matrix_t to_nano(const MatrixXd& m)
{
    nano::matrix_t r(static_cast<nano::tensor_size_t>(m.rows()), static_cast<nano::tensor_size_t>(m.cols()));
    for (Eigen::Index i = 0; i < m.rows(); ++i)
    {
        for (Eigen::Index j = 0; j < m.cols(); ++j)
        {
            r(i, j) = m(i, j);
        }
    }
    return r;
}

VectorXd from_nano(const nano::vector_t& v)
{
    VectorXd r(v.size());
    for (nano::tensor_size_t i = 0; i < v.size(); ++i)
    {
        r(i) = v(i);
    }
    return r;
}

template <class tprogram>
void constrain(tprogram& program, const prog_t& P)
{
    // exactly what make_linear / make_quadratic do with make_equality / make_inequality
    if (P.A.rows() > 0 && P.G.rows() > 0)
    {
        program.constrain(nano::program::make_equality(to_nano(P.A), to_nano(P.b)),
                          nano::program::make_inequality(to_nano(P.G), to_nano(P.h)));
    }
    else if (P.G.rows() > 0)
    {
        program.constrain(nano::program::make_inequality(to_nano(P.G), to_nano(P.h)));
    }
    else if (P.A.rows() > 0)
    {
        program.constrain(nano::program::make_equality(to_nano(P.A), to_nano(P.b)));
    }
}

struct solved_t
{
    nano::program::solver_state_t state;
    bool                          start_strict{false}; // the start point was strictly inside the inequalities
};

solved_t solve(const prog_t& P, const start_t& start, const int max_iters = -1)
{
    auto       solver = nano::program::solver_t{};
    const auto logger = nano::logger_t{};
    if (max_iters > 0)
    {
        solver.parameter("solver::max_iters") = max_iters;
    }
    // the solver object has a history in half of the cases (derived from the program's data): it solved another small program
    // before (min x1 + 2 x2 s.t. x1 + x2 = 1, x >= 0), which must not influence the solve below
    if ((static_cast<long long>(std::floor(std::fabs(P.c(0)) * 1e6)) % 2) == 1)
    {
        nano::vector_t c0(2), b0(1), h0(2);
        nano::matrix_t A0(1, 2), G0(2, 2);
        c0(0) = 1.0, c0(1) = 2.0;
        A0(0, 0) = 1.0, A0(0, 1) = 1.0, b0(0) = 1.0;
        G0(0, 0) = -1.0, G0(0, 1) = 0.0, G0(1, 0) = 0.0, G0(1, 1) = -1.0, h0(0) = 0.0, h0(1) = 0.0;
        auto warmup = nano::program::linear_program_t{c0};
        warmup.constrain(nano::program::make_equality(A0, b0), nano::program::make_inequality(G0, h0));
        (void)solver.solve(warmup, logger);
    }
    solved_t   out;
    const auto strict = [&](const VectorXd& x0) { return P.G.rows() == 0 || (P.G * x0 - P.h).maxCoeff() < 0.0; };
    if (P.lp && !P.as_qp)
    {
        auto program = nano::program::linear_program_t{to_nano(P.c)};
        constrain(program, P);
        if (start.user)
        {
            out.start_strict = strict(start.x0);
            out.state        = solver.solve(program, to_nano(start.x0), logger);
        }
        else
        {
            const auto x0    = program.make_strictly_feasible();
            out.start_strict = static_cast<bool>(x0);
            out.state        = solver.solve(program, logger);
        }
    }
    else
    {
        auto program = nano::program::quadratic_program_t{to_nano(P.Q), to_nano(P.c)};
        constrain(program, P);
        if (start.user)
        {
            out.start_strict = strict(start.x0);
            out.state        = solver.solve(program, to_nano(start.x0), logger);
        }
        else
        {
            const auto x0    = program.make_strictly_feasible();
            out.start_strict = static_cast<bool>(x0);
            out.state        = solver.solve(program, logger);
        }
    }
    return out;
}

// ---------------------------------------------------------------------------------------
// equivalent restatements
// ---------------------------------------------------------------------------------------
enum restate_kind : int
{
    r_none = 0,
    r_dup_eq_10,     // duplicated equality rows             (fixture weights 1.0, 0.0)
    r_dup_eq_mix,    // linearly combined equality rows      (fixture weights 0.2, 1.1)
    r_dup_eq_random, // linearly combined, generated weights
    r_scale_ineq,    // positively rescaled inequality rows
    r_scale_obj,     // positively rescaled objective
    r_scale_eq,      // equality rows rescaled by non-zero factors
    r_perm_rows,     // permuted rows
    r_perm_vars,     // permuted variables
    r_all,           // all of the above
    r_count
};

const char* restate_name(int k)
{
    static const char* names[] = {"none",      "dup-eq",   "mix-eq",    "mix-eq-random", "scale-ineq",
                                  "scale-obj", "scale-eq", "perm-rows", "perm-vars",     "all"};
    return (k >= 0 && k < r_count) ? names[k] : "invalid";
}

struct restate_t
{
    int                 kind{0};
    double              w1{1.0}, w2{0.0}, oscale{1.0};
    std::vector<double> si; // positive scales of the inequality rows
    std::vector<double> se; // non-zero scales of the equality rows (after duplication)
    std::vector<double> ki; // permutation keys: inequality rows
    std::vector<double> ke; // permutation keys: equality rows (after duplication)
    std::vector<double> kv; // permutation keys: variables
    std::vector<double> kd; // permutation keys used by the duplication (as in the fixture)
    int                 ndup{0}; // 0: every equality row gets a combined twin (as in the fixture); k > 0: only 1 + (k-1) % (p+2)
                                 // combined rows are appended (PARTIAL duplication: #redundant rows != #independent rows)

    template <class A>
    void io(A& a)
    {
        a("r_kind", kind);
        a("r_w1", w1);
        a("r_w2", w2);
        a("r_oscale", oscale);
        a("r_si", si);
        a("r_se", se);
        a("r_ki", ki);
        a("r_ke", ke);
        a("r_kv", kv);
        a("r_kd", kd);
        if constexpr (std::is_same_v<A, verif::reader_t>)
        {
            if (a.has("r_ndup")) // absent in replay files written before partial duplication existed
            {
                a("r_ndup", ndup);
            }
        }
        else
        {
            a("r_ndup", ndup);
        }
    }
};

std::vector<int> permutation(const std::vector<double>& keys, const int count)
{
    std::vector<int> perm(static_cast<size_t>(count));
    for (int i = 0; i < count; ++i)
    {
        perm[static_cast<size_t>(i)] = i;
    }
    const auto key = [&](int i) { return static_cast<size_t>(i) < keys.size() ? keys[static_cast<size_t>(i)] : 0.0; };
    std::stable_sort(perm.begin(), perm.end(), [&](int a, int b) { return key(a) < key(b); });
    return perm;
}

double at(const std::vector<double>& v, const int i, const double fallback)
{
    return static_cast<size_t>(i) < v.size() ? v[static_cast<size_t>(i)] : fallback;
}

// returns false when the restatement data is outside its domain (non-positive / zero / non-finite scales)
bool restate(const restate_t& R, const prog_t& P, const truth_t& T, const start_t& S, prog_t& P2, truth_t& T2, start_t& S2)
{
    P2 = P;
    T2 = T;
    S2 = S;
    const int  kind = R.kind;
    const bool all  = kind == r_all;
    const int  n    = P.n;

    if ((kind == r_dup_eq_10 || kind == r_dup_eq_mix || kind == r_dup_eq_random || all) && P2.A.rows() > 0)
    {
        const double w1 = kind == r_dup_eq_10 ? 1.0 : (kind == r_dup_eq_mix ? 0.2 : R.w1);
        const double w2 = kind == r_dup_eq_10 ? 0.0 : (kind == r_dup_eq_mix ? 1.1 : R.w2);
        if (!std::isfinite(w1) || !std::isfinite(w2))
        {
            return false;
        }
        const int  p    = static_cast<int>(P2.A.rows());
        const auto perm = permutation(R.kd, p);
        if (R.ndup > 0)
        {
            // partial duplication: append only `dups` combined rows (possibly fewer or more than p)
            const int dups = 1 + (R.ndup - 1) % (p + 2);
            MatrixXd  A2(p + dups, n);
            VectorXd  b2(p + dups);
            A2.topRows(p) = P2.A;
            b2.head(p)    = P2.b;
            for (int d = 0; d < dups; ++d)
            {
                const int    pr = perm[static_cast<size_t>(d % p)];
                const int    pm = (pr + 1 + d / p) % p;
                const double v1 = w1 + 0.25 * (d / p), v2 = w2 - 0.5 * (d / p);
                A2.row(p + d)   = P2.A.row(pr) * v1 + P2.A.row(pm) * v2;
                b2(p + d)       = P2.b(pr) * v1 + P2.b(pm) * v2;
            }
            P2.A = A2;
            P2.b = b2;
        }
        else
        {
        MatrixXd   A2(2 * p, n);
        VectorXd   b2(2 * p);
        for (int row = 0; row < p; ++row)
        {
            const int pr  = perm[static_cast<size_t>(row)];
            const int pm  = (pr + 1) % p;
            const int dup = 2 * p - 1 - row;
            A2.row(row)   = P2.A.row(pr);
            b2(row)       = P2.b(pr);
            A2.row(dup)   = P2.A.row(pr) * w1 + P2.A.row(pm) * w2;
            b2(dup)       = P2.b(pr) * w1 + P2.b(pm) * w2;
        }
        P2.A = A2;
        P2.b = b2;
        }
    }
    if (kind == r_scale_ineq || all)
    {
        for (int i = 0; i < P2.G.rows(); ++i)
        {
            const double s = at(R.si, i, 1.0);
            if (!(s > 0.0) || !std::isfinite(s))
            {
                return false;
            }
            P2.G.row(i) *= s;
            P2.h(i) *= s;
        }
    }
    if (kind == r_scale_obj || all)
    {
        const double s = R.oscale;
        if (!(s > 0.0) || !std::isfinite(s))
        {
            return false;
        }
        P2.Q *= s;
        P2.c *= s;
        T2.fstar *= s;
    }
    if (kind == r_scale_eq || all)
    {
        for (int i = 0; i < P2.A.rows(); ++i)
        {
            const double s = at(R.se, i, 1.0);
            if (s == 0.0 || !std::isfinite(s))
            {
                return false;
            }
            P2.A.row(i) *= s;
            P2.b(i) *= s;
        }
    }
    if (kind == r_perm_rows || all)
    {
        const auto pi = permutation(R.ki, static_cast<int>(P2.G.rows()));
        const auto pe = permutation(R.ke, static_cast<int>(P2.A.rows()));
        const auto G = P2.G, A = P2.A;
        const auto h = P2.h, b = P2.b;
        for (size_t i = 0; i < pi.size(); ++i)
        {
            P2.G.row(static_cast<long>(i)) = G.row(pi[i]);
            P2.h(static_cast<long>(i))     = h(pi[i]);
        }
        for (size_t i = 0; i < pe.size(); ++i)
        {
            P2.A.row(static_cast<long>(i)) = A.row(pe[i]);
            P2.b(static_cast<long>(i))     = b(pe[i]);
        }
    }
    if (kind == r_perm_vars || all)
    {
        const auto pv = permutation(R.kv, n);
        const auto G = P2.G, A = P2.A, Q = P2.Q;
        const auto c = P2.c;
        for (int j = 0; j < n; ++j)
        {
            const int s = pv[static_cast<size_t>(j)];
            P2.c(j)     = c(s);
            if (G.rows() > 0)
            {
                P2.G.col(j) = G.col(s);
            }
            if (A.rows() > 0)
            {
                P2.A.col(j) = A.col(s);
            }
            if (T.xstar.size() == n)
            {
                T2.xstar(j) = T.xstar(s);
            }
            if (S.user)
            {
                S2.x0(j) = S.x0(s);
            }
            for (int i = 0; i < n && Q.size() > 0; ++i)
            {
                P2.Q(i, j) = Q(pv[static_cast<size_t>(i)], s);
            }
        }
    }
    return true;
}

// ---------------------------------------------------------------------------------------
// the oracle on one solve
// ---------------------------------------------------------------------------------------
struct outcome_t
{
    verdict_t verdict;
    bool      converged{false};
    bool      ran{false}; // the iteration was entered (start strictly inside the inequalities)
};

int priority(const verdict_t& v)
{
    switch (v.kind)
    {
    case kind_t::violation: return 4;
    case kind_t::known: return 3;
    case kind_t::borderline: return 2;
    case kind_t::discard: return 1;
    default: return 0;
    }
}

const char* status_name(nano::solver_status s)
{
    switch (s)
    {
    case nano::solver_status::max_iters: return "max_iters";
    case nano::solver_status::converged: return "converged";
    case nano::solver_status::failed: return "failed";
    case nano::solver_status::unfeasible: return "unfeasible";
    default: return "unbounded";
    }
}

outcome_t check_solve(const prog_t& P, const truth_t& T, const start_t& S, const c04::face_t& face, const std::string& where,
                      ctx_t& ctx)
{
    outcome_t out;
    solved_t  sol;
    try
    {
        sol = solve(P, S);
    }
    catch (const std::exception& e)
    {
        out.verdict = verdict_t::violation("C04/exception/" + where, e.what());
        return out;
    }
    const auto& st = sol.state;
    out.ran        = sol.start_strict;
    ctx.label(where + "/status-" + status_name(st.m_status));
    if (st.m_status != nano::solver_status::converged)
    {
        return out; // never a violation
    }
    out.converged = true;

    if (T.status == truth_status::infeasible)
    {
        out.verdict = verdict_t::violation("C04/" + where + "/converged-on-infeasible-program",
                                           cat("status converged, fx=", st.m_fx, " for a program that is infeasible (exact oracle)"));
        return out;
    }
    if (T.status == truth_status::unbounded)
    {
        out.verdict = verdict_t::violation("C04/" + where + "/converged-on-unbounded-program",
                                           cat("status converged, fx=", st.m_fx, " for a program that is unbounded below (exact oracle)"));
        return out;
    }

    const VectorXd x = from_nano(st.m_x);
    const VectorXd u = from_nano(st.m_u);
    const VectorXd v = from_nano(st.m_v);
    if (x.size() != P.n || !x.allFinite() || !std::isfinite(st.m_fx) || !u.allFinite() || !v.allFinite())
    {
        out.verdict = verdict_t::violation("C04/" + where + "/converged-with-non-finite-result", "x, u, v or fx not finite");
        return out;
    }

    // clause 1: equalities, clause 2: inequalities (caller's matrices)
    const double tol_eq = 1e-6 * (1.0 + (P.b.size() > 0 ? P.b.cwiseAbs().maxCoeff() : 0.0));
    const double res_eq = P.A.rows() > 0 ? (P.A * x - P.b).cwiseAbs().maxCoeff() : 0.0;
    const double tol_in = 1e-6 * (1.0 + (P.h.size() > 0 ? P.h.cwiseAbs().maxCoeff() : 0.0));
    const double res_in = P.G.rows() > 0 ? std::max(0.0, (P.G * x - P.h).maxCoeff()) : 0.0;
    // clause 3: reported objective vs objective at x, relative to the magnitude of its (elementary) terms
    const double fx      = objective(P, x);
    const double terms   = objective_terms(P, x);
    const double tol_fx  = 1e-6 * terms;
    const double res_fx  = std::fabs(st.m_fx - fx);
    const double agg     = std::fabs(P.c.dot(x)) + (P.Q.size() > 0 ? std::fabs(0.5 * x.dot(P.Q * x)) : 0.0);
    // clause 4: optimality gap
    const double M       = std::max({1e-3, P.Q.size() > 0 ? P.Q.norm() : 0.0, P.c.norm()});
    const double tol_opt = 1e-8 * M * (1.0 + (x - T.xstar).norm() + u.cwiseAbs().sum() + v.cwiseAbs().sum());
    const double res_opt = std::fabs(fx - T.fstar);

    const double r_eq  = res_eq / tol_eq;
    const double r_in  = res_in / tol_in;
    const double r_fx  = res_fx <= tol_fx ? (tol_fx > 0.0 ? res_fx / tol_fx : 0.0) : res_fx / std::max(tol_fx, 1e-300);
    const double r_opt = res_opt / tol_opt;
    ctx.maximum("equality residual / allowance", r_eq);
    ctx.maximum("inequality residual / allowance", r_in);
    ctx.maximum("objective mismatch / allowance (elementary terms)", std::min(r_fx, 1e300));
    ctx.maximum("objective mismatch / allowance (aggregate terms; F5 watch, not a verdict)",
                res_fx <= 1e-6 * agg ? (agg > 0.0 ? res_fx / (1e-6 * agg) : 0.0) : std::min(res_fx / std::max(1e-6 * agg, 1e-300), 1e12));
    ctx.maximum("optimality gap / allowance", r_opt);
    ctx.label_if(res_fx > 1e-6 * agg, "objective-mismatch-above-aggregate-allowance");

    const char* clause = "equality-residual";
    double      worst  = r_eq;
    if (r_in > worst)
    {
        worst  = r_in;
        clause = "inequality-residual";
    }
    if (r_fx > worst)
    {
        worst  = r_fx;
        clause = "objective-consistency";
    }
    if (r_opt > worst)
    {
        worst  = r_opt;
        clause = "optimality-gap";
    }
    if (!(worst > 1.0))
    {
        return out;
    }
    // the allowances are the property's own (they already carry a 100x margin over the solver's residual test): no
    // further band beyond the rounding of the harness's own recomputation
    if (!(worst > 1.0 + 1e-9))
    {
        return out;
    }

    const double xinf  = x.cwiseAbs().maxCoeff();
    const double xsinf = T.xstar.size() > 0 ? T.xstar.cwiseAbs().maxCoeff() : 0.0;
    const auto   msg   = cat(clause, ": eq ", res_eq, " (allowed ", tol_eq, "), ineq ", res_in, " (allowed ", tol_in, "), |m_fx-f(x)| ",
                             res_fx, " (allowed ", tol_fx, "), |f(x)-f*| ", res_opt, " (allowed ", tol_opt, "), m_fx=", st.m_fx,
                             " f(x)=", fx, " f*=", T.fstar, " |x|inf=", xinf, " |x*|inf=", xsinf, " iters=", st.m_iters,
                             " n=", P.n, " p=", P.A.rows(), " m=", P.G.rows(), P.lp ? " LP" : " QP");

    // finding F5: the last, abandoned line search left m_fx (and the residuals) at a trial point while m_x is the
    // previous iterate.  Mechanism predicate: only the objective-consistency clause fails, and re-running the same
    // solve with max_iters = m_iters (so the abandoned iteration is never started) returns bit-for-bit the same m_x
    // with an m_fx that IS consistent with it.
    if (r_eq <= 1.0 && r_in <= 1.0 && r_opt <= 1.0 && st.m_iters >= 10)
    {
        try
        {
            const auto  again = solve(P, S, st.m_iters);
            const auto& s2    = again.state;
            bool        same  = s2.m_x.size() == st.m_x.size() && s2.m_iters == st.m_iters && s2.m_status == nano::solver_status::max_iters;
            for (nano::tensor_size_t i = 0; same && i < st.m_x.size(); ++i)
            {
                same = s2.m_x(i) == st.m_x(i);
            }
            if (same && std::isfinite(s2.m_fx) && std::fabs(s2.m_fx - fx) <= tol_fx)
            {
                out.verdict = verdict_t::known(F5_SIG, msg + cat(" | re-run stopped before the abandoned iteration: same x, m_fx=", s2.m_fx));
                return out;
            }
        }
        catch (const std::exception&)
        {
        }
    }

    // known finding F9: LP / rank-deficient QP, verified recession direction of the optimal face, iterate ran away
    // ... and every clause that fails is explained by rounding at the scale of the runaway iterate (1e3 * eps * the
    // magnitude of the terms at x): a residual larger than that has another cause and stays a violation.
    const bool   deficient = P.lp || Eigen::FullPivLU<MatrixXd>(P.Q).rank() < P.n;
    const double xeps      = 1e3 * std::numeric_limits<double>::epsilon();
    const double scale_eq  = P.A.rows() > 0 ? (P.A.cwiseAbs() * x.cwiseAbs() + P.b.cwiseAbs()).maxCoeff() : 0.0;
    const double scale_in  = P.G.rows() > 0 ? (P.G.cwiseAbs() * x.cwiseAbs() + P.h.cwiseAbs()).maxCoeff() : 0.0;
    const bool   rounding  = (r_eq <= 10.0 || res_eq <= xeps * scale_eq) && (r_in <= 10.0 || res_in <= xeps * scale_in) &&
                          (r_fx <= 10.0 || res_fx <= xeps * terms) && (r_opt <= 10.0 || res_opt <= xeps * terms);
    if (deficient && face.kind == c04::face_kind::unbounded && xinf >= 1e6 * (1.0 + xsinf) && rounding)
    {
        out.verdict = verdict_t::known(F9_SIG, msg);
        return out;
    }
    out.verdict = verdict_t::violation("C04/" + where + "/" + clause,
                                       msg + cat(" | optimal face: ", face.kind == c04::face_kind::unbounded ? "unbounded" : face.kind == c04::face_kind::bounded ? "bounded" : "undetermined",
                                                 " deficient=", deficient, " rounding=", rounding));
    return out;
}

// solves the program as stated and under the restatement, merges the verdicts
verdict_t check_program(const prog_t& P, const truth_t& T, const start_t& S, const restate_t& R, ctx_t& ctx, bool& any_converged,
                        bool& any_ran)
{
    const auto face = T.status == truth_status::optimal ? c04::optimal_face_recession(P.Q, P.c, P.A, P.G) : c04::face_t{};
    if (T.status == truth_status::optimal)
    {
        ctx.label(face.kind == c04::face_kind::unbounded ? "optimal-face-unbounded"
                  : face.kind == c04::face_kind::bounded ? "optimal-face-bounded"
                                                         : "optimal-face-undetermined");
        ctx.label_if(face.kind == c04::face_kind::unbounded && face.line, "optimal-face-contains-line");
    }
    auto o1       = check_solve(P, T, S, face, "stated", ctx);
    any_converged = o1.converged;
    any_ran       = o1.ran;
    verdict_t worst = o1.verdict;

    if (R.kind != r_none)
    {
        prog_t  P2;
        truth_t T2;
        start_t S2;
        if (!restate(R, P, T, S, P2, T2, S2))
        {
            return verdict_t::discard("restatement-outside-domain");
        }
        ctx.label(std::string("restated-") + restate_name(R.kind));
        const auto face2 = T.status == truth_status::optimal ? c04::optimal_face_recession(P2.Q, P2.c, P2.A, P2.G) : c04::face_t{};
        auto       o2    = check_solve(P2, T2, S2, face2, "restated", ctx);
        ctx.label_if(o1.converged != o2.converged, "restatement-changes-converged-flag");
        any_converged = any_converged || o2.converged;
        any_ran       = any_ran || o2.ran;
        if (priority(o2.verdict) > priority(worst))
        {
            worst = o2.verdict;
            if (worst.kind == kind_t::violation && worst.sig.rfind("C04/restated/", 0) == 0)
            {
                worst.sig = "C04/restated/" + std::string(restate_name(R.kind)) + worst.sig.substr(std::string("C04/restated").size());
            }
        }
    }
    return worst;
}

rc::Gen<restate_t> gen_restate(const int percent)
{
    return rc::gen::exec(
        [=]()
        {
            restate_t R;
            if (!*gen::chance(percent))
            {
                return R;
            }
            R.kind   = *gen::range<int>(1, r_count - 1);
            R.w1     = *gen::sym(2.0);
            R.w2     = *gen::sym(2.0);
            R.oscale = *gen::logu(1e-2, 1e2);
            R.si     = *rc::gen::container<std::vector<double>>(26, gen::logu(1e-2, 1e2));
            R.se     = *rc::gen::container<std::vector<double>>(24, rc::gen::map(rc::gen::pair(gen::logu(1e-2, 1e2), gen::chance(50)),
                                                                               [](const std::pair<double, bool>& sv)
                                                                               { return sv.second ? -sv.first : sv.first; }));
            R.ki     = *rc::gen::container<std::vector<double>>(26, gen::real(0.0, 1.0));
            R.ke     = *rc::gen::container<std::vector<double>>(24, gen::real(0.0, 1.0));
            R.kv     = *rc::gen::container<std::vector<double>>(12, gen::real(0.0, 1.0));
            R.kd     = *rc::gen::container<std::vector<double>>(12, gen::real(0.0, 1.0));
            R.ndup   = *gen::chance(60) ? *gen::range<int>(1, 14) : 0;
            return R;
        });
}

// =======================================================================================
// G1: KKT-constructed programs
// =======================================================================================
struct kcase_t
{
    int                 n{1}, p{0}, m{1};  // m general inequality rows
    int                 bound{0};          // 0 none, 1 box (2n rows), 2 simplex (n+1 rows)
    int                 rank{0};           // rows of D, Q = D'D; 0 => LP
    bool                lp_as_qp{false};   // LP handed over as a quadratic program with Q = 0
    std::vector<double> D;                 // rank x n
    std::vector<double> xstar;             // n
    std::vector<double> A;                 // p x n (row scales applied)
    std::vector<double> vstar;             // p
    std::vector<double> G;                 // m x n (row scales applied, before orientation)
    std::vector<int>    act;               // m: 0 inactive, 1 active with u* > 0, 2 weakly active (u* = 0)
    std::vector<double> ustar;             // m (used where act == 1)
    std::vector<double> slack;             // m (used where act == 0)
    std::vector<double> bscale;            // scales of the bounding rows
    std::vector<double> bslack;            // slacks of the bounding rows
    int                 x0mode{0};         // 0 default start, 1 strictly feasible start x* + w by construction
    std::vector<double> w;                 // n
    restate_t           R;

    template <class Ar>
    void io(Ar& a)
    {
        a("n", n);
        a("p", p);
        a("m", m);
        a("bound", bound);
        a("rank", rank);
        a("lp_as_qp", lp_as_qp);
        a("D", D);
        a("xstar", xstar);
        a("A", A);
        a("vstar", vstar);
        a("G", G);
        a("act", act);
        a("ustar", ustar);
        a("slack", slack);
        a("bscale", bscale);
        a("bslack", bslack);
        a("x0mode", x0mode);
        a("w", w);
        R.io(a);
    }
};

int bound_rows(const kcase_t& c)
{
    return c.bound == 1 ? 2 * c.n : (c.bound == 2 ? c.n + 1 : 0);
}

rc::Gen<kcase_t> gen_kcase()
{
    return rc::gen::exec(
        []()
        {
            kcase_t c;
            c.n = *gen::range<int>(1, 12);
            c.p = *gen::range<int>(0, c.n - 1);
            const int n = c.n, p = c.p;

            // objective: LP, rank-deficient QP, full-rank QP
            const int qkind = *gen::range<int>(0, 9);
            c.rank          = qkind <= 3 ? 0 : (qkind <= 6 && n >= 2 ? *gen::range<int>(1, n - 1) : n);
            c.lp_as_qp      = c.rank == 0 && *gen::chance(20);
            // bounding rows for half of the LPs / rank-deficient QPs, a few of the others
            const bool bounded = *gen::chance(c.rank < n ? 50 : 10);
            c.bound            = bounded ? *gen::range<int>(1, 2) : 0;
            const int nb       = bound_rows(c);
            const int mmax     = 2 * n + 2 - nb;
            c.m                = *gen::range<int>(nb > 0 ? 0 : 1, mmax);
            const int m        = c.m;

            const int    spread = *gen::range<int>(0, 2); // row magnitudes 10^-spread .. 10^spread
            const auto   scale  = [&]() { return spread == 0 ? 1.0 : *gen::logu(std::pow(10.0, -spread), std::pow(10.0, spread)); };
            const double xr     = *rc::gen::element(1.0, 10.0, 100.0);
            const double dscale = *gen::logu(0.1, 10.0);

            c.D = *gen::vec(static_cast<size_t>(c.rank * n), dscale);
            c.xstar = *gen::vec(static_cast<size_t>(n), xr);
            for (int i = 0; i < p; ++i)
            {
                const auto row = *gen::vec(static_cast<size_t>(n), scale());
                c.A.insert(c.A.end(), row.begin(), row.end());
                const auto mag = *gen::logu(1e-2, 1e2);
                c.vstar.push_back(*gen::chance(50) ? -mag : mag);
            }
            const int kmax = std::min(m, n - p + 2);
            const int k    = *gen::range<int>(0, kmax);
            for (int i = 0; i < m; ++i)
            {
                const auto row = *gen::vec(static_cast<size_t>(n), scale());
                c.G.insert(c.G.end(), row.begin(), row.end());
                c.act.push_back(i < k ? (*gen::chance(20) ? 2 : 1) : 0);
                c.ustar.push_back(*gen::logu(1e-2, 1e2));
                c.slack.push_back(*gen::logu(1e-2, 1e2));
            }
            for (int i = 0; i < nb; ++i)
            {
                c.bscale.push_back(scale());
                c.bslack.push_back(*gen::logu(1e-2, 1e2));
            }
            c.x0mode = *gen::range<int>(0, 1);
            c.w      = *gen::vec(static_cast<size_t>(n), *gen::logu(1e-1, 1e2));
            c.R      = *gen_restate(30);
            return c;
        });
}

// derives the program from the ingredients; false = ingredients outside the domain (reason set)
bool build_kkt(const kcase_t& c, prog_t& P, truth_t& T, start_t& S, int& nactive, int& ninactive, bool& weakly, std::string& reason)
{
    const int n = c.n, p = c.p, m = c.m, nb = bound_rows(c);
    const auto sz = [](int a, int b) { return static_cast<size_t>(a) * static_cast<size_t>(b); };
    if (n < 1 || n > 12 || p < 0 || p > n - 1 || m < 0 || m + nb < 1 || m + nb > 2 * n + 2 || c.rank < 0 || c.rank > n ||
        c.bound < 0 || c.bound > 2 || c.D.size() != sz(c.rank, n) || c.xstar.size() != sz(n, 1) || c.A.size() != sz(p, n) ||
        c.vstar.size() != sz(p, 1) || c.G.size() != sz(m, n) || c.act.size() != sz(m, 1) || c.ustar.size() != sz(m, 1) ||
        c.slack.size() != sz(m, 1) || c.bscale.size() != sz(nb, 1) || c.bslack.size() != sz(nb, 1) || c.w.size() != sz(n, 1))
    {
        reason = "malformed-case";
        return false;
    }
    const auto finite = [](const std::vector<double>& v) { return std::all_of(v.begin(), v.end(), [](double x) { return std::isfinite(x); }); };
    if (!finite(c.D) || !finite(c.xstar) || !finite(c.A) || !finite(c.vstar) || !finite(c.G) || !finite(c.ustar) || !finite(c.slack) ||
        !finite(c.bscale) || !finite(c.bslack) || !finite(c.w))
    {
        reason = "non-finite-ingredient";
        return false;
    }

    const VectorXd xs = Eigen::Map<const VectorXd>(c.xstar.data(), n);
    const VectorXd w  = Eigen::Map<const VectorXd>(c.w.data(), n);
    P.n     = n;
    P.lp    = c.rank == 0;
    P.as_qp = P.lp && c.lp_as_qp;
    if (c.rank > 0)
    {
        MatrixXd D(c.rank, n);
        for (int i = 0; i < c.rank; ++i)
        {
            for (int j = 0; j < n; ++j)
            {
                D(i, j) = c.D[sz(i, n) + static_cast<size_t>(j)];
            }
        }
        P.Q = D.transpose() * D;
        P.Q = (0.5 * (P.Q + P.Q.transpose())).eval();
    }
    else if (P.as_qp)
    {
        P.Q = MatrixXd::Zero(n, n);
    }
    P.A.resize(p, n);
    for (int i = 0; i < p; ++i)
    {
        for (int j = 0; j < n; ++j)
        {
            P.A(i, j) = c.A[sz(i, n) + static_cast<size_t>(j)];
        }
        if (P.A.row(i).cwiseAbs().maxCoeff() == 0.0)
        {
            reason = "zero-equality-row";
            return false;
        }
    }
    P.b = P.A * xs;

    const bool constructed = c.x0mode == 1;
    P.G.resize(m + nb, n);
    P.h.resize(m + nb);
    VectorXd ustar = VectorXd::Zero(m + nb);
    nactive = ninactive = 0;
    weakly  = false;
    for (int i = 0; i < m; ++i)
    {
        for (int j = 0; j < n; ++j)
        {
            P.G(i, j) = c.G[sz(i, n) + static_cast<size_t>(j)];
        }
        if (P.G.row(i).cwiseAbs().maxCoeff() == 0.0)
        {
            reason = "zero-inequality-row";
            return false;
        }
        const int act = c.act[static_cast<size_t>(i)];
        if (act < 0 || act > 2)
        {
            reason = "malformed-case";
            return false;
        }
        if (act != 0)
        {
            if (constructed && P.G.row(i).dot(w) > 0.0)
            {
                P.G.row(i) = -P.G.row(i); // orient the active row so that the start x* + w is strictly inside
            }
            P.h(i) = P.G.row(i).dot(xs);
            if (act == 1)
            {
                if (!(c.ustar[static_cast<size_t>(i)] > 0.0))
                {
                    reason = "non-positive-multiplier";
                    return false;
                }
                ustar(i) = c.ustar[static_cast<size_t>(i)];
            }
            else
            {
                weakly = true;
            }
            ++nactive;
        }
        else
        {
            if (!(c.slack[static_cast<size_t>(i)] > 0.0))
            {
                reason = "non-positive-slack";
                return false;
            }
            const double gx = P.G.row(i).dot(xs);
            P.h(i)          = (constructed ? std::max(gx, P.G.row(i).dot(xs + w)) : gx) + c.slack[static_cast<size_t>(i)];
            ++ninactive;
        }
    }
    for (int i = 0; i < nb; ++i)
    {
        VectorXd row = VectorXd::Zero(n);
        if (c.bound == 1)
        {
            row(i / 2) = (i % 2 == 0) ? 1.0 : -1.0;
        }
        else if (i < n)
        {
            row(i) = -1.0;
        }
        else
        {
            row.setOnes();
        }
        const double s  = c.bscale[static_cast<size_t>(i)];
        const double sl = c.bslack[static_cast<size_t>(i)];
        if (!(s > 0.0) || !(sl > 0.0))
        {
            reason = "non-positive-slack";
            return false;
        }
        row *= s;
        P.G.row(m + i) = row.transpose();
        const double gx = row.dot(xs);
        P.h(m + i)      = (constructed ? std::max(gx, row.dot(xs + w)) : gx) + sl;
        ++ninactive;
    }
    const VectorXd vstar = Eigen::Map<const VectorXd>(c.vstar.data(), p);
    P.c                  = -(P.G.transpose() * ustar);
    if (p > 0)
    {
        P.c -= P.A.transpose() * vstar;
    }
    if (c.rank > 0)
    {
        P.c -= P.Q * xs;
    }
    if (!P.c.allFinite() || !P.h.allFinite() || !P.b.allFinite())
    {
        reason = "non-finite-ingredient";
        return false;
    }
    T.status = truth_status::optimal;
    T.xstar  = xs;
    T.fstar  = objective(P, xs);
    S.user   = constructed;
    S.x0     = xs + w;
    return true;
}

verdict_t check_kcase(const kcase_t& c, ctx_t& ctx)
{
    prog_t      P;
    truth_t     T;
    start_t     S;
    int         nactive = 0, ninactive = 0;
    bool        weakly = false;
    std::string reason;
    if (!build_kkt(c, P, T, S, nactive, ninactive, weakly, reason))
    {
        return verdict_t::discard(reason);
    }
    const int mtotal = static_cast<int>(P.G.rows());
    ctx.label(c.rank == 0 ? (c.lp_as_qp ? "LP-as-QP-with-zero-Q" : "LP") : (c.rank < c.n ? "QP-rank-deficient" : "QP-full-rank"));
    ctx.label(c.bound == 0 ? "no-bounding-rows" : (c.bound == 1 ? "box-rows" : "simplex-rows"));
    ctx.label(S.user ? "x0-constructed" : "x0-default");
    ctx.label_if(nactive + c.p > c.n, "degenerate-vertex");
    ctx.label_if(nactive + c.p == c.n, "vertex");
    ctx.label_if(nactive == 0, "interior-optimum");
    ctx.label_if(weakly, "weakly-active-row");
    ctx.label_if(c.p > 0, "with-equalities");

    bool       converged = false, ran = false;
    const auto v   = check_program(P, T, S, c.R, ctx, converged, ran);
    ctx.nontrivial = converged && mtotal >= 2 && nactive >= 1 && ninactive >= 1;
    return v;
}

// =======================================================================================
// G2: small integer programs decided exactly
// =======================================================================================
struct scase_t
{
    int              n{1}, p{0}, m{1};
    bool             qp{false};
    std::vector<int> D;       // n x n, Q = D'D (+ I if D is singular)
    std::vector<int> c;       // n
    std::vector<int> A, b;    // p x n, p
    std::vector<int> G, h;    // m x n, m
    int              hmode{0}; // 0: h as given; 1: h = G x0 + slack (x0 strictly inside the inequalities)
    std::vector<int> slack;   // m, >= 1
    bool             user_x0{false};
    std::vector<int> x0;      // n
    restate_t        R;

    template <class Ar>
    void io(Ar& a)
    {
        a("n", n);
        a("p", p);
        a("m", m);
        a("qp", qp);
        a("D", D);
        a("c", c);
        a("A", A);
        a("b", b);
        a("G", G);
        a("h", h);
        a("hmode", hmode);
        a("slack", slack);
        a("user_x0", user_x0);
        a("x0", x0);
        R.io(a);
    }
};

rc::Gen<scase_t> gen_scase()
{
    return rc::gen::exec(
        []()
        {
            scase_t c;
            c.n  = *gen::range<int>(1, 3);
            c.m  = *gen::chance(12) ? 0 : *gen::range<int>(1, 6); // m = 0: no inequality at all (the solver's direct KKT solve)
            c.p  = *gen::range<int>(0, 2);
            c.qp = *gen::chance(35);
            const auto ints = [](int count, int lo, int hi) { return *rc::gen::container<std::vector<int>>(static_cast<size_t>(count), gen::range<int>(lo, hi)); };
            // coefficient styles: full range, or sparse {-1,0,1} (more parallel / redundant / contradictory rows)
            const int r = *gen::chance(40) ? 1 : 5;
            c.D     = ints(c.n * c.n, -3, 3);
            c.c     = ints(c.n, -5, 5);
            c.A     = ints(c.p * c.n, -r, r);
            c.b     = ints(c.p, -5, 5);
            c.G     = ints(c.m * c.n, -r, r);
            c.h     = ints(c.m, -5, 5);
            c.hmode = *gen::chance(65) ? 1 : 0;
            c.slack = ints(c.m, 1, 5);
            c.user_x0 = *gen::chance(60);
            c.x0    = ints(c.n, -3, 3);
            c.R     = *gen_restate(30);
            return c;
        });
}

bool build_small(const scase_t& c, c04::iprogram_t& I, std::string& reason)
{
    const int n = c.n, p = c.p, m = c.m;
    const auto sz = [](int a, int b) { return static_cast<size_t>(a) * static_cast<size_t>(b); };
    if (n < 1 || n > 3 || m < 0 || m > 6 || p < 0 || p > 2 || c.D.size() != sz(n, n) || c.c.size() != sz(n, 1) || c.A.size() != sz(p, n) ||
        c.b.size() != sz(p, 1) || c.G.size() != sz(m, n) || c.h.size() != sz(m, 1) || c.slack.size() != sz(m, 1) || c.x0.size() != sz(n, 1) ||
        c.hmode < 0 || c.hmode > 1)
    {
        reason = "malformed-case";
        return false;
    }
    const auto small = [](const std::vector<int>& v, int r) { return std::all_of(v.begin(), v.end(), [=](int x) { return x >= -r && x <= r; }); };
    if (!small(c.D, 3) || !small(c.c, 5) || !small(c.A, 5) || !small(c.b, 5) || !small(c.G, 5) || !small(c.h, 5) || !small(c.x0, 3) ||
        !std::all_of(c.slack.begin(), c.slack.end(), [](int s) { return s >= 1 && s <= 5; }))
    {
        reason = "coefficient-out-of-range";
        return false;
    }
    I.n  = n;
    I.qp = c.qp;
    I.c.assign(c.c.begin(), c.c.end());
    for (int i = 0; i < p; ++i)
    {
        I.A.emplace_back(c.A.begin() + i * n, c.A.begin() + (i + 1) * n);
        I.b.push_back(c.b[static_cast<size_t>(i)]);
    }
    for (int i = 0; i < m; ++i)
    {
        I.G.emplace_back(c.G.begin() + i * n, c.G.begin() + (i + 1) * n);
        long h = c.h[static_cast<size_t>(i)];
        if (c.hmode == 1)
        {
            h = c.slack[static_cast<size_t>(i)];
            for (int j = 0; j < n; ++j)
            {
                h += static_cast<long>(c.G[sz(i, n) + static_cast<size_t>(j)]) * c.x0[static_cast<size_t>(j)];
            }
        }
        I.h.push_back(h);
    }
    if (c.qp)
    {
        I.Q.assign(static_cast<size_t>(n), std::vector<long>(static_cast<size_t>(n), 0));
        c04::rmat_t Dr;
        for (int k = 0; k < n; ++k)
        {
            c04::rvec_t row;
            for (int j = 0; j < n; ++j)
            {
                row.emplace_back(static_cast<long long>(c.D[sz(k, n) + static_cast<size_t>(j)]));
            }
            Dr.push_back(row);
        }
        const bool singular = c04::rank_of(Dr) < static_cast<size_t>(n);
        for (int i = 0; i < n; ++i)
        {
            for (int j = 0; j < n; ++j)
            {
                long q = (singular && i == j) ? 1 : 0;
                for (int k = 0; k < n; ++k)
                {
                    q += static_cast<long>(c.D[sz(k, n) + static_cast<size_t>(i)]) * c.D[sz(k, n) + static_cast<size_t>(j)];
                }
                I.Q[static_cast<size_t>(i)][static_cast<size_t>(j)] = q;
            }
        }
    }
    return true;
}

prog_t to_prog(const c04::iprogram_t& I)
{
    prog_t    P;
    const int n = I.n;
    P.n  = n;
    P.lp = !I.qp;
    if (I.qp)
    {
        P.Q.resize(n, n);
        for (int i = 0; i < n; ++i)
        {
            for (int j = 0; j < n; ++j)
            {
                P.Q(i, j) = static_cast<double>(I.Q[static_cast<size_t>(i)][static_cast<size_t>(j)]);
            }
        }
    }
    P.c.resize(n);
    for (int j = 0; j < n; ++j)
    {
        P.c(j) = static_cast<double>(I.c[static_cast<size_t>(j)]);
    }
    P.A.resize(static_cast<long>(I.A.size()), n);
    P.b.resize(static_cast<long>(I.A.size()));
    for (size_t i = 0; i < I.A.size(); ++i)
    {
        for (int j = 0; j < n; ++j)
        {
            P.A(static_cast<long>(i), j) = static_cast<double>(I.A[i][static_cast<size_t>(j)]);
        }
        P.b(static_cast<long>(i)) = static_cast<double>(I.b[i]);
    }
    P.G.resize(static_cast<long>(I.G.size()), n);
    P.h.resize(static_cast<long>(I.G.size()));
    for (size_t i = 0; i < I.G.size(); ++i)
    {
        for (int j = 0; j < n; ++j)
        {
            P.G(static_cast<long>(i), j) = static_cast<double>(I.G[i][static_cast<size_t>(j)]);
        }
        P.h(static_cast<long>(i)) = static_cast<double>(I.h[i]);
    }
    return P;
}

verdict_t check_scase(const scase_t& c, ctx_t& ctx)
{
    c04::iprogram_t I;
    std::string     reason;
    if (!build_small(c, I, reason))
    {
        return verdict_t::discard(reason);
    }
    c04::exact_t ex;
    try
    {
        ex = c04::decide(I);
    }
    catch (const c04::overflow_t&)
    {
        return verdict_t::discard("exact-oracle-overflow");
    }
    if (ex.status == c04::xstatus::inconclusive)
    {
        {
        // (the reason is a free text: kept out of the one-token discard key)
        ctx.label("exact-oracle-inconclusive: " + ex.why);
        return verdict_t::discard("exact-oracle-inconclusive");
    }
    }
    prog_t  P = to_prog(I);
    truth_t T;
    int     nactive = 0, ninactive = 0;
    if (ex.status == c04::xstatus::optimal)
    {
        T.status = truth_status::optimal;
        T.xstar.resize(I.n);
        for (int j = 0; j < I.n; ++j)
        {
            T.xstar(j) = ex.x[static_cast<size_t>(j)].value();
        }
        T.fstar = ex.f.value();
        for (size_t i = 0; i < I.G.size(); ++i)
        {
            const bool active = c04::dot(c04::to_rvec(I.G[i]), ex.x) == c04::rat_t{static_cast<long long>(I.h[i])};
            (active ? nactive : ninactive)++;
        }
        ctx.label("exact-optimal");
        ctx.label_if(nactive + static_cast<int>(I.A.size()) > I.n, "degenerate-vertex");
    }
    else
    {
        T.status = ex.status == c04::xstatus::infeasible ? truth_status::infeasible : truth_status::unbounded;
        ctx.label(ex.status == c04::xstatus::infeasible ? "exact-infeasible" : "exact-unbounded");
    }
    ctx.label(I.qp ? "QP-positive-definite" : "LP");
    ctx.label_if(I.G.empty(), T.status == truth_status::optimal ? "no-inequality-optimal" : "no-inequality-infeasible-or-unbounded");
    start_t S;
    S.user = c.user_x0;
    S.x0.resize(I.n);
    for (int j = 0; j < I.n; ++j)
    {
        S.x0(j) = static_cast<double>(c.x0[static_cast<size_t>(j)]);
    }
    ctx.label(S.user ? "x0-user" : "x0-default");

    bool       converged = false, ran = false;
    const auto v = check_program(P, T, S, c.R, ctx, converged, ran);
    ctx.label_if(ran && T.status == truth_status::infeasible, "infeasible-program-iterated");
    ctx.label_if(ran && T.status == truth_status::unbounded, "unbounded-program-iterated");
    ctx.nontrivial = T.status == truth_status::optimal ? (converged && I.G.size() >= 2 && nactive >= 1 && ninactive >= 1) : ran;
    return v;
}

// ---------------------------------------------------------------------------------------
// hand-made cases for the exact oracle (run at every start; a failure stops the harness)
// ---------------------------------------------------------------------------------------
struct hand_t
{
    const char*                    name;
    int                            n;
    std::vector<std::vector<long>> Q;
    std::vector<long>              c;
    std::vector<std::vector<long>> A;
    std::vector<long>              b;
    std::vector<std::vector<long>> G;
    std::vector<long>              h;
    c04::xstatus                   status;
    long                           fnum, fden;
};

bool selftest(const bool verbose)
{
    using S = c04::xstatus;
    const std::vector<hand_t> cases = {
        {"infeasible: x <= -1, x >= 1", 1, {}, {1}, {}, {}, {{1}, {-1}}, {-1, -1}, S::infeasible, 0, 1},
        {"unbounded: min -x, x >= 0", 1, {}, {-1}, {}, {}, {{-1}}, {0}, S::unbounded, 0, 1},
        {"degenerate vertex: min -x-y, x<=1, y<=1, x+y<=2", 2, {}, {-1, -1}, {}, {}, {{1, 0}, {0, 1}, {1, 1}}, {1, 1, 2}, S::optimal, -2, 1},
        {"unique optimum: min x+y, x,y >= 0", 2, {}, {1, 1}, {}, {}, {{-1, 0}, {0, -1}}, {0, 0}, S::optimal, 0, 1},
        {"non-unique optimum, unbounded face: min x, x >= 0 in R^2", 2, {}, {1, 0}, {}, {}, {{-1, 0}}, {0}, S::optimal, 0, 1},
        {"non-unique optimum, edge: min -x-y, x+y<=1, x,y>=0", 2, {}, {-1, -1}, {}, {}, {{1, 1}, {-1, 0}, {0, -1}}, {1, 0, 0}, S::optimal, -1, 1},
        {"inconsistent equalities", 2, {}, {1, 1}, {{1, 1}, {1, 1}}, {1, 2}, {{1, 0}}, {5}, S::infeasible, 0, 1},
        {"equality against inequality: x = 2, x <= 1", 1, {}, {1}, {{1}}, {2}, {{1}}, {1}, S::infeasible, 0, 1},
        {"unbounded along an equality: min x-y, x+y=0, x<=5", 2, {}, {1, -1}, {{1, 1}}, {0}, {{1, 0}}, {5}, S::unbounded, 0, 1},
        {"bounded through the equality: min x, x-y=0, y>=0", 2, {}, {1, 0}, {{1, -1}}, {0}, {{0, -1}}, {0}, S::optimal, 0, 1},
        {"fractional vertex: min -x-y, 2x+y<=2, x+3y<=3, x,y>=0", 2, {}, {-1, -1}, {}, {}, {{2, 1}, {1, 3}, {-1, 0}, {0, -1}}, {2, 3, 0, 0}, S::optimal, -7, 5},
        {"zero objective on a feasible set", 2, {}, {0, 0}, {}, {}, {{1, 1}}, {1}, S::optimal, 0, 1},
        {"zero row, infeasible: 0 <= -1", 2, {}, {1, 0}, {}, {}, {{0, 0}}, {-1}, S::infeasible, 0, 1},
        {"three variables: min x+y+z, x+y+z=3, x,y,z>=0 ... value 3", 3, {}, {1, 1, 1}, {{1, 1, 1}}, {3}, {{-1, 0, 0}, {0, -1, 0}, {0, 0, -1}}, {0, 0, 0}, S::optimal, 3, 1},
        {"QP active: min (x^2+y^2)/2 - x - y, x+y <= 1", 2, {{1, 0}, {0, 1}}, {-1, -1}, {}, {}, {{1, 1}}, {1}, S::optimal, -3, 4},
        {"QP interior: min x^2/2 - x, x <= 5", 1, {{1}}, {-1}, {}, {}, {{1}}, {5}, S::optimal, -1, 2},
        {"QP with equality: min (x^2+y^2)/2, x+y=2, x>=0", 2, {{1, 0}, {0, 1}}, {0, 0}, {{1, 1}}, {2}, {{-1, 0}}, {0}, S::optimal, 1, 1},
        {"QP with duplicated equality", 2, {{2, 1}, {1, 2}}, {0, 0}, {{1, 1}, {2, 2}}, {2, 4}, {{-1, 0}}, {0}, S::optimal, 3, 1},
        {"QP infeasible", 2, {{1, 0}, {0, 1}}, {0, 0}, {{1, 0}}, {3}, {{1, 0}}, {1}, S::infeasible, 0, 1},
        {"QP degenerate: min ((x-2)^2+(y-2)^2)/2, x<=1, y<=1, x+y<=2", 2, {{1, 0}, {0, 1}}, {-2, -2}, {}, {}, {{1, 0}, {0, 1}, {1, 1}}, {1, 1, 2}, S::optimal, -3, 1},
    };
    bool ok = true;
    for (const auto& h : cases)
    {
        c04::iprogram_t I;
        I.n  = h.n;
        I.qp = !h.Q.empty();
        I.Q  = h.Q;
        I.c  = h.c;
        I.A  = h.A;
        I.b  = h.b;
        I.G  = h.G;
        I.h  = h.h;
        const auto ex   = c04::decide(I);
        const bool good = ex.status == h.status && (h.status != S::optimal || ex.f == c04::rat_t{c04::i128(h.fnum), c04::i128(h.fden)});
        if (verbose || !good)
        {
            std::fprintf(stderr, "selftest %-70s %s (status %d, f=%g%s%s)\n", h.name, good ? "ok" : "FAILED", static_cast<int>(ex.status),
                         ex.f.value(), ex.why.empty() ? "" : ", ", ex.why.c_str());
        }
        ok = ok && good;
    }
    // recession cone decision on hand-made faces
    {
        const auto f1 = c04::optimal_face_recession(MatrixXd{}, (VectorXd(2) << 1, 0).finished(), MatrixXd(0, 2), (MatrixXd(1, 2) << -1, 0).finished());
        const auto f2 = c04::optimal_face_recession(MatrixXd{}, (VectorXd(2) << -1, -1).finished(), MatrixXd(0, 2),
                                                    (MatrixXd(3, 2) << 1, 1, -1, 0, 0, -1).finished());
        const auto f3 = c04::optimal_face_recession(MatrixXd{}, (VectorXd(2) << 1, 0).finished(), MatrixXd(0, 2),
                                                    (MatrixXd(2, 2) << -1, 0, 0, -1).finished()); // min x, x,y>=0: ray (0,1)
        const auto f4 = c04::optimal_face_recession((MatrixXd(2, 2) << 1, 0, 0, 0).finished(), (VectorXd(2) << 0, 0).finished(), MatrixXd(0, 2),
                                                    (MatrixXd(1, 2) << 0, 1).finished()); // x^2/2, y <= h: ray (0,-1)
        const auto f5 = c04::optimal_face_recession((MatrixXd(2, 2) << 1, 0, 0, 1).finished(), (VectorXd(2) << 0, 0).finished(), MatrixXd(0, 2),
                                                    (MatrixXd(1, 2) << 0, 1).finished());
        const bool good = f1.kind == c04::face_kind::unbounded && f1.line && f2.kind == c04::face_kind::bounded &&
                          f3.kind == c04::face_kind::unbounded && !f3.line && f4.kind == c04::face_kind::unbounded &&
                          f5.kind == c04::face_kind::bounded;
        if (verbose || !good)
        {
            std::fprintf(stderr, "selftest recession cones %s (%d %d %d %d %d)\n", good ? "ok" : "FAILED", static_cast<int>(f1.kind),
                         static_cast<int>(f2.kind), static_cast<int>(f3.kind), static_cast<int>(f4.kind), static_cast<int>(f5.kind));
        }
        ok = ok && good;
    }
    return ok;
}
} // namespace

int main(int argc, char** argv)
{
    const bool verbose = argc > 1 && std::string(argv[1]) == "--selftest";
    bool       ok      = false;
    try
    {
        ok = selftest(verbose);
    }
    catch (const std::exception& e)
    {
        std::fprintf(stderr, "selftest exception: %s\n", e.what());
    }
    if (!ok)
    {
        std::fprintf(stderr, "C04 harness: the exact oracle fails its hand-made cases; refusing to run\n");
        return 70;
    }
    if (verbose)
    {
        return 0;
    }
    suite_t suite("C04");
    suite.add<kcase_t>("kkt", gen_kcase, check_kcase, 0.85);
    suite.add<scase_t>("small", gen_scase, check_scase, 0.15);
    return suite.main(argc, argv);
}
