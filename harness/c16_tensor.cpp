// C16 (ranks 1..3): tensor indexing / slicing / reshaping / gathers / storage conversions / summed-area table.
// The checks live in c16_tensor.h; they are instantiated for 38 (scalar type, rank) pairs, which is split over
// two executables to keep the (ASan + UBSan) compile time of each translation unit below three minutes.
#define C16_RANK_MIN 1
#define C16_RANK_MAX 3
#define C16_SUFFIX ""
#include "c16_tensor.h"
