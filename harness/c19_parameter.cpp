// C19 — parameters stay inside their declared domain; factory objects have in-domain defaults, report their id,
// and their clones are configuration-equal, behave identically and are independently modifiable
// (DESIGN.md section 5, C19; statement: properties.jsonl "id":"C19").
//
// Sub-checks
//   history             random histories (1..10 operations) on one parameter of a generated kind / domain,
//                       held inside a configurable_t, against the reference model below
//   history_exhaustive  all histories up to a depth over a fixed operation alphabet, per kind x comparator combination
//   factory             one object of one of the 11 factories: id, defaults, clone equality, behaviour, independence
//
// Reference model (DESIGN.md C19 + 4.3): an assignment is classified must-accept / must-reject / open.
//   must-accept: the value is exactly representable in the parameter's kind and inside the domain;
//   must-reject: wrong kind of value, non-finite, not representable, or the converted value violates a bound / the ordering;
//   open:        the value is inside the domain only after a lossy conversion (10.4 -> 10), or a string that is a number
//                only after skipping blanks / ignoring trailing characters: accepting and rejecting both satisfy the statement.
// After every operation: threw => value unchanged; accepted => value == converted value; always: value inside the domain.
#include "common.h"

#include <algorithm>
#include <cerrno>
#include <cfloat>
#include <climits>
#include <limits>
#include <sstream>
#include <typeinfo>

#include <nano/configurable.h>
#include <nano/core/verif.h>
#include <nano/datasource.h>
#include <nano/function.h>
#include <nano/generator.h>
#include <nano/linear.h>
#include <nano/loss.h>
#include <nano/parameter.h>
#include <nano/solver.h>
#include <nano/splitter.h>
#include <nano/tuner.h>
#include <nano/wlearner.h>

// enumerations owned by the harness (the library maps enumerations to strings through enum_string<>)
namespace nano
{
enum class vf_enum : int32_t
{
    alpha,
    beta,
    gamma,
    delta,
    alp,    // a proper prefix of an EARLIER enumerator's name
    betamax // has an EARLIER enumerator's name as a proper prefix (like the library's aic / aicc)
};

enum class vf_other : int32_t
{
    first,
    second
};

template <>
inline enum_map_t<vf_enum> enum_string<vf_enum>()
{
    return {
        {vf_enum::alpha, "alpha"},
        { vf_enum::beta,  "beta"},
        {vf_enum::gamma, "gamma"},
        {vf_enum::delta, "delta"},
        {vf_enum::alp, "alp"},
        {vf_enum::betamax, "betamax"}
    };
}

template <>
inline enum_map_t<vf_other> enum_string<vf_other>()
{
    return {
        { vf_other::first,  "first"},
        {vf_other::second, "second"}
    };
}
} // namespace nano

using namespace verif;

namespace
{
using nano::parameter_t;

constexpr double  two63   = 9223372036854775808.0;
constexpr int64_t i64_min = std::numeric_limits<int64_t>::min();
constexpr int64_t i64_max = std::numeric_limits<int64_t>::max();

const std::vector<std::string>& enum_names()
{
    static const std::vector<std::string> names = {"alpha", "beta", "gamma", "delta", "alp", "betamax"};
    return names;
}

// ---- kinds, operations ------------------------------------------------------------------------------------
enum kind_k : int
{
    K_ENUM = 0,
    K_INT,
    K_REAL,
    K_IPAIR,
    K_FPAIR,
    K_STRING,
    K_COUNT
};

const char* kind_name(int k)
{
    static const char* names[] = {"enum", "integer", "scalar", "integer-pair", "scalar-pair", "string"};
    return (k >= 0 && k < K_COUNT) ? names[k] : "?";
}

enum op_k : int
{
    OP_I64 = 0,   // param = int64_t
    OP_I32,       // param = int32_t
    OP_F64,       // param = double
    OP_PAIR_I32,  // param = tuple<int32_t, int32_t>
    OP_PAIR_I64,  // param = tuple<int64_t, int64_t>
    OP_PAIR_F64,  // param = tuple<double, double>
    OP_STRING,    // param = std::string
    OP_ENUM,      // param = vf_enum(i1)   (i1 may be no enumerator)
    OP_OTHER,     // param = vf_other(i1)  (another enumeration type)
    OP_ROUNDTRIP, // write + read (parameter and configurable), continue on the object read back
    OP_READS,     // typed reads: the right kind returns the value, every wrong kind throws
    OP_COPY,      // copy construction / assignment, continue on the copy
    OP_UNKNOWN,   // lookup of a name that is not registered (s = the name)
    OP_COUNT
};

const char* op_name(int o)
{
    static const char* names[] = {"assign-int64", "assign-int32", "assign-double", "assign-pair-int32", "assign-pair-int64",
                                  "assign-pair-double", "assign-string", "assign-enum", "assign-other-enum", "write-read",
                                  "typed-reads", "copy", "unknown-name"};
    return (o >= 0 && o < OP_COUNT) ? names[o] : "?";
}

struct op_t
{
    int         type{OP_I64};
    int64_t     i1{0}, i2{0};
    double      d1{0}, d2{0};
    std::string s;
};

// ---- the model ----------------------------------------------------------------------------------------------
struct model_t
{
    int         kind{K_INT};
    bool        min_le{true}, val_le{true}, max_le{true};
    int64_t     imin{0}, imax{0}, iv1{0}, iv2{0};
    double      fmin{0}, fmax{0}, fv1{0}, fv2{0};
    std::string sv; // enum: the enumerator's name; string: the value

    static bool cmp(bool le, long double a, long double b) { return le ? a <= b : a < b; }

    static bool cmpi(bool le, int64_t a, int64_t b) { return le ? a <= b : a < b; }

    bool in_dom(int64_t v) const { return cmpi(min_le, imin, v) && cmpi(max_le, v, imax); }

    bool in_dom(double v) const { return std::isfinite(v) && cmp(min_le, fmin, v) && cmp(max_le, v, fmax); }

    bool in_dom(int64_t a, int64_t b) const { return cmpi(min_le, imin, a) && cmpi(val_le, a, b) && cmpi(max_le, b, imax); }

    bool in_dom(double a, double b) const
    {
        return std::isfinite(a) && std::isfinite(b) && cmp(min_le, fmin, a) && cmp(val_le, a, b) && cmp(max_le, b, fmax);
    }

    bool value_in_domain() const
    {
        switch (kind)
        {
        case K_ENUM: return std::find(enum_names().begin(), enum_names().end(), sv) != enum_names().end();
        case K_INT: return in_dom(iv1);
        case K_REAL: return in_dom(fv1);
        case K_IPAIR: return in_dom(iv1, iv2);
        case K_FPAIR: return in_dom(fv1, fv2);
        default: return true;
        }
    }

    std::string describe() const
    {
        const auto c = [](bool le) { return le ? " <= " : " < "; };
        switch (kind)
        {
        case K_ENUM: return cat("enum{alpha,beta,gamma,delta,alp,betamax}=", sv);
        case K_INT: return cat(imin, c(min_le), iv1, c(max_le), imax);
        case K_REAL: return cat(fmin, c(min_le), fv1, c(max_le), fmax);
        case K_IPAIR: return cat(imin, c(min_le), iv1, c(val_le), iv2, c(max_le), imax);
        case K_FPAIR: return cat(fmin, c(min_le), fv1, c(val_le), fv2, c(max_le), fmax);
        default: return cat("string='", sv, "'");
        }
    }
};

parameter_t make_parameter(const std::string& name, const model_t& m)
{
    const auto lelt = [](bool le) { return le ? nano::LEorLT{nano::LE} : nano::LEorLT{nano::LT}; };
    switch (m.kind)
    {
    case K_ENUM:
    {
        const auto it = std::find(enum_names().begin(), enum_names().end(), m.sv);
        return parameter_t::make_enum(name, static_cast<nano::vf_enum>(it - enum_names().begin()));
    }
    case K_INT: return parameter_t::make_integer(name, m.imin, lelt(m.min_le), m.iv1, lelt(m.max_le), m.imax);
    case K_REAL: return parameter_t::make_scalar(name, m.fmin, lelt(m.min_le), m.fv1, lelt(m.max_le), m.fmax);
    case K_IPAIR:
        return parameter_t::make_integer_pair(name, m.imin, lelt(m.min_le), m.iv1, lelt(m.val_le), m.iv2, lelt(m.max_le), m.imax);
    case K_FPAIR:
        return parameter_t::make_scalar_pair(name, m.fmin, lelt(m.min_le), m.fv1, lelt(m.val_le), m.fv2, lelt(m.max_le), m.fmax);
    default: return parameter_t::make_string(name, m.sv);
    }
}

// ---- conversions of the model (never execute an out-of-range float -> integer conversion) --------------------
// 0 = no value of the kind corresponds (must reject), 1 = exact, 2 = lossy
int to_i64(double v, int64_t& c)
{
    if (!std::isfinite(v) || !(v >= -two63 && v < two63))
    {
        return 0;
    }
    c = static_cast<int64_t>(v); // in range: defined, truncates towards zero
    return static_cast<double>(c) == v ? 1 : 2;
}

int to_f64(int64_t v, double& c)
{
    c = static_cast<double>(v);
    const bool exact = (c >= -two63 && c < two63) && static_cast<int64_t>(c) == v;
    return exact ? 1 : 2;
}

// ---- string classification -------------------------------------------------------------------------------------
enum sclass_k
{
    S_CLEAN, // a literal of the kind and nothing else: decisive
    S_REJECT, // cannot denote a value of the kind under any reading: must be rejected
    S_OPEN    // a number only after skipping blanks / ignoring trailing characters / in another notation: either outcome
};

bool is_blank(char ch)
{
    return ch == ' ' || ch == '\t' || ch == '\n' || ch == '\v' || ch == '\f' || ch == '\r';
}

bool is_digit(char ch)
{
    return ch >= '0' && ch <= '9';
}

bool all_digits(const std::string& s, size_t b, size_t e)
{
    if (b >= e)
    {
        return false;
    }
    for (size_t i = b; i < e; ++i)
    {
        if (!is_digit(s[i]))
        {
            return false;
        }
    }
    return true;
}

bool clean_int_literal(const std::string& s) // -?[0-9]+
{
    const size_t b = (!s.empty() && s[0] == '-') ? 1 : 0;
    return all_digits(s, b, s.size());
}

bool clean_real_literal(const std::string& s) // -?[0-9]+(\.[0-9]+)?([eE][-+]?[0-9]+)?
{
    size_t i = (!s.empty() && s[0] == '-') ? 1 : 0;
    size_t j = i;
    while (j < s.size() && is_digit(s[j]))
    {
        ++j;
    }
    if (j == i)
    {
        return false;
    }
    i = j;
    if (i < s.size() && s[i] == '.')
    {
        j = i + 1;
        while (j < s.size() && is_digit(s[j]))
        {
            ++j;
        }
        if (j == i + 1)
        {
            return false;
        }
        i = j;
    }
    if (i < s.size() && (s[i] == 'e' || s[i] == 'E'))
    {
        j = i + 1;
        if (j < s.size() && (s[j] == '-' || s[j] == '+'))
        {
            ++j;
        }
        return all_digits(s, j, s.size());
    }
    return i == s.size();
}

bool has_nul(const std::string& s)
{
    return s.find('\0') != std::string::npos;
}

sclass_k classify_int(const std::string& s, int64_t& v)
{
    if (clean_int_literal(s))
    {
        errno             = 0;
        const long long x = std::strtoll(s.c_str(), nullptr, 10);
        if (errno == ERANGE)
        {
            return S_REJECT; // not representable in the integer kind
        }
        v = static_cast<int64_t>(x);
        return S_CLEAN;
    }
    size_t i = 0;
    while (i < s.size() && is_blank(s[i]))
    {
        ++i;
    }
    if (i < s.size() && (s[i] == '-' || s[i] == '+'))
    {
        ++i;
    }
    return (i < s.size() && is_digit(s[i])) ? S_OPEN : S_REJECT;
}

sclass_k classify_real(const std::string& s, double& v)
{
    if (clean_real_literal(s))
    {
        errno          = 0;
        const double x = std::strtod(s.c_str(), nullptr);
        if (errno == ERANGE)
        {
            return std::isinf(x) ? S_REJECT : S_OPEN; // overflow: no finite value; underflow: denormal/zero, left open
        }
        v = x;
        return S_CLEAN;
    }
    size_t i = 0;
    while (i < s.size() && is_blank(s[i]))
    {
        ++i;
    }
    if (i < s.size() && (s[i] == '-' || s[i] == '+'))
    {
        ++i;
    }
    if (i < s.size() && is_digit(s[i]))
    {
        return S_OPEN;
    }
    if (i + 1 < s.size() && s[i] == '.' && is_digit(s[i + 1]))
    {
        return S_OPEN;
    }
    return S_REJECT; // includes inf / nan spellings: non-finite values are outside every domain
}

const char* pair_delims()
{
    return ";,:|/ ";
}

bool is_delim(char ch)
{
    return ch != '\0' && std::strchr(pair_delims(), ch) != nullptr;
}

// pair strings: `A<delim>B` with clean literals is decisive; no delimiter at all, or a component without any numeric
// prefix, must be rejected; everything else is open
template <class tvalue, class tclassify>
sclass_k classify_pair(const std::string& s, tvalue& v1, tvalue& v2, const tclassify& classify)
{
    if (s.empty())
    {
        return S_REJECT;
    }
    size_t ndelims = 0, pos = 0;
    for (size_t i = 0; i < s.size(); ++i)
    {
        if (is_delim(s[i]))
        {
            ++ndelims;
            pos = i;
        }
    }
    if (ndelims == 0)
    {
        return S_REJECT; // a single token cannot provide two values
    }
    if (ndelims == 1 && !has_nul(s))
    {
        const auto a = s.substr(0, pos);
        const auto b = s.substr(pos + 1);
        tvalue     x1{}, x2{};
        const auto c1 = classify(a, x1);
        const auto c2 = classify(b, x2);
        if (c1 == S_REJECT || c2 == S_REJECT)
        {
            return S_REJECT;
        }
        if (c1 == S_CLEAN && c2 == S_CLEAN)
        {
            v1 = x1;
            v2 = x2;
            return S_CLEAN;
        }
    }
    return S_OPEN;
}

sclass_k classify_enum(const std::string& s)
{
    for (const auto& name : enum_names())
    {
        if (s == name)
        {
            return S_CLEAN;
        }
    }
    for (const auto& name : enum_names())
    {
        if (s.find(name) != std::string::npos || (!s.empty() && name.find(s) != std::string::npos))
        {
            return S_OPEN; // an enumerator with extra characters, or an abbreviation of one
        }
    }
    return S_REJECT;
}

// ---- expected outcome of an assignment ------------------------------------------------------------------------
enum expect_k
{
    MUST_ACCEPT,
    MUST_REJECT,
    EITHER
};

struct outcome_t
{
    expect_k expect{MUST_REJECT};
    bool     value_known{false}; // accepted => the stored value must be `next`
    model_t  next;               // the model after an accepted assignment
};

outcome_t decide(const model_t& m, const model_t& next, int status)
{
    outcome_t o;
    o.next = next;
    if (status == 0 || !next.value_in_domain())
    {
        o.expect = MUST_REJECT;
    }
    else
    {
        o.expect      = status == 1 ? MUST_ACCEPT : EITHER;
        o.value_known = true;
    }
    (void)m;
    return o;
}

outcome_t open_outcome(const model_t& m)
{
    outcome_t o;
    o.expect      = EITHER;
    o.value_known = false;
    o.next        = m;
    return o;
}

outcome_t reject_outcome(const model_t& m)
{
    outcome_t o;
    o.next = m;
    return o;
}

// NaN, +-inf or |v| >= 2^63 assigned to an integer kind: no integer corresponds, so the assignment must be rejected.
// The library converts with static_cast<int64_t>(double), which is undefined for these values (DESIGN.md 4.4: that
// undefined behaviour is not allowed to become a C19 verdict).  On x86-64 the conversion yields INT64_MIN; when that
// value belongs to the declared domain (min == INT64_MIN with <=) the assignment is accepted and INT64_MIN is stored.
// Exactly this class is left open (either outcome, stored value inside the domain) and counted
// ("unrepresentable float, integer domain contains INT64_MIN"); everywhere else rejection is required.
outcome_t unrepresentable_outcome(const model_t& m)
{
    return (m.imin == i64_min && m.min_le) ? open_outcome(m) : reject_outcome(m);
}

// the reference model of one assignment operation
outcome_t model_assign(const model_t& m, const op_t& op)
{
    model_t n = m;
    switch (op.type)
    {
    case OP_I64:
    case OP_I32:
        if (m.kind == K_INT)
        {
            n.iv1 = op.i1;
            return decide(m, n, 1);
        }
        if (m.kind == K_REAL)
        {
            const int st = to_f64(op.i1, n.fv1);
            return decide(m, n, st);
        }
        return reject_outcome(m);

    case OP_F64:
        if (m.kind == K_INT)
        {
            const int st = to_i64(op.d1, n.iv1);
            return st == 0 ? unrepresentable_outcome(m) : decide(m, n, st);
        }
        if (m.kind == K_REAL)
        {
            n.fv1 = op.d1;
            return decide(m, n, std::isfinite(op.d1) ? 1 : 0);
        }
        return reject_outcome(m);

    case OP_PAIR_I32:
    case OP_PAIR_I64:
        if (m.kind == K_IPAIR)
        {
            n.iv1 = op.i1;
            n.iv2 = op.i2;
            return decide(m, n, 1);
        }
        if (m.kind == K_FPAIR)
        {
            const int s1 = to_f64(op.i1, n.fv1);
            const int s2 = to_f64(op.i2, n.fv2);
            return decide(m, n, std::max(s1, s2));
        }
        return reject_outcome(m);

    case OP_PAIR_F64:
        if (m.kind == K_IPAIR)
        {
            const int s1 = to_i64(op.d1, n.iv1);
            const int s2 = to_i64(op.d2, n.iv2);
            return (s1 == 0 || s2 == 0) ? unrepresentable_outcome(m) : decide(m, n, std::max(s1, s2));
        }
        if (m.kind == K_FPAIR)
        {
            n.fv1 = op.d1;
            n.fv2 = op.d2;
            return decide(m, n, (std::isfinite(op.d1) && std::isfinite(op.d2)) ? 1 : 0);
        }
        return reject_outcome(m);

    case OP_STRING:
        switch (m.kind)
        {
        case K_STRING: n.sv = op.s; return decide(m, n, 1);
        case K_ENUM:
        {
            const auto c = classify_enum(op.s);
            if (c == S_CLEAN)
            {
                n.sv = op.s;
                return decide(m, n, 1);
            }
            return c == S_OPEN ? open_outcome(m) : reject_outcome(m);
        }
        case K_INT:
        {
            const auto c = classify_int(op.s, n.iv1);
            return c == S_CLEAN ? decide(m, n, 1) : c == S_OPEN ? open_outcome(m) : reject_outcome(m);
        }
        case K_REAL:
        {
            const auto c = classify_real(op.s, n.fv1);
            return c == S_CLEAN ? decide(m, n, 1) : c == S_OPEN ? open_outcome(m) : reject_outcome(m);
        }
        case K_IPAIR:
        {
            const auto c = classify_pair(op.s, n.iv1, n.iv2, classify_int);
            return c == S_CLEAN ? decide(m, n, 1) : c == S_OPEN ? open_outcome(m) : reject_outcome(m);
        }
        default:
        {
            const auto c = classify_pair(op.s, n.fv1, n.fv2, classify_real);
            return c == S_CLEAN ? decide(m, n, 1) : c == S_OPEN ? open_outcome(m) : reject_outcome(m);
        }
        }

    case OP_ENUM:
        if (m.kind == K_ENUM && op.i1 >= 0 && op.i1 < static_cast<int64_t>(enum_names().size()))
        {
            n.sv = enum_names()[static_cast<size_t>(op.i1)];
            return decide(m, n, 1);
        }
        return reject_outcome(m);

    default: return reject_outcome(m); // OP_OTHER: an enumeration of another type never belongs to the domain
    }
}

// ---- observing the object under test ----------------------------------------------------------------------------
struct observed_t
{
    bool    ok{false}; // the storage holds the expected kind
    model_t m;         // domain and value as stored
};

observed_t observe(const parameter_t& p, int kind)
{
    observed_t o;
    o.m.kind       = kind;
    const auto& st = p.storage();
    const auto  le = [](const nano::LEorLT& c) { return std::holds_alternative<nano::LE_t>(c); };
    switch (kind)
    {
    case K_ENUM:
        if (const auto* e = std::get_if<parameter_t::enum_t>(&st))
        {
            o.ok   = e->m_domain == enum_names();
            o.m.sv = e->m_value;
        }
        break;
    case K_INT:
        if (const auto* r = std::get_if<parameter_t::irange_t>(&st))
        {
            o.ok       = true;
            o.m.iv1    = r->m_value;
            o.m.imin   = r->m_min;
            o.m.imax   = r->m_max;
            o.m.min_le = le(r->m_mincomp);
            o.m.max_le = le(r->m_maxcomp);
        }
        break;
    case K_REAL:
        if (const auto* r = std::get_if<parameter_t::frange_t>(&st))
        {
            o.ok       = true;
            o.m.fv1    = r->m_value;
            o.m.fmin   = r->m_min;
            o.m.fmax   = r->m_max;
            o.m.min_le = le(r->m_mincomp);
            o.m.max_le = le(r->m_maxcomp);
        }
        break;
    case K_IPAIR:
        if (const auto* r = std::get_if<parameter_t::iprange_t>(&st))
        {
            o.ok       = true;
            o.m.iv1    = r->m_value1;
            o.m.iv2    = r->m_value2;
            o.m.imin   = r->m_min;
            o.m.imax   = r->m_max;
            o.m.min_le = le(r->m_mincomp);
            o.m.val_le = le(r->m_valcomp);
            o.m.max_le = le(r->m_maxcomp);
        }
        break;
    case K_FPAIR:
        if (const auto* r = std::get_if<parameter_t::fprange_t>(&st))
        {
            o.ok       = true;
            o.m.fv1    = r->m_value1;
            o.m.fv2    = r->m_value2;
            o.m.fmin   = r->m_min;
            o.m.fmax   = r->m_max;
            o.m.min_le = le(r->m_mincomp);
            o.m.val_le = le(r->m_valcomp);
            o.m.max_le = le(r->m_maxcomp);
        }
        break;
    default:
        if (const auto* s = std::get_if<nano::string_t>(&st))
        {
            o.ok   = true;
            o.m.sv = *s;
        }
        break;
    }
    return o;
}

bool same_domain(const model_t& a, const model_t& b)
{
    switch (a.kind)
    {
    case K_INT: return a.imin == b.imin && a.imax == b.imax && a.min_le == b.min_le && a.max_le == b.max_le;
    case K_REAL: return a.fmin == b.fmin && a.fmax == b.fmax && a.min_le == b.min_le && a.max_le == b.max_le;
    case K_IPAIR:
        return a.imin == b.imin && a.imax == b.imax && a.min_le == b.min_le && a.max_le == b.max_le && a.val_le == b.val_le;
    case K_FPAIR:
        return a.fmin == b.fmin && a.fmax == b.fmax && a.min_le == b.min_le && a.max_le == b.max_le && a.val_le == b.val_le;
    default: return true;
    }
}

bool same_value(const model_t& a, const model_t& b)
{
    switch (a.kind)
    {
    case K_INT: return a.iv1 == b.iv1;
    case K_REAL: return a.fv1 == b.fv1;
    case K_IPAIR: return a.iv1 == b.iv1 && a.iv2 == b.iv2;
    case K_FPAIR: return a.fv1 == b.fv1 && a.fv2 == b.fv2;
    default: return a.sv == b.sv;
    }
}

std::string value_text(const model_t& m)
{
    switch (m.kind)
    {
    case K_INT: return cat(m.iv1);
    case K_REAL: return cat(m.fv1);
    case K_IPAIR: return cat("(", m.iv1, ",", m.iv2, ")");
    case K_FPAIR: return cat("(", m.fv1, ",", m.fv2, ")");
    default: return cat("'", m.sv, "'");
    }
}

std::string op_text(const op_t& op)
{
    switch (op.type)
    {
    case OP_I64:
    case OP_I32:
    case OP_ENUM:
    case OP_OTHER: return cat(op_name(op.type), "(", op.i1, ")");
    case OP_F64: return cat(op_name(op.type), "(", op.d1, ")");
    case OP_PAIR_I32:
    case OP_PAIR_I64: return cat(op_name(op.type), "(", op.i1, ",", op.i2, ")");
    case OP_PAIR_F64: return cat(op_name(op.type), "(", op.d1, ",", op.d2, ")");
    case OP_STRING:
    case OP_UNKNOWN: return cat(op_name(op.type), "('", op.s, "')");
    default: return op_name(op.type);
    }
}

std::string bytes_of(const parameter_t& p)
{
    std::ostringstream s;
    p.write(s);
    return s.str();
}

std::string bytes_of(const nano::configurable_t& c)
{
    std::ostringstream s;
    c.write(s);
    return s.str();
}

// ---- applying an assignment to the library ---------------------------------------------------------------------------
// returns 0 = accepted, 1 = threw a std::exception, 2 = threw something else
int apply_assign(parameter_t& p, const op_t& op)
{
    try
    {
        switch (op.type)
        {
        case OP_I64: p = static_cast<int64_t>(op.i1); break;
        case OP_I32: p = static_cast<int32_t>(op.i1); break;
        case OP_F64: p = op.d1; break;
        case OP_PAIR_I32: p = std::make_tuple(static_cast<int32_t>(op.i1), static_cast<int32_t>(op.i2)); break;
        case OP_PAIR_I64: p = std::make_tuple(static_cast<int64_t>(op.i1), static_cast<int64_t>(op.i2)); break;
        case OP_PAIR_F64: p = std::make_tuple(op.d1, op.d2); break;
        case OP_STRING: p = std::string(op.s); break;
        case OP_ENUM: p = static_cast<nano::vf_enum>(static_cast<int32_t>(op.i1)); break;
        default: p = static_cast<nano::vf_other>(static_cast<int32_t>(op.i1)); break;
        }
        return 0;
    }
    catch (const std::exception&)
    {
        return 1;
    }
    catch (...)
    {
        return 2;
    }
}

template <class tcall>
bool throws(const tcall& call)
{
    try
    {
        call();
        return false;
    }
    catch (const std::exception&)
    {
        return true;
    }
}

bool fits_i32(int64_t v)
{
    return v >= std::numeric_limits<int32_t>::min() && v <= std::numeric_limits<int32_t>::max();
}

// typed reads: the parameter's own kind returns the stored value, every other kind throws
verdict_t check_reads(const parameter_t& p, const model_t& m, const std::string& sig0)
{
    const auto bad = [&](const char* what) { return verdict_t::violation(sig0 + "/typed-reads/" + what, m.describe()); };
    try
    {
        switch (m.kind)
        {
        case K_ENUM:
            if (nano::scat(p.value<nano::vf_enum>()) != m.sv)
            {
                return bad("enum-value-differs");
            }
            break;
        case K_INT:
            if (p.value<int64_t>() != m.iv1)
            {
                return bad("integer-value-differs");
            }
            break;
        case K_REAL:
            if (!(p.value<double>() == m.fv1))
            {
                return bad("scalar-value-differs");
            }
            break;
        case K_IPAIR:
            if (p.value_pair<int64_t>() != std::make_tuple(m.iv1, m.iv2))
            {
                return bad("integer-pair-value-differs");
            }
            break;
        case K_FPAIR:
            if (p.value_pair<double>() != std::make_tuple(m.fv1, m.fv2))
            {
                return bad("scalar-pair-value-differs");
            }
            break;
        default:
            if (p.value<nano::string_t>() != m.sv)
            {
                return bad("string-value-differs");
            }
            break;
        }
    }
    catch (const std::exception& e)
    {
        return verdict_t::violation(sig0 + "/typed-reads/own-kind-read-throws", e.what());
    }
    const bool numeric = m.kind == K_INT || m.kind == K_REAL;
    const bool pair    = m.kind == K_IPAIR || m.kind == K_FPAIR;
    if (m.kind != K_ENUM && !throws([&] { (void)p.value<nano::vf_enum>(); }))
    {
        return bad("enum-read-of-a-non-enum-does-not-throw");
    }
    if (m.kind != K_STRING && !throws([&] { (void)p.value<nano::string_t>(); }))
    {
        return bad("string-read-of-a-non-string-does-not-throw");
    }
    if (!numeric && (!throws([&] { (void)p.value<int64_t>(); }) || !throws([&] { (void)p.value<double>(); }) ||
                     !throws([&] { (void)p.value<int32_t>(); })))
    {
        return bad("number-read-of-a-non-number-does-not-throw");
    }
    if (!pair && (!throws([&] { (void)p.value_pair<int64_t>(); }) || !throws([&] { (void)p.value_pair<double>(); })))
    {
        return bad("pair-read-of-a-non-pair-does-not-throw");
    }
    return verdict_t::ok();
}

// ---- one history against the model ------------------------------------------------------------------------------------
struct history_stats_t
{
    int  accepted{0}, rejected{0}, open_accepted{0}, open_rejected{0}, unrepresentable_accepted{0};
    bool accepted_then_rejected{false};
    bool last_accepted{false};
};

const char* const decoy_names[] = {"decoy::count", "decoy::ratio"};

void make_holder(nano::configurable_t& holder, const std::string& name, const model_t& m)
{
    holder.register_parameter(parameter_t::make_integer(decoy_names[0], 0, nano::LE, 5, nano::LE, 10));
    holder.register_parameter(make_parameter(name, m));
    holder.register_parameter(parameter_t::make_scalar(decoy_names[1], 0.0, nano::LT, 0.5, nano::LT, 1.0));
}

// state after every operation: the stored value equals the model, lies inside the declared domain, the domain is untouched
verdict_t check_state(const nano::configurable_t& holder, const std::string& name, const model_t& m, const std::string& sig0,
                      const std::string& at)
{
    const parameter_t* p = holder.parameter_if(name);
    if (p == nullptr || holder.parameters().size() != 3U)
    {
        return verdict_t::violation(sig0 + "/parameter-lost", at);
    }
    const auto obs = observe(*p, m.kind);
    if (!obs.ok)
    {
        return verdict_t::violation(sig0 + "/kind-changed", at);
    }
    if (!same_domain(obs.m, m))
    {
        return verdict_t::violation(sig0 + "/domain-changed", cat(at, " now ", obs.m.describe()));
    }
    model_t stored = m;
    stored.iv1 = obs.m.iv1, stored.iv2 = obs.m.iv2, stored.fv1 = obs.m.fv1, stored.fv2 = obs.m.fv2, stored.sv = obs.m.sv;
    if (!stored.value_in_domain())
    {
        return verdict_t::violation(sig0 + "/stored-value-outside-the-domain", cat(at, " stored ", value_text(stored)));
    }
    if (!same_value(stored, m))
    {
        return verdict_t::violation(sig0 + "/stored-value-differs-from-the-model", cat(at, " stored ", value_text(stored)));
    }
    // the neighbours registered in the same object are never touched
    const auto* d0 = holder.parameter_if(decoy_names[0]);
    const auto* d1 = holder.parameter_if(decoy_names[1]);
    if (d0 == nullptr || d1 == nullptr || d0->value<int64_t>() != 5 || d1->value<double>() != 0.5)
    {
        return verdict_t::violation(sig0 + "/other-parameter-changed", at);
    }
    return verdict_t::ok();
}

// applies one operation to the object and to the model
verdict_t step(nano::configurable_t& holder, const std::string& name, model_t& m, const op_t& op, history_stats_t& stats)
{
    const auto sig0   = std::string("C19/") + kind_name(m.kind) + "/" + op_name(op.type);
    const auto before = m;
    const auto at     = [&] { return cat(before.describe(), " <- ", op_text(op)); };

    switch (op.type)
    {
    case OP_ROUNDTRIP:
    {
        try
        {
            const auto& p     = holder.parameter(name);
            const auto  bytes = bytes_of(p);
            parameter_t q;
            {
                std::istringstream in(bytes);
                q.read(in);
            }
            if (!(q == p) || q != p || bytes_of(q) != bytes || q.name() != name)
            {
                return verdict_t::violation(sig0 + "/parameter-read-back-differs", at());
            }
            const auto          all = bytes_of(holder);
            nano::configurable_t other;
            {
                std::istringstream in(all);
                other.read(in);
            }
            if (bytes_of(other) != all || other.parameters().size() != holder.parameters().size())
            {
                return verdict_t::violation(sig0 + "/configurable-read-back-differs", at());
            }
            holder = other; // continue on the object that was read back
        }
        catch (const std::exception& e)
        {
            return verdict_t::violation(sig0 + "/exception", cat(at(), ": ", e.what()));
        }
        break;
    }
    case OP_READS:
        if (auto v = check_reads(holder.parameter(name), m, sig0); !v.is_ok())
        {
            return v;
        }
        break;
    case OP_COPY:
    {
        nano::configurable_t copy(holder);
        nano::configurable_t assigned;
        assigned = copy;
        parameter_t pcopy(holder.parameter(name));
        if (!(pcopy == holder.parameter(name)) || bytes_of(assigned) != bytes_of(holder))
        {
            return verdict_t::violation(sig0 + "/copy-differs", at());
        }
        // the copy is independent: changing it (to its own current value or not at all) never reaches the original
        holder = assigned;
        break;
    }
    case OP_UNKNOWN:
    {
        if (op.s == name || op.s == decoy_names[0] || op.s == decoy_names[1])
        {
            break; // a registered name after all (shrinking): nothing to check
        }
        const auto& cholder = static_cast<const nano::configurable_t&>(holder);
        if (!throws([&] { (void)holder.parameter(op.s); }) || !throws([&] { (void)cholder.parameter(op.s); }))
        {
            return verdict_t::violation(sig0 + "/lookup-does-not-throw", cat("name '", op.s, "'"));
        }
        if (!throws([&] { holder.config(op.s.c_str(), 1); }))
        {
            return verdict_t::violation(sig0 + "/config-does-not-throw", cat("name '", op.s, "'"));
        }
        break;
    }
    default:
    {
        const auto out   = model_assign(m, op);
        auto&      p     = holder.parameter(name);
        const int  threw = apply_assign(p, op);
        if (threw == 2)
        {
            return verdict_t::violation(sig0 + "/throws-a-non-standard-exception", at());
        }
        if (out.expect == MUST_ACCEPT && threw != 0)
        {
            return verdict_t::violation(sig0 + "/valid-assignment-rejected", at());
        }
        if (out.expect == MUST_REJECT && threw == 0)
        {
            const auto obs = observe(holder.parameter(name), m.kind);
            return verdict_t::violation(sig0 + "/invalid-assignment-accepted", cat(at(), " stored ", value_text(obs.m)));
        }
        if (threw != 0)
        {
            stats.rejected++;
            stats.open_rejected += out.expect == EITHER ? 1 : 0;
            stats.accepted_then_rejected = stats.accepted_then_rejected || stats.last_accepted;
            stats.last_accepted          = false;
            // the model keeps the previous value (checked below)
        }
        else
        {
            stats.accepted++;
            stats.open_accepted += out.expect == EITHER ? 1 : 0;
            {
                int64_t    tmp = 0;
                const bool unrepresentable =
                    (m.kind == K_INT && op.type == OP_F64 && to_i64(op.d1, tmp) == 0) ||
                    (m.kind == K_IPAIR && op.type == OP_PAIR_F64 && (to_i64(op.d1, tmp) == 0 || to_i64(op.d2, tmp) == 0));
                stats.unrepresentable_accepted += unrepresentable ? 1 : 0;
            }
            stats.last_accepted = true;
            if (out.value_known)
            {
                m = out.next;
            }
            else
            {
                // open string: whatever was stored must be inside the domain (checked below); adopt it
                const auto obs = observe(holder.parameter(name), m.kind);
                if (!obs.ok)
                {
                    return verdict_t::violation(sig0 + "/kind-changed", at());
                }
                m.iv1 = obs.m.iv1, m.iv2 = obs.m.iv2, m.fv1 = obs.m.fv1, m.fv2 = obs.m.fv2, m.sv = obs.m.sv;
                if (!m.value_in_domain())
                {
                    return verdict_t::violation(sig0 + "/stored-value-outside-the-domain", cat(at(), " stored ", value_text(m)));
                }
            }
        }
        if (auto v = check_state(holder, name, m, sig0 + (threw != 0 ? "/after-rejection" : "/after-acceptance"), at()); !v.is_ok())
        {
            return v;
        }
        return verdict_t::ok();
    }
    }
    return check_state(holder, name, m, sig0, at());
}

// ---- interesting values relative to a domain ------------------------------------------------------------------------
const char* const param_name = "verif::param";

void push_unique(std::vector<int64_t>& v, int64_t x)
{
    if (std::find(v.begin(), v.end(), x) == v.end())
    {
        v.push_back(x);
    }
}

std::vector<int64_t> interesting_ints(const model_t& m)
{
    std::vector<int64_t> v;
    const bool           ints = m.kind == K_INT || m.kind == K_IPAIR;
    if (ints)
    {
        const auto lo = m.imin, hi = m.imax;
        push_unique(v, lo);
        push_unique(v, hi);
        if (lo > i64_min)
        {
            push_unique(v, lo - 1);
        }
        if (lo < i64_max)
        {
            push_unique(v, lo + 1);
        }
        if (hi > i64_min)
        {
            push_unique(v, hi - 1);
        }
        if (hi < i64_max)
        {
            push_unique(v, hi + 1);
        }
        push_unique(v, lo / 2 + hi / 2);
    }
    else if (m.kind == K_REAL || m.kind == K_FPAIR)
    {
        for (const auto f : {m.fmin, m.fmax, (m.fmin / 2 + m.fmax / 2)})
        {
            int64_t c = 0;
            if (to_i64(f, c) != 0)
            {
                push_unique(v, c);
                if (c < i64_max)
                {
                    push_unique(v, c + 1);
                }
                if (c > i64_min)
                {
                    push_unique(v, c - 1);
                }
            }
        }
    }
    for (const int64_t x : {int64_t{0}, int64_t{1}, int64_t{-1}, int64_t{2}, i64_min, i64_max, (int64_t{1} << 53) + 1, -((int64_t{1} << 53) + 1),
                            int64_t{1} << 31, -(int64_t{1} << 31) - 1})
    {
        push_unique(v, x);
    }
    return v;
}

std::vector<double> interesting_reals(const model_t& m)
{
    const double        inf = std::numeric_limits<double>::infinity();
    std::vector<double> v;
    if (m.kind == K_REAL || m.kind == K_FPAIR)
    {
        for (const auto f : {m.fmin, m.fmax})
        {
            v.push_back(f);
            v.push_back(std::nextafter(f, -inf));
            v.push_back(std::nextafter(f, inf));
            v.push_back(f - 1.0);
            v.push_back(f + 1.0);
        }
        v.push_back(m.fmin / 2 + m.fmax / 2);
        v.push_back(m.fmin + (m.fmax - m.fmin) * 0.25);
    }
    else
    {
        for (const auto i : interesting_ints(m))
        {
            v.push_back(static_cast<double>(i));
        }
        if (m.kind == K_INT || m.kind == K_IPAIR)
        {
            for (const auto i : {m.imin, m.imax})
            {
                const auto f = static_cast<double>(i);
                v.push_back(f + 0.5);
                v.push_back(f - 0.5);
                v.push_back(f + 0.25);
            }
        }
    }
    for (const double x : {0.0, -0.0, 1.0, 1.5, -1.0, std::numeric_limits<double>::quiet_NaN(), inf, -inf, 1e300, -1e300, DBL_MAX, -DBL_MAX,
                           5e-324, DBL_MIN, two63, -two63, std::nextafter(two63, 0.0), -two63 - 2048.0, 1e19})
    {
        v.push_back(x);
    }
    return v;
}

std::string real_text(double v)
{
    char buf[64];
    std::snprintf(buf, sizeof(buf), "%.17g", v);
    return buf;
}

std::vector<std::string> decorate(const std::string& s)
{
    return {s, " " + s, s + " ", s + "abc", "+" + s, s + ".5", s + "e1", "0x" + s, "\t" + s, s + "\n"};
}

std::vector<std::string> interesting_strings(const model_t& m)
{
    std::vector<std::string> out = {"", " ", "abc", "-", "+", ".", "nan", "inf", "-inf", "NaN", "infinity", "1e400", "-1e400", "1e-400",
                                    "99999999999999999999", "-99999999999999999999", "9223372036854775807", "9223372036854775808",
                                    "-9223372036854775808", "-9223372036854775809", "alpha", "what", std::string("1\0002", 3)};
    std::vector<std::string> tokens;
    if (m.kind == K_INT || m.kind == K_IPAIR)
    {
        for (const auto i : interesting_ints(m))
        {
            tokens.push_back(std::to_string(i));
        }
    }
    else if (m.kind == K_REAL || m.kind == K_FPAIR)
    {
        for (const auto f : interesting_reals(m))
        {
            tokens.push_back(real_text(f));
        }
    }
    else if (m.kind == K_ENUM)
    {
        for (const auto& n : enum_names())
        {
            out.push_back(n);
            out.push_back(n + " ");
            out.push_back(" " + n);
            out.push_back(n + "x");
            out.push_back(n.substr(0, 2));
        }
        out.emplace_back("Alpha");
        out.emplace_back("first");
        out.emplace_back("alpha,beta");
        return out;
    }
    else
    {
        out.emplace_back("any string, with blanks; and delimiters|/:");
        out.emplace_back(std::string("\x00\xff\n\x01", 4));
        return out;
    }
    const bool pair = m.kind == K_IPAIR || m.kind == K_FPAIR;
    if (!pair)
    {
        for (size_t i = 0; i < tokens.size(); ++i)
        {
            out.push_back(tokens[i]);
            if (i < 6)
            {
                for (const auto& d : decorate(tokens[i]))
                {
                    out.push_back(d);
                }
            }
        }
        out.emplace_back("1,2");
        return out;
    }
    const auto   ntok   = std::min<size_t>(tokens.size(), 9);
    const char*  delims = pair_delims();
    const size_t ndel   = std::strlen(delims);
    size_t       k      = 0;
    for (size_t a = 0; a < ntok; ++a)
    {
        for (size_t b = 0; b < ntok; ++b)
        {
            out.push_back(tokens[a] + delims[(k++) % ndel] + tokens[b]);
        }
    }
    for (size_t a = 0; a < std::min<size_t>(ntok, 3); ++a)
    {
        const auto& t = tokens[a];
        for (const auto& u : {t, t + ",", "," + t, t + "," + t + "," + t, t + ", " + t, t + ",," + t, t + ",abc", "abc," + t, t + "," + t + "abc",
                              " " + t + "," + t, t + "-" + t, t + "," + t + " "})
        {
            out.push_back(u);
        }
    }
    return out;
}

op_t make_op(int type, int64_t i1 = 0, int64_t i2 = 0, double d1 = 0, double d2 = 0, std::string s = {})
{
    op_t op;
    op.type = type;
    op.i1   = i1;
    op.i2   = i2;
    op.d1   = d1;
    op.d2   = d2;
    op.s    = std::move(s);
    return op;
}

// the pool of operations the random histories draw from (values at and around the bounds of the domain)
std::vector<op_t> interesting_ops(const model_t& m)
{
    std::vector<op_t> ops;
    const auto        ints  = interesting_ints(m);
    const auto        reals = interesting_reals(m);
    for (const auto i : ints)
    {
        ops.push_back(make_op(OP_I64, i));
        if (fits_i32(i))
        {
            ops.push_back(make_op(OP_I32, i));
        }
    }
    for (const auto f : reals)
    {
        ops.push_back(make_op(OP_F64, 0, 0, f));
    }
    const auto ni = std::min<size_t>(ints.size(), 8);
    for (size_t a = 0; a < ni; ++a)
    {
        for (size_t b = 0; b < ni; ++b)
        {
            ops.push_back(make_op(OP_PAIR_I64, ints[a], ints[b]));
            if (fits_i32(ints[a]) && fits_i32(ints[b]))
            {
                ops.push_back(make_op(OP_PAIR_I32, ints[a], ints[b]));
            }
        }
    }
    const auto nf = std::min<size_t>(reals.size(), 11);
    for (size_t a = 0; a < nf; ++a)
    {
        for (size_t b = 0; b < nf; ++b)
        {
            ops.push_back(make_op(OP_PAIR_F64, 0, 0, reals[a], reals[b]));
        }
    }
    for (size_t a = nf; a < reals.size(); ++a)
    {
        ops.push_back(make_op(OP_PAIR_F64, 0, 0, reals[a], reals[0]));
        ops.push_back(make_op(OP_PAIR_F64, 0, 0, reals[0], reals[a]));
    }
    for (const auto& s : interesting_strings(m))
    {
        ops.push_back(make_op(OP_STRING, 0, 0, 0, 0, s));
    }
    for (int e = -1; e <= 7; ++e)
    {
        ops.push_back(make_op(OP_ENUM, e));
    }
    ops.push_back(make_op(OP_OTHER, 0));
    ops.push_back(make_op(OP_OTHER, 1));
    for (const int t : {OP_ROUNDTRIP, OP_READS, OP_COPY})
    {
        ops.push_back(make_op(t));
    }
    for (const auto& s : {std::string(param_name) + "x", std::string("verif::para"), std::string(), std::string("VERIF::PARAM"), std::string("decoy")})
    {
        ops.push_back(make_op(OP_UNKNOWN, 0, 0, 0, 0, s));
    }
    return ops;
}

// ---- history sub-check ---------------------------------------------------------------------------------------------
struct hcase_t
{
    int                      kind{K_INT};
    bool                     min_le{true}, val_le{true}, max_le{true};
    int64_t                  imin{0}, imax{0}, iv1{0}, iv2{0};
    double                   fmin{0}, fmax{0}, fv1{0}, fv2{0};
    std::string              sv;
    std::vector<int>         op_type;
    std::vector<int64_t>     op_i1, op_i2;
    std::vector<double>      op_d1, op_d2;
    std::vector<std::string> op_s;

    template <class A>
    void io(A& a)
    {
        a("kind", kind);
        a("min_le", min_le);
        a("val_le", val_le);
        a("max_le", max_le);
        a("imin", imin);
        a("imax", imax);
        a("iv1", iv1);
        a("iv2", iv2);
        a("fmin", fmin);
        a("fmax", fmax);
        a("fv1", fv1);
        a("fv2", fv2);
        a("sv", sv);
        a("op_type", op_type);
        a("op_i1", op_i1);
        a("op_i2", op_i2);
        a("op_d1", op_d1);
        a("op_d2", op_d2);
        a("op_s", op_s);
    }

    model_t model() const
    {
        model_t m;
        m.kind   = kind;
        m.min_le = min_le, m.val_le = val_le, m.max_le = max_le;
        m.imin = imin, m.imax = imax, m.iv1 = iv1, m.iv2 = iv2;
        m.fmin = fmin, m.fmax = fmax, m.fv1 = fv1, m.fv2 = fv2;
        m.sv = sv;
        return m;
    }

    void set(const model_t& m)
    {
        kind   = m.kind;
        min_le = m.min_le, val_le = m.val_le, max_le = m.max_le;
        imin = m.imin, imax = m.imax, iv1 = m.iv1, iv2 = m.iv2;
        fmin = m.fmin, fmax = m.fmax, fv1 = m.fv1, fv2 = m.fv2;
        sv = m.sv;
    }

    void push(const op_t& op)
    {
        op_type.push_back(op.type);
        op_i1.push_back(op.i1);
        op_i2.push_back(op.i2);
        op_d1.push_back(op.d1);
        op_d2.push_back(op.d2);
        op_s.push_back(op.s);
    }

    size_t size() const { return op_type.size(); }

    op_t op(size_t i) const { return make_op(op_type[i], op_i1[i], op_i2[i], op_d1[i], op_d2[i], op_s[i]); }
};

// domains: small, degenerate (min == max), medium, huge (int64 limits / +-1e300), around 2^53
rc::Gen<model_t> gen_domain()
{
    return rc::gen::mapcat(
        rc::gen::tuple(gen::range<int>(0, K_COUNT - 1), gen::range<int>(0, 7), gen::range<int>(0, 7)),
        [](const std::tuple<int, int, int>& t) -> rc::Gen<model_t>
        {
            const int kind  = std::get<0>(t);
            const int comps = std::get<1>(t);
            const int style = std::get<2>(t);
            model_t   base;
            base.kind   = kind;
            base.min_le = (comps & 1) != 0;
            base.max_le = (comps & 2) != 0;
            base.val_le = (comps & 4) != 0;
            if (kind == K_ENUM)
            {
                return rc::gen::map(gen::range<int>(0, static_cast<int>(enum_names().size()) - 1),
                                    [base](int e)
                                    {
                                        auto m = base;
                                        m.sv   = enum_names()[static_cast<size_t>(e)];
                                        return m;
                                    });
            }
            if (kind == K_STRING)
            {
                return rc::gen::map(rc::gen::element(std::string(), std::string("str"), std::string("1"), std::string("alpha")),
                                    [base](const std::string& s)
                                    {
                                        auto m = base;
                                        m.sv   = s;
                                        return m;
                                    });
            }
            // (position of the initial value(s) inside the domain, out-of-domain initial value in 4 % of the cases)
            const auto where = rc::gen::tuple(gen::range<int>(0, 4), gen::range<int>(0, 4), gen::range<int>(0, 24));
            if (kind == K_INT || kind == K_IPAIR)
            {
                rc::Gen<std::pair<int64_t, int64_t>> bounds = rc::gen::just(std::pair<int64_t, int64_t>{0, 10});
                switch (style)
                {
                case 0:
                case 1:
                    bounds = rc::gen::map(rc::gen::pair(gen::range<int64_t>(-5, 5), gen::range<int64_t>(0, 10)),
                                          [](const std::pair<int64_t, int64_t>& lw) { return std::pair<int64_t, int64_t>{lw.first, lw.first + lw.second}; });
                    break;
                case 2:
                    bounds = rc::gen::map(gen::range<int64_t>(-5, 5), [](int64_t l) { return std::pair<int64_t, int64_t>{l, l}; });
                    break;
                case 3:
                    bounds = rc::gen::map(rc::gen::pair(gen::range<int64_t>(-1000000, 1000000), gen::range<int64_t>(0, 2000000)),
                                          [](const std::pair<int64_t, int64_t>& lw) { return std::pair<int64_t, int64_t>{lw.first, lw.first + lw.second}; });
                    break;
                case 4:
                    bounds = rc::gen::element(std::pair<int64_t, int64_t>{i64_min, i64_max}, std::pair<int64_t, int64_t>{i64_min, 0},
                                              std::pair<int64_t, int64_t>{0, i64_max}, std::pair<int64_t, int64_t>{i64_min + 1, i64_max - 1});
                    break;
                case 5:
                    bounds = rc::gen::element(std::pair<int64_t, int64_t>{-(int64_t{1} << 53) - 2, (int64_t{1} << 53) + 2},
                                              std::pair<int64_t, int64_t>{(int64_t{1} << 53) - 1, (int64_t{1} << 53) + 3},
                                              std::pair<int64_t, int64_t>{0, int64_t{1} << 31});
                    break;
                case 6: bounds = rc::gen::element(std::pair<int64_t, int64_t>{1, 1000000000}, std::pair<int64_t, int64_t>{10, 1000}, std::pair<int64_t, int64_t>{0, 1024}); break;
                default: bounds = rc::gen::element(std::pair<int64_t, int64_t>{2, 6}, std::pair<int64_t, int64_t>{0, 1}, std::pair<int64_t, int64_t>{-1, 1}); break;
                }
                return rc::gen::map(rc::gen::pair(bounds, where),
                                    [base](const std::pair<std::pair<int64_t, int64_t>, std::tuple<int, int, int>>& bw)
                                    {
                                        auto m = base;
                                        m.imin = bw.first.first;
                                        m.imax = bw.first.second;
                                        const auto pick = [&](int k) -> int64_t
                                        {
                                            switch (k)
                                            {
                                            case 0: return m.imin;
                                            case 1: return m.imin < i64_max ? m.imin + 1 : m.imin;
                                            case 2: return m.imin / 2 + m.imax / 2;
                                            case 3: return m.imax > i64_min ? m.imax - 1 : m.imax;
                                            default: return m.imax;
                                            }
                                        };
                                        m.iv1 = pick(std::get<0>(bw.second));
                                        m.iv2 = pick(std::get<1>(bw.second));
                                        if (m.kind == K_IPAIR && m.iv1 > m.iv2)
                                        {
                                            std::swap(m.iv1, m.iv2);
                                        }
                                        if (std::get<2>(bw.second) != 0)
                                        {
                                            // move the initial value(s) into the domain when possible
                                            for (int k = 0; k < 5 && !m.value_in_domain(); ++k)
                                            {
                                                m.iv1 = pick(k == 0 ? 2 : k == 1 ? 1 : k == 2 ? 3 : k == 3 ? 0 : 4);
                                                m.iv2 = m.kind == K_IPAIR ? pick(k == 0 ? 3 : k == 1 ? 4 : k == 2 ? 4 : k == 3 ? 4 : 4) : m.iv1;
                                            }
                                        }
                                        return m;
                                    });
            }
            // real kinds
            rc::Gen<std::pair<double, double>> bounds = rc::gen::just(std::pair<double, double>{0.0, 1.0});
            switch (style)
            {
            case 0:
            case 1:
                bounds = rc::gen::map(rc::gen::pair(gen::range<int>(-4, 4), gen::range<int>(0, 8)),
                                      [](const std::pair<int, int>& lw) { return std::pair<double, double>{0.5 * lw.first, 0.5 * (lw.first + lw.second)}; });
                break;
            case 2:
                bounds = rc::gen::map(rc::gen::element(0.0, 1.0, -2.5, 0.1, 1e-300), [](double l) { return std::pair<double, double>{l, l}; });
                break;
            case 3: bounds = rc::gen::element(std::pair<double, double>{-1e300, 1e300}, std::pair<double, double>{0.0, 1e300}, std::pair<double, double>{-DBL_MAX, DBL_MAX}); break;
            case 4: bounds = rc::gen::element(std::pair<double, double>{0.0, 1.0}, std::pair<double, double>{0.0, 1e-1}, std::pair<double, double>{1.0, 1e6}, std::pair<double, double>{0.0, 1e6}); break;
            case 5: bounds = rc::gen::element(std::pair<double, double>{0.0, 5e-324}, std::pair<double, double>{1e-310, 1e-300}, std::pair<double, double>{-DBL_MIN, DBL_MIN}); break;
            case 6: bounds = rc::gen::element(std::pair<double, double>{9007199254740990.0, 9007199254740996.0}, std::pair<double, double>{-two63, two63}, std::pair<double, double>{0.1, 0.3}); break;
            default:
                bounds = rc::gen::map(rc::gen::pair(gen::sym(100.0), gen::real(0.0, 50.0)),
                                      [](const std::pair<double, double>& lw) { return std::pair<double, double>{lw.first, lw.first + lw.second}; });
                break;
            }
            return rc::gen::map(rc::gen::pair(bounds, where),
                                [base](const std::pair<std::pair<double, double>, std::tuple<int, int, int>>& bw)
                                {
                                    auto m = base;
                                    m.fmin = bw.first.first;
                                    m.fmax = bw.first.second;
                                    const auto inf  = std::numeric_limits<double>::infinity();
                                    const auto pick = [&](int k) -> double
                                    {
                                        switch (k)
                                        {
                                        case 0: return m.fmin;
                                        case 1: return std::nextafter(m.fmin, inf);
                                        case 2: return m.fmin / 2 + m.fmax / 2;
                                        case 3: return std::nextafter(m.fmax, -inf);
                                        default: return m.fmax;
                                        }
                                    };
                                    m.fv1 = pick(std::get<0>(bw.second));
                                    m.fv2 = pick(std::get<1>(bw.second));
                                    if (m.kind == K_FPAIR && m.fv1 > m.fv2)
                                    {
                                        std::swap(m.fv1, m.fv2);
                                    }
                                    if (std::get<2>(bw.second) != 0)
                                    {
                                        for (int k = 0; k < 5 && !m.value_in_domain(); ++k)
                                        {
                                            m.fv1 = pick(k == 0 ? 2 : k == 1 ? 1 : k == 2 ? 3 : k == 3 ? 0 : 4);
                                            m.fv2 = m.kind == K_FPAIR ? pick(k == 0 ? 3 : 4) : m.fv1;
                                        }
                                    }
                                    return m;
                                });
        });
}

// free-form values (not tied to the bounds)
rc::Gen<op_t> gen_free_op()
{
    const auto anyint  = rc::gen::oneOf(gen::range<int64_t>(-20, 20), gen::range<int64_t>(-2000000, 2000000), gen::range<int64_t>(i64_min, i64_max - 1));
    const auto anyreal = rc::gen::oneOf(gen::sym(20.0), gen::sym(1e6), gen::smallint(-20, 20), rc::gen::map(gen::smallint(-40, 40), [](double v) { return v / 4; }),
                                        gen::logu(1e-320, 1e308), gen::real(0.0, 1.0));
    const auto text    = rc::gen::oneOf(
        rc::gen::map(anyint, [](int64_t v) { return std::to_string(v); }), rc::gen::map(anyreal, [](double v) { return real_text(v); }),
        rc::gen::map(rc::gen::tuple(anyreal, rc::gen::elementOf(std::string(";,:|/ ")), anyreal),
                     [](const std::tuple<double, char, double>& t) { return real_text(std::get<0>(t)) + std::get<1>(t) + real_text(std::get<2>(t)); }),
        rc::gen::map(rc::gen::tuple(anyint, rc::gen::elementOf(std::string(";,:|/ ")), anyint),
                     [](const std::tuple<int64_t, char, int64_t>& t) { return std::to_string(std::get<0>(t)) + std::get<1>(t) + std::to_string(std::get<2>(t)); }),
        rc::gen::container<std::string>(rc::gen::elementOf(std::string("0123456789+-.eE ,;:|/xabn\t"))));
    return rc::gen::map(rc::gen::tuple(gen::range<int>(0, OP_OTHER), anyint, anyint, anyreal, anyreal, text),
                        [](const std::tuple<int, int64_t, int64_t, double, double, std::string>& t)
                        {
                            auto op = make_op(std::get<0>(t), std::get<1>(t), std::get<2>(t), std::get<3>(t), std::get<4>(t), std::get<5>(t));
                            if ((op.type == OP_I32 && !fits_i32(op.i1)) || (op.type == OP_PAIR_I32 && (!fits_i32(op.i1) || !fits_i32(op.i2))))
                            {
                                op.type = op.type == OP_I32 ? OP_I64 : OP_PAIR_I64;
                            }
                            if (op.type == OP_ENUM || op.type == OP_OTHER)
                            {
                                op.i1 = ((op.i1 % 10) + 10) % 10 - 2;
                            }
                            return op;
                        });
}

rc::Gen<hcase_t> gen_hcase()
{
    return rc::gen::mapcat(
        gen_domain(),
        [](const model_t& m)
        {
            const auto pool = interesting_ops(m);
            // operations of the parameter's own family are drawn more often than the (always rejected) foreign ones
            std::vector<op_t> own;
            for (const auto& op : pool)
            {
                const bool scalar = op.type == OP_I64 || op.type == OP_I32 || op.type == OP_F64;
                const bool pair   = op.type == OP_PAIR_I32 || op.type == OP_PAIR_I64 || op.type == OP_PAIR_F64;
                const bool enums  = op.type == OP_ENUM || op.type == OP_OTHER;
                const bool mine   = op.type == OP_STRING || op.type >= OP_ROUNDTRIP || ((m.kind == K_INT || m.kind == K_REAL) && scalar) ||
                                  ((m.kind == K_IPAIR || m.kind == K_FPAIR) && pair) || (m.kind == K_ENUM && enums);
                if (mine)
                {
                    own.push_back(op);
                }
            }
            const std::vector<op_t> structural = {make_op(OP_ROUNDTRIP), make_op(OP_READS), make_op(OP_COPY)};
            const auto one = rc::gen::oneOf(rc::gen::elementOf(own), rc::gen::elementOf(own), rc::gen::elementOf(own), rc::gen::elementOf(own),
                                            rc::gen::elementOf(pool), gen_free_op(), gen_free_op(), rc::gen::elementOf(structural));
            return rc::gen::mapcat(gen::range<size_t>(1, 10),
                                   [=](size_t len)
                                   {
                                       return rc::gen::map(rc::gen::container<std::vector<op_t>>(len, one),
                                                           [=](const std::vector<op_t>& ops)
                                                           {
                                                               hcase_t c;
                                                               c.set(m);
                                                               for (const auto& op : ops)
                                                               {
                                                                   c.push(op);
                                                               }
                                                               return c;
                                                           });
                                   });
        });
}

bool valid_op(const op_t& op)
{
    if (op.type < 0 || op.type >= OP_COUNT)
    {
        return false;
    }
    if (op.type == OP_I32 && !fits_i32(op.i1))
    {
        return false;
    }
    if (op.type == OP_PAIR_I32 && (!fits_i32(op.i1) || !fits_i32(op.i2)))
    {
        return false;
    }
    if ((op.type == OP_ENUM || op.type == OP_OTHER) && !fits_i32(op.i1))
    {
        return false;
    }
    return true;
}

bool valid_model(const model_t& m)
{
    if (m.kind < 0 || m.kind >= K_COUNT)
    {
        return false;
    }
    if ((m.kind == K_REAL || m.kind == K_FPAIR) && (!std::isfinite(m.fmin) || !std::isfinite(m.fmax)))
    {
        return false;
    }
    if (m.kind == K_ENUM && std::find(enum_names().begin(), enum_names().end(), m.sv) == enum_names().end())
    {
        return false;
    }
    return true;
}

// construction: an initial value outside the domain must be refused, one inside must be stored
verdict_t construct(const model_t& m, nano::configurable_t& holder, bool& constructed)
{
    const auto sig0 = std::string("C19/") + kind_name(m.kind) + "/construction";
    constructed     = false;
    if (!m.value_in_domain())
    {
        if (!throws([&] { (void)make_parameter(param_name, m); }))
        {
            return verdict_t::violation(sig0 + "/out-of-domain-initial-value-accepted", m.describe());
        }
        return verdict_t::ok();
    }
    try
    {
        make_holder(holder, param_name, m);
    }
    catch (const std::exception& e)
    {
        return verdict_t::violation(sig0 + "/in-domain-initial-value-rejected", cat(m.describe(), ": ", e.what()));
    }
    constructed = true;
    return check_state(holder, param_name, m, sig0, m.describe());
}

verdict_t check_hcase(const hcase_t& c, ctx_t& ctx)
{
    auto m = c.model();
    if (!valid_model(m))
    {
        return verdict_t::discard("malformed-domain");
    }
    const auto n = c.size();
    if (c.op_i1.size() != n || c.op_i2.size() != n || c.op_d1.size() != n || c.op_d2.size() != n || c.op_s.size() != n)
    {
        return verdict_t::discard("malformed-history");
    }
    for (size_t i = 0; i < n; ++i)
    {
        if (!valid_op(c.op(i)))
        {
            return verdict_t::discard("malformed-operation");
        }
    }
    try
    {
        nano::configurable_t holder;
        bool                 constructed = false;
        if (auto v = construct(m, holder, constructed); !v.is_ok())
        {
            return v;
        }
        ctx.label(cat("kind: ", kind_name(m.kind)));
        if (!constructed)
        {
            ctx.label("construction refused (initial value outside the domain)");
            return verdict_t::ok();
        }
        // duplicate registration is refused and leaves the object intact (mechanism of configurable_t)
        history_stats_t stats;
        for (size_t i = 0; i < n; ++i)
        {
            const auto op = c.op(i);
            if (auto v = step(holder, param_name, m, op, stats); !v.is_ok())
            {
                v.msg += cat(" [operation ", i + 1, " of ", n, "]");
                return v;
            }
            ctx.label(cat("op: ", op_name(op.type)));
        }
        ctx.label_if(stats.accepted > 0, "has accepted assignment");
        ctx.label_if(stats.rejected > 0, "has rejected assignment");
        ctx.label_if(stats.open_accepted > 0, "open assignment accepted");
        ctx.label_if(stats.open_rejected > 0, "open assignment rejected");
        ctx.label_if(stats.accepted_then_rejected, "accepted then rejected");
        ctx.label_if(stats.unrepresentable_accepted > 0, "unrepresentable float accepted (integer domain contains INT64_MIN)");
        const bool degenerate = ((m.kind == K_INT || m.kind == K_IPAIR) && m.imin == m.imax) || ((m.kind == K_REAL || m.kind == K_FPAIR) && m.fmin == m.fmax);
        ctx.label_if(degenerate, "degenerate domain (min == max)");
        ctx.label_if((m.kind == K_INT || m.kind == K_IPAIR) && (m.imin == i64_min || m.imax == i64_max), "domain at the int64 limits");
        ctx.label_if((m.kind == K_REAL || m.kind == K_FPAIR) && (m.fmax >= 1e300), "huge real domain");
        ctx.label_if(n >= 4, "length>=4");
        ctx.nontrivial = stats.accepted_then_rejected;
        return verdict_t::ok();
    }
    catch (const std::exception& e)
    {
        return verdict_t::violation(std::string("C19/exception/history/") + kind_name(m.kind), e.what());
    }
}

// ---- exhaustive histories over a fixed alphabet ----------------------------------------------------------------------
// combinations: enum (1), integer (4 = LE/LT x LE/LT), scalar (4), integer pair (8), scalar pair (8), string (1)
struct combo_t
{
    int  kind{K_INT};
    bool min_le{true}, val_le{true}, max_le{true};
};

const std::vector<combo_t>& all_combos()
{
    static const std::vector<combo_t> combos = []
    {
        std::vector<combo_t> c;
        c.push_back({K_ENUM, true, true, true});
        for (const int kind : {K_INT, K_REAL})
        {
            for (int b = 0; b < 4; ++b)
            {
                c.push_back({kind, (b & 1) != 0, true, (b & 2) != 0});
            }
        }
        for (const int kind : {K_IPAIR, K_FPAIR})
        {
            for (int b = 0; b < 8; ++b)
            {
                c.push_back({kind, (b & 1) != 0, (b & 4) != 0, (b & 2) != 0});
            }
        }
        c.push_back({K_STRING, true, true, true});
        return c;
    }();
    return combos;
}

// fixed domains: integers 2..6, reals 0.5..2.0 (initial values strictly inside, valid for every comparator combination)
model_t combo_model(const combo_t& c)
{
    model_t m;
    m.kind   = c.kind;
    m.min_le = c.min_le, m.val_le = c.val_le, m.max_le = c.max_le;
    m.imin = 2, m.imax = 6, m.iv1 = 3, m.iv2 = c.kind == K_IPAIR ? 5 : 3;
    m.fmin = 0.5, m.fmax = 2.0, m.fv1 = 1.0, m.fv2 = c.kind == K_FPAIR ? 1.5 : 1.0;
    m.sv = c.kind == K_ENUM ? "beta" : c.kind == K_STRING ? "str" : "";
    return m;
}

std::vector<op_t> combo_alphabet(const combo_t& c)
{
    const double nan = std::numeric_limits<double>::quiet_NaN();
    const double inf = std::numeric_limits<double>::infinity();
    const auto   S   = [](const char* s) { return make_op(OP_STRING, 0, 0, 0, 0, s); };
    const auto   I   = [](int64_t v) { return make_op(OP_I64, v); };
    const auto   F   = [](double v) { return make_op(OP_F64, 0, 0, v); };
    const auto   PI  = [](int64_t a, int64_t b) { return make_op(OP_PAIR_I64, a, b); };
    const auto   PF  = [](double a, double b) { return make_op(OP_PAIR_F64, 0, 0, a, b); };

    std::vector<op_t> a;
    switch (c.kind)
    {
    case K_INT:
        a = {I(1), I(2), I(3), I(6), I(7), make_op(OP_I32, 4), F(2.0), F(6.0), F(4.5), F(6.5), F(1.5), F(nan), F(inf), F(1e300),
             S("5"), S("7"), S(" 3"), S("4abc"), S(""), S("abc"), PI(3, 4), make_op(OP_ENUM, 0)};
        break;
    case K_REAL:
        a = {F(0.5), F(2.0), F(std::nextafter(0.5, 0.0)), F(std::nextafter(2.0, 3.0)), F(1.25), F(nan), F(-inf), F(-0.0), F(1e300),
             I(0), I(1), I(2), I(3), S("1.5"), S("2.5"), S("1e0"), S(" 1"), S("1.5x"), S(""), S("nan"), S("abc"), PF(1.0, 1.5), make_op(OP_ENUM, 1)};
        break;
    case K_IPAIR:
        a = {PI(2, 2), PI(2, 6), PI(6, 2), PI(3, 4), PI(4, 4), PI(1, 3), PI(3, 7), make_op(OP_PAIR_I32, 5, 6), PF(3.0, 5.0), PF(3.5, 5.0),
             PF(nan, 4.0), PF(3.0, inf), S("3,4"), S("3;5"), S("4:3"), S("3"), S(""), S("a,b"), S("3, 4"), S("3|x"), I(4), F(4.0), make_op(OP_ENUM, 2)};
        break;
    case K_FPAIR:
        a = {PF(0.5, 0.5), PF(0.5, 2.0), PF(2.0, 0.5), PF(1.0, 1.5), PF(1.5, 1.5), PF(std::nextafter(0.5, 0.0), 1.0), PF(1.0, std::nextafter(2.0, 3.0)),
             PF(nan, 1.0), PF(1.0, inf), PI(1, 2), PI(1, 1), PI(0, 1), PI(2, 3), make_op(OP_PAIR_I32, 1, 2), S("1,1.5"), S("1;2"), S("2/1"), S("1"),
             S(""), S("1,x"), S("1 , 2"), F(1.0), I(1), make_op(OP_ENUM, 3)};
        break;
    case K_ENUM:
        a = {S("alpha"), S("beta"), S("gamma"), S("delta"), S("alp"), S("betamax"), S(""), S("Alpha"), S("alpha "), S("epsilon"), S("first"),
             make_op(OP_ENUM, 0), make_op(OP_ENUM, 1), make_op(OP_ENUM, 2), make_op(OP_ENUM, 3), make_op(OP_ENUM, 4), make_op(OP_ENUM, 5),
             make_op(OP_ENUM, 6), make_op(OP_ENUM, -1), make_op(OP_OTHER, 0),
             make_op(OP_OTHER, 1), I(0), F(1.0), PI(0, 1)};
        break;
    default:
        a = {S(""), S("a"), S("alpha"), S("1"), S("1,2"), S("with blanks"), make_op(OP_STRING, 0, 0, 0, 0, std::string("\x00\xff\n", 3)), I(1),
             F(1.5), PI(1, 2), PF(1.0, 2.0), make_op(OP_ENUM, 0), make_op(OP_OTHER, 0)};
        break;
    }
    a.push_back(make_op(OP_ROUNDTRIP));
    a.push_back(make_op(OP_READS));
    a.push_back(make_op(OP_COPY));
    a.push_back(make_op(OP_UNKNOWN, 0, 0, 0, 0, std::string(param_name) + "x"));
    return a;
}

struct xcase_t
{
    int combo_lo{0}, combo_hi{0}; // block of combinations (inclusive)
    int first{-1};                // index of the first operation in the alphabet, -1 = all
    int depth{3};                 // histories of length 1..depth

    template <class A>
    void io(A& a)
    {
        a("combo_lo", combo_lo);
        a("combo_hi", combo_hi);
        a("first", first);
        a("depth", depth);
    }
};

int& exhaustive_depth()
{
    static int depth = 3;
    return depth;
}

// quick: one combination, all histories of length <= 3; --deep: one (combination, first operation) cell, length <= 4
rc::Gen<xcase_t> gen_xcase()
{
    const auto ncombos = static_cast<int>(all_combos().size());
    return rc::gen::mapcat(gen::range<int>(0, ncombos - 1),
                           [](int combo) -> rc::Gen<xcase_t>
                           {
                               xcase_t c;
                               c.combo_lo = c.combo_hi = combo;
                               c.depth                 = exhaustive_depth();
                               if (c.depth <= 3)
                               {
                                   return rc::gen::just(c);
                               }
                               const auto size = static_cast<int>(combo_alphabet(all_combos()[static_cast<size_t>(combo)]).size());
                               return rc::gen::map(gen::range<int>(0, size - 1),
                                                   [c](int first)
                                                   {
                                                       auto d  = c;
                                                       d.first = first;
                                                       return d;
                                                   });
                           });
}

struct dfs_t
{
    const std::vector<op_t>* alphabet{nullptr};
    std::vector<size_t>      path;
    uint64_t                 nodes{0};
    uint64_t                 accepted_then_rejected{0};
};

verdict_t dfs(const nano::configurable_t& holder, const model_t& m, const history_stats_t& stats, int depth, dfs_t& d, int only_first)
{
    const auto& A = *d.alphabet;
    for (size_t k = 0; k < A.size(); ++k)
    {
        if (only_first >= 0 && static_cast<size_t>(only_first) != k)
        {
            continue;
        }
        nano::configurable_t h2(holder);
        model_t              m2 = m;
        history_stats_t      s2 = stats;
        d.path.push_back(k);
        ++d.nodes;
        if (auto v = step(h2, param_name, m2, A[k], s2); !v.is_ok())
        {
            std::string history;
            for (const auto i : d.path)
            {
                history += (history.empty() ? "" : "; ") + op_text(A[i]);
            }
            v.msg += " [history: " + history + "]";
            return v;
        }
        d.accepted_then_rejected += (s2.accepted_then_rejected && !stats.accepted_then_rejected) ? 1 : 0;
        if (depth > 1)
        {
            if (auto v = dfs(h2, m2, s2, depth - 1, d, -1); !v.is_ok())
            {
                return v;
            }
        }
        d.path.pop_back();
    }
    return verdict_t::ok();
}

verdict_t check_xcase(const xcase_t& c, ctx_t& ctx)
{
    const auto ncombos = static_cast<int>(all_combos().size());
    if (c.combo_lo < 0 || c.combo_lo > c.combo_hi || c.combo_hi >= ncombos || c.depth < 1 || c.depth > 5)
    {
        return verdict_t::discard("block-outside-the-space");
    }
    try
    {
        uint64_t nodes = 0, atr = 0;
        for (int ic = c.combo_lo; ic <= c.combo_hi; ++ic)
        {
            const auto& combo    = all_combos()[static_cast<size_t>(ic)];
            const auto  alphabet = combo_alphabet(combo);
            if (c.first >= static_cast<int>(alphabet.size()))
            {
                return verdict_t::discard("first-operation-outside-the-alphabet");
            }
            auto                 m = combo_model(combo);
            nano::configurable_t holder;
            bool                 constructed = false;
            if (auto v = construct(m, holder, constructed); !v.is_ok() || !constructed)
            {
                return v.is_ok() ? verdict_t::violation("C19/harness/fixed-domain-not-constructible", m.describe()) : v;
            }
            dfs_t d;
            d.alphabet = &alphabet;
            if (auto v = dfs(holder, m, history_stats_t{}, c.depth, d, c.first); !v.is_ok())
            {
                return v;
            }
            nodes += d.nodes;
            atr += d.accepted_then_rejected;
            const auto le = [](bool b) { return b ? "<=" : "<"; };
            ctx.label(cat("combo ", ic < 10 ? "0" : "", ic, " ", kind_name(combo.kind), " ", le(combo.min_le), " ",
                          (combo.kind == K_IPAIR || combo.kind == K_FPAIR) ? le(combo.val_le) : "-", " ", le(combo.max_le),
                          c.first >= 0 ? cat(" first=", c.first < 10 ? "0" : "", c.first) : std::string(), " depth=", c.depth));
        }
        ctx.maximum("operations-applied-per-case", static_cast<double>(nodes));
        ctx.nontrivial = atr > 0;
        return verdict_t::ok();
    }
    catch (const std::exception& e)
    {
        return verdict_t::violation("C19/exception/history_exhaustive", e.what());
    }
}

// ---- factory objects ------------------------------------------------------------------------------------------------------
// the value and the domain of a parameter registered by a library object (enum domains are the object's own)
struct pinfo_t
{
    bool                     known{false};
    model_t                  m;
    std::vector<std::string> enum_domain;
};

pinfo_t inspect(const parameter_t& p)
{
    pinfo_t     info;
    const auto& st = p.storage();
    const auto  le = [](const nano::LEorLT& c) { return std::holds_alternative<nano::LE_t>(c); };
    if (const auto* e = std::get_if<parameter_t::enum_t>(&st))
    {
        info.known       = true;
        info.m.kind      = K_ENUM;
        info.m.sv        = e->m_value;
        info.enum_domain = e->m_domain;
    }
    else if (const auto* r = std::get_if<parameter_t::irange_t>(&st))
    {
        info.known = true;
        info.m.kind = K_INT, info.m.iv1 = r->m_value, info.m.imin = r->m_min, info.m.imax = r->m_max;
        info.m.min_le = le(r->m_mincomp), info.m.max_le = le(r->m_maxcomp);
    }
    else if (const auto* r = std::get_if<parameter_t::frange_t>(&st))
    {
        info.known = true;
        info.m.kind = K_REAL, info.m.fv1 = r->m_value, info.m.fmin = r->m_min, info.m.fmax = r->m_max;
        info.m.min_le = le(r->m_mincomp), info.m.max_le = le(r->m_maxcomp);
    }
    else if (const auto* r = std::get_if<parameter_t::iprange_t>(&st))
    {
        info.known = true;
        info.m.kind = K_IPAIR, info.m.iv1 = r->m_value1, info.m.iv2 = r->m_value2, info.m.imin = r->m_min, info.m.imax = r->m_max;
        info.m.min_le = le(r->m_mincomp), info.m.val_le = le(r->m_valcomp), info.m.max_le = le(r->m_maxcomp);
    }
    else if (const auto* r = std::get_if<parameter_t::fprange_t>(&st))
    {
        info.known = true;
        info.m.kind = K_FPAIR, info.m.fv1 = r->m_value1, info.m.fv2 = r->m_value2, info.m.fmin = r->m_min, info.m.fmax = r->m_max;
        info.m.min_le = le(r->m_mincomp), info.m.val_le = le(r->m_valcomp), info.m.max_le = le(r->m_maxcomp);
    }
    else if (const auto* s = std::get_if<nano::string_t>(&st))
    {
        info.known  = true;
        info.m.kind = K_STRING;
        info.m.sv   = *s;
    }
    return info;
}

bool in_own_domain(const pinfo_t& info)
{
    if (!info.known)
    {
        return false;
    }
    if (info.m.kind == K_ENUM)
    {
        return std::find(info.enum_domain.begin(), info.enum_domain.end(), info.m.sv) != info.enum_domain.end();
    }
    if ((info.m.kind == K_REAL || info.m.kind == K_FPAIR) && (std::isnan(info.m.fmin) || std::isnan(info.m.fmax)))
    {
        return false;
    }
    return info.m.value_in_domain();
}

// assigns the value held by `m` through the typed interface of the parameter's kind
void assign_value(parameter_t& p, const model_t& m)
{
    switch (m.kind)
    {
    case K_INT: p = m.iv1; break;
    case K_REAL: p = m.fv1; break;
    case K_IPAIR: p = std::make_tuple(m.iv1, m.iv2); break;
    case K_FPAIR: p = std::make_tuple(m.fv1, m.fv2); break;
    default: p = std::string(m.sv); break;
    }
}

// other in-domain values of a parameter (numeric / enum / string), none equal to the current one
std::vector<model_t> alternatives(const pinfo_t& info, uint64_t salt)
{
    std::vector<model_t> out;
    const auto&          m   = info.m;
    const auto           add = [&](model_t c)
    {
        const bool ok = m.kind == K_ENUM || c.value_in_domain();
        if (ok && !same_value(c, m))
        {
            for (const auto& o : out)
            {
                if (same_value(o, c))
                {
                    return;
                }
            }
            out.push_back(std::move(c));
        }
    };
    model_t    c    = m;
    const auto frac = 0.25 + 0.5 * static_cast<double>(salt % 1000) / 1000.0; // in [0.25, 0.75)
    switch (m.kind)
    {
    case K_ENUM:
        for (size_t i = 0; i < info.enum_domain.size(); ++i)
        {
            c.sv = info.enum_domain[(i + salt) % info.enum_domain.size()];
            add(c);
        }
        break;
    case K_INT:
        for (const int64_t d : {int64_t{1}, int64_t{-1}, int64_t{2}, int64_t{-2}, static_cast<int64_t>(salt % 97) + 3})
        {
            if ((d > 0 && m.iv1 <= i64_max - d) || (d < 0 && m.iv1 >= i64_min - d))
            {
                c.iv1 = m.iv1 + d;
                add(c);
            }
        }
        c.iv1 = m.imin, add(c);
        c.iv1 = m.imax, add(c);
        break;
    case K_REAL:
        c.fv1 = m.fv1 + (m.fmax - m.fv1) * frac, add(c);
        c.fv1 = m.fv1 - (m.fv1 - m.fmin) * frac, add(c);
        c.fv1 = std::nextafter(m.fv1, m.fmax), add(c);
        c.fv1 = std::nextafter(m.fv1, m.fmin), add(c);
        c.fv1 = m.fmin, add(c);
        c.fv1 = m.fmax, add(c);
        break;
    case K_IPAIR:
        c = m, c.iv2 = m.iv2 < i64_max ? m.iv2 + 1 : m.iv2, add(c);
        c = m, c.iv1 = m.iv1 > i64_min ? m.iv1 - 1 : m.iv1, add(c);
        c = m, c.iv1 = m.iv1 < i64_max ? m.iv1 + 1 : m.iv1, c.iv2 = m.iv2 < i64_max ? m.iv2 + 1 : m.iv2, add(c);
        c = m, c.iv2 = m.iv2 > i64_min ? m.iv2 - 1 : m.iv2, add(c);
        break;
    case K_FPAIR:
        c = m, c.fv2 = m.fv2 + (m.fmax - m.fv2) * frac, add(c);
        c = m, c.fv1 = m.fv1 - (m.fv1 - m.fmin) * frac, add(c);
        c = m, c.fv1 = m.fv1 + (m.fv2 - m.fv1) * frac * 0.5, c.fv2 = m.fv2 - (m.fv2 - m.fv1) * frac * 0.5, add(c);
        break;
    default:
        c.sv = m.sv + "x", add(c);
        c.sv = cat("dir", salt % 10), add(c);
        break;
    }
    return out;
}

std::string raw(const void* p, size_t n)
{
    return std::string(static_cast<const char*>(p), n);
}

template <class ttensor>
std::string raw_tensor(const ttensor& t)
{
    return raw(t.data(), sizeof(*t.data()) * static_cast<size_t>(t.size()));
}

std::string raw_value(double v)
{
    return raw(&v, sizeof(v));
}

nano::vector_t fixed_point(nano::tensor_size_t n)
{
    nano::vector_t x(n);
    for (nano::tensor_size_t i = 0; i < n; ++i)
    {
        x(i) = 0.7 - 0.3 * static_cast<double>(i % 5) + 0.01 * static_cast<double>(i);
    }
    return x;
}

// ---- behaviour probes: a deterministic fingerprint of what the object does (compared bit for bit between original and clone)
std::string probe(nano::solver_t& solver)
{
    std::string fp = cat("type=", static_cast<int>(solver.type()), " ls0=", solver.lsearch0().type_id(), " lsk=", solver.lsearchk().type_id(), "|");
    fp += bytes_of(solver.lsearch0()) + bytes_of(solver.lsearchk());
    for (const char* fid : {"sphere", "axis-ellipsoid"})
    {
        nano::verif::rng_state().store(4242);
        const auto function = nano::function_t::all().get(fid)->make(4, 10);
        const auto state    = solver.minimize(*function, fixed_point(4), nano::make_null_logger());
        fp += raw_tensor(state.x()) + raw_value(state.fx()) + cat("|", static_cast<int>(state.status()), "|", state.fcalls(), "|", state.gcalls(), "|");
    }
    nano::verif::rng_state().store(0);
    return fp;
}

std::string probe(nano::lsearch0_t& ls)
{
    const auto           function = nano::function_t::all().get("rosenbrock")->make(4, 10);
    nano::solver_state_t state(*function, fixed_point(4));
    nano::vector_t       descent(4);
    descent.vector() = -state.gx().vector();
    const auto t1    = ls.get(state, descent, -1.0);
    nano::vector_t x(4);
    x.vector() = state.x().vector() + 1e-3 * descent.vector();
    state.update(x);
    descent.vector() = -state.gx().vector();
    const auto t2    = ls.get(state, descent, 1e-3);
    return raw_value(t1) + raw_value(t2);
}

std::string probe(nano::lsearchk_t& ls)
{
    const auto           function = nano::function_t::all().get("rosenbrock")->make(4, 10);
    nano::solver_state_t state(*function, fixed_point(4));
    nano::vector_t       descent(4);
    descent.vector()    = -state.gx().vector();
    const auto [ok, t]  = ls.get(state, descent, 1.0, nano::make_null_logger());
    return cat(ok ? "ok" : "failed", "|", static_cast<int>(ls.type()), "|") + raw_value(t) + raw_tensor(state.x()) + raw_value(state.fx());
}

std::string probe(nano::loss_t& loss)
{
    nano::tensor4d_t targets(5, 3, 1, 1);
    nano::tensor4d_t outputs(5, 3, 1, 1);
    for (nano::tensor_size_t i = 0; i < 5; ++i)
    {
        for (nano::tensor_size_t k = 0; k < 3; ++k)
        {
            targets(i, k, 0, 0) = (k == i % 3) ? +1.0 : -1.0;
            outputs(i, k, 0, 0) = 0.9 - 0.45 * static_cast<double>(i) + 0.3 * static_cast<double>(k) * (i % 2 == 0 ? 1.0 : -1.0);
        }
    }
    nano::tensor1d_t errors, values;
    nano::tensor4d_t vgrads;
    loss.error(targets, outputs, errors);
    loss.value(targets, outputs, values);
    loss.vgrad(targets, outputs, vgrads);
    return cat(loss.convex(), loss.smooth(), "|") + raw_tensor(errors) + raw_tensor(values) + raw_tensor(vgrads);
}

std::string probe(nano::splitter_t& splitter)
{
    std::string fp;
    for (const auto& split : splitter.split(nano::arange(0, 30)))
    {
        fp += raw_tensor(split.first) + "|" + raw_tensor(split.second) + "|";
    }
    return fp;
}

std::string probe(nano::tuner_t& tuner)
{
    nano::verif::rng_state().store(4242);
    const auto spaces = nano::param_spaces_t{
        nano::make_param_space("param1", nano::param_space_t::type::linear, 0.0, 0.1, 0.2, 0.3, 0.5, 0.6, 0.7, 0.8, 0.9, 1.0),
        nano::make_param_space("param2", nano::param_space_t::type::log10, 1e-3, 1e-2, 1e-1, 1e+0, 1e+1, 1e+2, 1e+3)};
    const auto callback = [](const nano::tensor2d_t& params)
    {
        nano::tensor1d_t values(params.size<0>());
        for (nano::tensor_size_t i = 0; i < values.size(); ++i)
        {
            const auto dx = params(i, 0) - 0.3;
            const auto dy = std::log10(params(i, 1)) - 1.0;
            values(i)     = dx * dx + dy * dy + 0.5;
        }
        return values;
    };
    std::string fp;
    for (const auto& step : tuner.optimize(spaces, callback, nano::make_null_logger()))
    {
        fp += raw_tensor(step.m_igrid) + raw_tensor(step.m_param) + raw_value(step.m_value) + "|";
    }
    nano::verif::rng_state().store(0);
    return fp;
}

std::string probe(nano::function_t& function)
{
    const auto     x = fixed_point(function.size());
    nano::vector_t gx(function.size());
    const auto     fx = function.vgrad(x, gx);
    return cat(function.name(), "|", function.size(), "|", function.convex(), function.smooth(), "|", function.constraints().size(), "|") +
           raw_value(function.strong_convexity()) + raw_value(fx) + raw_tensor(gx);
}

// fitting these needs a dataset (covered by other properties): the configuration bytes and the type id are compared
std::string probe(nano::generator_t&) { return {}; }
std::string probe(nano::wlearner_t&) { return {}; }
std::string probe(nano::linear_t&) { return {}; }
std::string probe(nano::datasource_t&) { return {}; }

template <class tobject>
std::string safe_probe(tobject& object)
{
    try
    {
        return "R:" + probe(object);
    }
    catch (const std::exception& e)
    {
        return std::string("X:") + e.what(); // both the original and the clone must then fail the same way
    }
}

template <class tobject>
std::string config_bytes(const tobject& object)
{
    if constexpr (std::is_base_of_v<nano::configurable_t, tobject>)
    {
        return bytes_of(static_cast<const nano::configurable_t&>(object));
    }
    else
    {
        return {};
    }
}

struct fcase_t
{
    int      factory{0};
    int      index{0};
    uint64_t salt{0};

    template <class A>
    void io(A& a)
    {
        a("factory", factory);
        a("index", index);
        a("salt", salt);
    }
};

const char* const factory_names[] = {"solver",    "lsearch0", "lsearchk", "loss",       "splitter", "tuner",
                                     "generator", "wlearner", "linear",   "datasource", "function"};
constexpr int     nfactories      = 11;

template <class tfactory, class tcall>
auto with_factory(int factory, const tcall& call)
{
    switch (factory)
    {
    case 0: return call(nano::solver_t::all());
    case 1: return call(nano::lsearch0_t::all());
    case 2: return call(nano::lsearchk_t::all());
    case 3: return call(nano::loss_t::all());
    case 4: return call(nano::splitter_t::all());
    case 5: return call(nano::tuner_t::all());
    case 6: return call(nano::generator_t::all());
    case 7: return call(nano::wlearner_t::all());
    case 8: return call(nano::linear_t::all());
    case 9: return call(nano::datasource_t::all());
    default: return call(nano::function_t::all());
    }
}

size_t factory_size(int factory)
{
    return with_factory<void>(factory, [](auto& f) { return f.size(); });
}

// solvers own line-search objects: the clone has equal ones of its own
verdict_t check_solver_lsearch(const std::string& sig0, const std::string& id, uint64_t salt)
{
    const auto& ids0 = nano::lsearch0_t::all().ids();
    const auto& idsk = nano::lsearchk_t::all().ids();
    auto        solver = nano::solver_t::all().get(id);
    // configure non-default line-search objects with non-default parameters
    const auto id0 = ids0[salt % ids0.size()];
    const auto idk = idsk[(salt / 7) % idsk.size()];
    {
        auto ls0 = nano::lsearch0_t::all().get(id0);
        auto lsk = nano::lsearchk_t::all().get(idk);
        ls0->parameter("lsearch0::epsilon")         = 1e-3;
        lsk->parameter("lsearchk::max_iterations") = 17 + static_cast<int>(salt % 50);
        solver->lsearch0(*ls0);
        solver->lsearchk(*lsk);
    }
    const auto bytes0 = bytes_of(solver->lsearch0());
    const auto bytesk = bytes_of(solver->lsearchk());
    auto       clone  = solver->clone();
    if (clone->lsearch0().type_id() != id0 || clone->lsearchk().type_id() != idk || bytes_of(clone->lsearch0()) != bytes0 ||
        bytes_of(clone->lsearchk()) != bytesk)
    {
        return verdict_t::violation(sig0 + "/clone-line-search-differs",
                                    cat("id=", id, " configured ", id0, "/", idk, " clone has ", clone->lsearch0().type_id(), "/", clone->lsearchk().type_id()));
    }
    if (&clone->lsearch0() == &solver->lsearch0() || &clone->lsearchk() == &solver->lsearchk())
    {
        return verdict_t::violation(sig0 + "/clone-shares-line-search-object", cat("id=", id));
    }
    if (safe_probe(*solver) != safe_probe(*clone))
    {
        return verdict_t::violation(sig0 + "/configured-clone-behaves-differently", cat("id=", id, " line-search ", id0, "/", idk));
    }
    // replacing the clone's line-search objects does not reach the original, and vice versa
    const auto other0 = ids0[(salt + 1) % ids0.size()];
    const auto otherk = idsk[((salt / 7) + 1) % idsk.size()];
    clone->lsearch0(other0);
    clone->lsearchk(otherk);
    if (solver->lsearch0().type_id() != id0 || solver->lsearchk().type_id() != idk || bytes_of(solver->lsearch0()) != bytes0 ||
        bytes_of(solver->lsearchk()) != bytesk)
    {
        return verdict_t::violation(sig0 + "/changing-the-clone-line-search-changed-the-original", cat("id=", id));
    }
    solver->lsearch0(id0 == ids0[0] ? ids0[1] : ids0[0]);
    solver->lsearchk(idk == idsk[0] ? idsk[1] : idsk[0]);
    if (clone->lsearch0().type_id() != other0 || clone->lsearchk().type_id() != otherk)
    {
        return verdict_t::violation(sig0 + "/changing-the-original-line-search-changed-the-clone", cat("id=", id));
    }
    return verdict_t::ok();
}

template <class tobject>
verdict_t check_object(const std::string& fname, nano::factory_t<tobject>& factory, const fcase_t& c, ctx_t& ctx)
{
    const auto sig0 = "C19/factory/" + fname;
    const auto ids  = factory.ids();
    if (ids.empty() || ids.size() != factory.size())
    {
        return verdict_t::violation(sig0 + "/ids", cat("ids()=", ids.size(), " size()=", factory.size()));
    }
    {
        auto sorted = ids;
        std::sort(sorted.begin(), sorted.end());
        if (std::adjacent_find(sorted.begin(), sorted.end()) != sorted.end())
        {
            return verdict_t::violation(sig0 + "/duplicate-id");
        }
    }
    const auto id = ids[static_cast<size_t>(c.index) % ids.size()];
    ctx.label(fname + ": " + id);

    // the id it was registered under
    auto object = factory.get(id);
    if (!object || !factory.has(id))
    {
        return verdict_t::violation(sig0 + "/get-returns-null", cat("id=", id));
    }
    if (object->type_id() != id)
    {
        return verdict_t::violation(sig0 + "/reports-another-id", cat("registered as ", id, " reports ", object->type_id()));
    }
    const auto bytes0 = config_bytes(*object);

    // defaults inside their domains
    size_t nparams = 0, nmodified = 0;
    if constexpr (std::is_base_of_v<nano::configurable_t, tobject>)
    {
        nparams = object->parameters().size();
        for (const auto& p : object->parameters())
        {
            const auto info = inspect(p);
            if (!in_own_domain(info))
            {
                return verdict_t::violation(sig0 + "/default-outside-its-domain", cat("id=", id, " ", nano::scat(p)));
            }
            // re-assigning the default to a copy is accepted and changes nothing
            parameter_t copy(p);
            try
            {
                assign_value(copy, info.m);
            }
            catch (const std::exception& e)
            {
                return verdict_t::violation(sig0 + "/default-not-assignable", cat("id=", id, " ", nano::scat(p), ": ", e.what()));
            }
            if (!(copy == p) || bytes_of(copy) != bytes_of(p))
            {
                return verdict_t::violation(sig0 + "/re-assigning-the-default-changes-the-parameter", cat("id=", id, " ", nano::scat(p)));
            }
            // the parameter is reachable by its name
            if (object->parameter_if(p.name()) != &p)
            {
                return verdict_t::violation(sig0 + "/parameter-not-found-by-name", cat("id=", id, " ", p.name()));
            }
        }
    }

    // a second object from the factory and the clone: configuration-equal, same id, same dynamic type, distinct objects
    auto second = factory.get(id);
    auto clone  = object->clone();
    if (!clone || !second)
    {
        return verdict_t::violation(sig0 + "/clone-returns-null", cat("id=", id));
    }
    for (const auto* other : {clone.get(), second.get()})
    {
        const char* who = other == clone.get() ? "clone" : "second-object";
        if (other == object.get())
        {
            return verdict_t::violation(sig0 + "/" + who + "-is-the-same-object", cat("id=", id));
        }
        if (other->type_id() != id)
        {
            return verdict_t::violation(sig0 + "/" + who + "-reports-another-id", cat("id=", id, " reports ", other->type_id()));
        }
        if (typeid(*other) != typeid(*object))
        {
            return verdict_t::violation(sig0 + "/" + who + "-has-another-dynamic-type", cat("id=", id));
        }
        if constexpr (std::is_base_of_v<nano::configurable_t, tobject>)
        {
            if (other->parameters().size() != object->parameters().size() ||
                !std::equal(other->parameters().begin(), other->parameters().end(), object->parameters().begin()))
            {
                return verdict_t::violation(sig0 + "/" + who + "-parameters-differ", cat("id=", id));
            }
        }
        if (config_bytes(*other) != bytes0)
        {
            return verdict_t::violation(sig0 + "/" + who + "-serialised-configuration-differs", cat("id=", id));
        }
    }

    // behaves identically
    const auto fp_object = safe_probe(*object);
    const auto fp_clone  = safe_probe(*clone);
    if (fp_object != fp_clone)
    {
        return verdict_t::violation(sig0 + "/clone-behaves-differently", cat("id=", id, " original ", fp_object.substr(0, 2) == "X:" ? fp_object : "ran",
                                                                             " clone ", fp_clone.substr(0, 2) == "X:" ? fp_clone : "ran"));
    }
    if (fp_object.substr(0, 2) == "X:")
    {
        // an exception on the fixed, in-domain probe input of a default-configured object (DESIGN.md 4.6); the surrogate tuner's
        // documented "cannot fit the surrogate model" failure is the one accepted exception
        if (fname != "tuner")
        {
            return verdict_t::violation("C19/exception/factory/" + fname + "/probe", cat("id=", id, " ", fp_object.substr(2)));
        }
        ctx.label("probe throws (identically)");
    }
    if (config_bytes(*object) != bytes0 || config_bytes(*clone) != bytes0)
    {
        return verdict_t::violation(sig0 + "/probing-changed-the-configuration", cat("id=", id));
    }

    // independently modifiable
    if constexpr (std::is_base_of_v<nano::configurable_t, tobject>)
    {
        // every parameter of the clone moves to another in-domain value: the original keeps its bytes
        std::vector<std::pair<std::string, model_t>> moved;
        for (const auto& p : clone->parameters())
        {
            const auto info = inspect(p);
            const auto alts = alternatives(info, c.salt);
            if (alts.empty())
            {
                continue;
            }
            const auto& next = alts[c.salt % alts.size()];
            try
            {
                assign_value(clone->parameter(p.name()), next);
            }
            catch (const std::exception& e)
            {
                return verdict_t::violation(sig0 + "/in-domain-value-rejected", cat("id=", id, " ", nano::scat(p), " <- ", value_text(next), ": ", e.what()));
            }
            auto after = inspect(clone->parameter(p.name()));
            if (!same_value(after.m, next))
            {
                return verdict_t::violation(sig0 + "/assigned-value-not-read-back", cat("id=", id, " ", p.name(), " <- ", value_text(next)));
            }
            moved.emplace_back(p.name(), next);
            ++nmodified;
            if (config_bytes(*object) != bytes0)
            {
                return verdict_t::violation(sig0 + "/changing-the-clone-changed-the-original", cat("id=", id, " ", p.name()));
            }
        }
        const auto clone_bytes = config_bytes(*clone);
        if (nmodified > 0 && clone_bytes == bytes0)
        {
            return verdict_t::violation(sig0 + "/changing-the-clone-has-no-effect", cat("id=", id));
        }
        // a clone of the modified clone carries the modified configuration
        {
            const auto again = clone->clone();
            if (config_bytes(*again) != clone_bytes || again->type_id() != id)
            {
                return verdict_t::violation(sig0 + "/clone-of-a-configured-object-differs", cat("id=", id));
            }
        }
        // vice versa: the original moves (to other values where possible), the clone keeps what it was given
        for (const auto& p : object->parameters())
        {
            const auto info = inspect(p);
            const auto alts = alternatives(info, c.salt + 1);
            if (alts.empty())
            {
                continue;
            }
            assign_value(object->parameter(p.name()), alts[(c.salt + 1) % alts.size()]);
        }
        if (config_bytes(*clone) != clone_bytes)
        {
            return verdict_t::violation(sig0 + "/changing-the-original-changed-the-clone", cat("id=", id));
        }
        for (const auto& [name, value] : moved)
        {
            if (!same_value(inspect(clone->parameter(name)).m, value))
            {
                return verdict_t::violation(sig0 + "/changing-the-original-changed-the-clone", cat("id=", id, " ", name));
            }
        }
        // the factory prototype is not reachable through the objects it hands out
        if (config_bytes(*factory.get(id)) != bytes0)
        {
            return verdict_t::violation(sig0 + "/changing-an-object-changed-the-factory-prototype", cat("id=", id));
        }
    }
    if constexpr (std::is_same_v<tobject, nano::function_t>)
    {
        // functions carry no parameters: constraining the clone must not constrain the original
        const auto before = object->constraints().size();
        if (clone->constrain(-10.0, +10.0))
        {
            ++nmodified;
            if (object->constraints().size() != before || clone->constraints().size() == before)
            {
                return verdict_t::violation(sig0 + "/constraining-the-clone-reached-the-original", cat("id=", id));
            }
            if (factory.get(id)->constraints().size() != before)
            {
                return verdict_t::violation(sig0 + "/changing-an-object-changed-the-factory-prototype", cat("id=", id));
            }
        }
    }
    if constexpr (std::is_same_v<tobject, nano::solver_t>)
    {
        if (auto v = check_solver_lsearch(sig0, id, c.salt); !v.is_ok())
        {
            return v;
        }
    }
    ctx.label_if(nparams == 0, "object without parameters");
    ctx.label_if(nmodified == 0, "nothing modifiable");
    ctx.maximum("parameters-per-object", static_cast<double>(nparams));
    ctx.nontrivial = nmodified > 0;
    return verdict_t::ok();
}

rc::Gen<fcase_t> gen_fcase()
{
    // uniform over the (factory, id) pairs
    std::vector<std::pair<int, int>> objects;
    for (int f = 0; f < nfactories; ++f)
    {
        const auto n = static_cast<int>(factory_size(f));
        for (int i = 0; i < n; ++i)
        {
            objects.emplace_back(f, i);
        }
    }
    return rc::gen::map(rc::gen::pair(rc::gen::elementOf(objects), gen::range<uint64_t>(0, 1000000)),
                        [](const std::pair<std::pair<int, int>, uint64_t>& os)
                        {
                            fcase_t c;
                            c.factory = os.first.first;
                            c.index   = os.first.second;
                            c.salt    = os.second;
                            return c;
                        });
}

verdict_t check_fcase(const fcase_t& c, ctx_t& ctx)
{
    if (c.factory < 0 || c.factory >= nfactories || c.index < 0)
    {
        return verdict_t::discard("no-such-factory");
    }
    const std::string fname = factory_names[c.factory];
    try
    {
        return with_factory<void>(c.factory, [&](auto& factory) { return check_object(fname, factory, c, ctx); });
    }
    catch (const std::exception& e)
    {
        return verdict_t::violation("C19/exception/factory/" + fname, e.what());
    }
}
} // namespace

#ifndef VERIF_NO_MAIN
int main(int argc, char** argv)
{
    // the factory prototypes of the randomly initialised benchmark functions are created on first use: pin their seeds
    nano::verif::rng_state().store(20260926);
    for (int f = 0; f < nfactories; ++f)
    {
        (void)factory_size(f);
    }
    nano::verif::rng_state().store(0);

    // `--deep` (thorough tier, cfg "args"): history_exhaustive cases are (combination, first operation) cells of depth 4
    std::vector<char*> args;
    for (int i = 0; i < argc; ++i)
    {
        if (i > 0 && std::string(argv[i]) == "--deep")
        {
            exhaustive_depth() = 4;
        }
        else
        {
            args.push_back(argv[i]);
        }
    }

    suite_t suite("C19");
    // weights = share of the case budget (cfg/C19.py: 153 440 quick => 540 >= 20 x 26 combinations, 2 900 >= 20 x 143 factory objects)
    suite.add<hcase_t>("history", gen_hcase, check_hcase, 150000.0);
    suite.add<xcase_t>("history_exhaustive", gen_xcase, check_xcase, 540.0);
    suite.add<fcase_t>("factory", gen_fcase, check_fcase, 2900.0);
    return suite.main(static_cast<int>(args.size()), args.data());
}
#endif
