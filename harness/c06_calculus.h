// C06 — shared oracle: derivative clause, value-only == value+gradient, (strong) convexity with
// hill-climbing on the violation (DESIGN.md section 5, C06).  Used by c06_calculus.cpp (benchmark
// functions, constraints, surrogate), c06_losses.cpp and c06_objectives.cpp.
//
// Everything is deterministic: the "random" directions and hill-climbing steps are part of the
// generated case (vectors of doubles in [-1, 1]), no RNG is ever called here.
#pragma once

#include "common.h"

#include <algorithm>
#include <cmath>
#include <cstring>
#include <functional>
#include <limits>
#include <string>
#include <vector>

namespace c06
{
using namespace verif;
using vec_t = std::vector<double>;

constexpr double eps = std::numeric_limits<double>::epsilon();

// ---------------------------------------------------------------------------------------
// the object under test, reduced to what the statement talks about
// ---------------------------------------------------------------------------------------
struct object_t
{
    std::string family; // functions | losses | constraints | objectives   (statistics)
    std::string where;  // signature prefix, e.g. "C06/function/sphere" (stable, no random values)
    size_t      n{0};   // dimensions
    bool        convex{false};
    bool        smooth{false};   // statistics only (skip rates of smooth vs non-smooth objects)
    double      mu{0.0};         // declared strong-convexity coefficient
    double      curv_scale{0.0}; // magnitude of the quadratic term the declared mu was computed from (rounding of mu)
    bool        joint_call{true};// the API has a value-only and a value+gradient call returning the value
    // bias block of the linear objective (known finding F4): components [bias_begin, bias_end)
    long        bias_begin{-1}, bias_end{-1};
    std::string known_sig; // signature returned when the F4 mechanism predicate holds
    // magnitude of the terms hidden inside f (filled by check_object from probes at unit distance): a value that is the
    // result of internal cancellation (kinks: sum|x-K| - offset == 0 between the kinks) carries rounding noise of
    // eps*|terms|, not eps*|f|; |f| at 0, +-1, (+1,-1,..) reveals the size of the constants involved
    double      value_floor{0.0};
    // optional: magnitude of the arguments that enter f additively at x (losses: sum |prediction| + |target|; class-NLL
    // with one output computes log(1+eps) - o + o): part of the "terms involved" of the rounding tolerances
    std::function<double(const vec_t&)> terms;

    std::function<double(const vec_t&)>         value; // value-only call
    std::function<double(const vec_t&, vec_t&)> vgrad; // value + (sub)gradient call
};

struct counters_t
{
    int deriv_tested{0};
    int deriv_skipped_kink{0};     // E_t rule: not differentiable along d at this scale
    int deriv_skipped_at_kink{0};  // symmetric kink exactly at the point (second difference does not scale with h)
    int nonfinite{0};
    int climb_steps{0};
    int climb_improved{0};
    bool nonzero_gradient{false};
    bool distinct_pair{false};
};

inline bool finite(double v)
{
    return std::isfinite(v);
}

inline bool finite(const vec_t& v)
{
    for (const auto x : v)
    {
        if (!std::isfinite(x))
        {
            return false;
        }
    }
    return true;
}

inline double norm(const vec_t& v)
{
    long double s = 0;
    for (const auto x : v)
    {
        s += static_cast<long double>(x) * x;
    }
    return static_cast<double>(std::sqrt(s));
}

inline double dot(const vec_t& a, const vec_t& b)
{
    long double s = 0;
    for (size_t i = 0; i < a.size(); ++i)
    {
        s += static_cast<long double>(a[i]) * b[i];
    }
    return static_cast<double>(s);
}

inline bool same_bits(double a, double b)
{
    return std::memcmp(&a, &b, sizeof(double)) == 0 || (std::isnan(a) && std::isnan(b));
}

// unit direction from generated material (falls back to e_0 for the zero vector)
inline vec_t unit(const vec_t& raw, size_t n)
{
    vec_t d(n, 0.0);
    for (size_t i = 0; i < n && i < raw.size(); ++i)
    {
        d[i] = raw[i];
    }
    const auto nd = norm(d);
    if (!(nd > 1e-12))
    {
        std::fill(d.begin(), d.end(), 0.0);
        d[0] = 1.0;
        return d;
    }
    for (auto& v : d)
    {
        v /= nd;
    }
    return d;
}

// ---------------------------------------------------------------------------------------
// clause 1: the (sub)gradient is the derivative wherever one exists
//   D(h) = (f(x+hd)-f(x-hd))/2h at h = 1e-4*max(1,|x|) and h/2,
//   E_t = |D(h)-D(h/2)|, E_r = 50*eps*(|f(x+hd)|+|f(x-hd)|)/h,
//   skip when E_t > 1e-3*(|D(h/2)|+1e-8), otherwise |g.d - D(h/2)| <= 2 E_t + E_r + 1e-7 |g.d|.
// Addition (only ever removes alarms, see the comments in check_derivative): a failure of the designed test is
// confirmed at the step pairs (h/4, h/8), (h/16, h/32), (h/64, h/128); if the designed test passes or skips at any of
// them the coarse stencil contained a kink (|a| < h/4 makes E_t arbitrarily small although D(h/2) is off by half the
// jump) -> skipped and counted.  A kink exactly AT x is symmetric at every h (|t| at 0: D = 0): there g.d only has
// to lie between the backward and the forward difference quotient of the finest step (valid sub-gradient).
// ---------------------------------------------------------------------------------------
struct deriv_result_t
{
    enum kind_t
    {
        ok,
        skipped,
        skipped_at_kink,
        nonfinite,
        borderline,
        failed
    } kind{ok};
    double ratio{0.0};
    std::string msg;
};

inline deriv_result_t check_derivative(const object_t& o, const vec_t& x, double fx, const vec_t& gx, const vec_t& d)
{
    const auto gd = dot(gx, d);
    const auto h0 = 1e-4 * std::max(1.0, norm(x));
    const auto fl = o.value_floor + (o.terms ? 2 * o.terms(x) : 0.0);

    struct level_t
    {
        enum
        {
            ok,
            skip,
            fail,
            nonfinite
        } status{ok};
        double D1{0}, D2{0}, Et{0}, Er{0}, err{0}, tol{0}, S2{0};
    };
    vec_t      xp(o.n), xn(o.n);
    const auto eval = [&](double h, double& fp, double& fn)
    {
        for (size_t i = 0; i < o.n; ++i)
        {
            xp[i] = x[i] + h * d[i];
            xn[i] = x[i] - h * d[i];
        }
        fp = o.value(xp);
        fn = o.value(xn);
    };
    // the designed rule at the pair of steps (h, h/2)
    const auto level = [&](double h1)
    {
        level_t    l;
        const auto h2  = 0.5 * h1;
        double     fp1 = 0, fn1 = 0, fp2 = 0, fn2 = 0;
        eval(h1, fp1, fn1);
        eval(h2, fp2, fn2);
        if (!finite(fp1) || !finite(fn1) || !finite(fp2) || !finite(fn2))
        {
            l.status = level_t::nonfinite;
            return l;
        }
        l.D1  = (fp1 - fn1) / (2 * h1);
        l.D2  = (fp2 - fn2) / (2 * h2);
        l.Et  = std::fabs(l.D1 - l.D2);
        l.Er  = 50 * eps * (std::fabs(fp2) + std::fabs(fn2) + fl) / h1;
        l.S2  = (fp2 - 2 * fx + fn2) / h2; // forward minus backward difference at h/2
        l.err = std::fabs(gd - l.D2);
        l.tol = 2 * l.Et + l.Er + 1e-7 * std::fabs(gd);
        if (l.Et > 1e-3 * (std::fabs(l.D2) + 1e-8))
        {
            l.status = level_t::skip;
        }
        else if (l.err > l.tol)
        {
            l.status = level_t::fail;
        }
        return l;
    };

    deriv_result_t r;
    const auto     l0 = level(h0);
    r.ratio           = l0.err / std::max(l0.tol, 1e-300);
    switch (l0.status)
    {
    case level_t::nonfinite: r.kind = deriv_result_t::nonfinite; return r;
    case level_t::skip: r.kind = deriv_result_t::skipped; return r;
    case level_t::ok: return r;
    default: break;
    }
    // The designed test fails.  Before this counts, the same test must fail at finer steps as well: kinks inside the
    // coarse stencil can conspire so that D(h) ~ D(h/2) although both are off (one kink at |a| < h/4, or two kinks whose
    // contributions cancel in E_t - both seen on the unchanged tree with the l1 term of the linear objective / lasso).
    // A wrong gradient is wrong at every step size; a kink at distance a > 0 leaves the stencil once h < a.
    double   best = r.ratio;
    level_t  lf   = l0;
    for (int k = 1; k <= 3; ++k)
    {
        lf = level(h0 / std::pow(4.0, k));
        if (lf.status == level_t::nonfinite)
        {
            r.kind = deriv_result_t::nonfinite;
            return r;
        }
        if (lf.status != level_t::fail)
        {
            r.kind = deriv_result_t::skipped_at_kink; // differentiable at x, but not across the coarse stencil
            return r;
        }
        best = std::min(best, lf.err / std::max(lf.tol, 1e-300));
    }
    // fails at every scale: a kink exactly at x is symmetric for central differences at every h; there g only has to be a
    // sub-gradient along d, i.e. g.d must lie between the backward and the forward difference quotient (finest step)
    if (lf.err <= 0.5 * std::fabs(lf.S2) * (1 + 1e-6) + lf.tol)
    {
        r.kind = deriv_result_t::skipped_at_kink;
        return r;
    }
    r.ratio = best;
    r.kind  = best <= 10.0 ? deriv_result_t::borderline : deriv_result_t::failed;
    r.msg   = cat("n=", o.n, " |x|=", norm(x), " h=", h0, " g.d=", gd, " D(h)=", l0.D1, " D(h/2)=", l0.D2, " E_t=", l0.Et, " E_r=", l0.Er,
                  " f(x)=", fx, " finest: h=", h0 / 64, " D(h/2)=", lf.D2, " E_t=", lf.Et, " E_r=", lf.Er, " fwd-bwd=", lf.S2);
    return r;
}

// ---------------------------------------------------------------------------------------
// clause 3: f(z) >= f(x) + g(x).(z-x) + (mu/2)|z-x|^2 - tol
//   tol = 1e3*eps*(|f(z)|+|f(x)|+sum|g_i (z-x)_i|+(mu/2)|z-x|^2 [+ curv_scale/2 |z-x|^2])
// returns the deficit relative to the magnitude sum (scale free): a violation is ratio > 1e4*eps
// ---------------------------------------------------------------------------------------
struct pair_eval_t
{
    bool   finite{false};
    double fx{0}, fz{0}, lin{0}, quad2{0}, mag{0}; // lin = g.(z-x), quad2 = |z-x|^2
    double deficit(double mu) const { return fx + lin + 0.5 * mu * quad2 - fz; }
    double magnitude(double mu, double curv) const { return mag + 0.5 * (mu + curv) * quad2; }
    // > 1: beyond the tolerance, > 10: violation
    double excess(double mu, double curv) const
    {
        const auto m = magnitude(mu, curv);
        const auto d = deficit(mu);
        if (m <= 0.0)
        {
            return d > 0.0 ? std::numeric_limits<double>::infinity() : 0.0;
        }
        return d / (1e3 * eps * m);
    }
};

inline pair_eval_t eval_pair(double fx, const vec_t& gx, const vec_t& x, double fz, const vec_t& z, double floor)
{
    pair_eval_t p;
    long double lin = 0, alin = 0, q = 0;
    for (size_t i = 0; i < x.size(); ++i)
    {
        const long double di = static_cast<long double>(z[i]) - x[i];
        lin += gx[i] * di;
        alin += std::fabs(static_cast<double>(gx[i] * di));
        q += di * di;
    }
    p.fx     = fx;
    p.fz     = fz;
    p.lin    = static_cast<double>(lin);
    p.quad2  = static_cast<double>(q);
    p.mag    = std::fabs(fx) + std::fabs(fz) + static_cast<double>(alin) + floor;
    p.finite = finite(fx) && finite(fz) && finite(p.lin) && finite(p.quad2);
    return p;
}

struct climb_result_t
{
    double      best{-std::numeric_limits<double>::infinity()}; // best excess found
    vec_t       x, z;
    pair_eval_t pair;
    bool        any{false};
};

// random-restart coordinate search over (x, z) maximising the excess; `starts` are (x, z) pairs,
// `steps` the generated step material (pairs: coordinate selector, signed relative step).
// `tie_bias`: keep the bias block of z equal to the one of x (weight-block restricted directions).
inline climb_result_t climb(const object_t& o, double mu, double radius, const std::vector<std::pair<vec_t, vec_t>>& starts,
                            const vec_t& steps, bool tie_bias, counters_t& cnt)
{
    climb_result_t best;
    const auto     n = o.n;
    if (starts.empty())
    {
        return best;
    }
    const auto per_start = steps.size() / 2 / starts.size();
    size_t     cursor    = 0;

    const auto tie = [&](const vec_t& x, vec_t& z)
    {
        if (tie_bias && o.bias_begin >= 0)
        {
            for (long i = o.bias_begin; i < o.bias_end; ++i)
            {
                z[static_cast<size_t>(i)] = x[static_cast<size_t>(i)];
            }
        }
    };

    for (const auto& start : starts)
    {
        vec_t x = start.first, z = start.second, gx(n), gtmp(n);
        tie(x, z);
        auto fx = o.vgrad(x, gx);
        auto fz = o.value(z);
        if (!finite(fx) || !finite(fz) || !finite(gx))
        {
            cnt.nonfinite++;
            cursor += 2 * per_start;
            continue;
        }
        auto pair = eval_pair(fx, gx, x, fz, z, o.value_floor + (o.terms ? o.terms(x) + o.terms(z) : 0.0));
        auto cur  = pair.excess(mu, o.curv_scale);
        if (!best.any || cur > best.best)
        {
            best.any = true, best.best = cur, best.x = x, best.z = z, best.pair = pair;
        }
        double scale = 0.5; // relative to the box radius
        for (size_t s = 0; s < per_start && cursor + 1 < steps.size(); ++s, cursor += 2)
        {
            cnt.climb_steps++;
            const auto sel  = 0.5 * (steps[cursor] + 1.0); // [0, 1]
            const auto amt  = steps[cursor + 1];           // [-1, 1]
            // moves: 2n coordinates, plus "stretch z away from / towards x"
            const auto move = std::min(static_cast<size_t>(sel * static_cast<double>(2 * n + 1)), 2 * n);
            vec_t      x2 = x, z2 = z;
            if (move < n)
            {
                x2[move] = std::clamp(x[move] + amt * scale * radius, -radius, radius);
            }
            else if (move < 2 * n)
            {
                const auto j = move - n;
                z2[j]        = std::clamp(z[j] + amt * scale * radius, -radius, radius);
            }
            else
            {
                const auto t = 1.0 + amt; // [0, 2]
                for (size_t i = 0; i < n; ++i)
                {
                    z2[i] = std::clamp(x[i] + t * (z[i] - x[i]), -radius, radius);
                }
            }
            tie(x2, z2);
            double fx2 = fx, fz2 = fz;
            if (x2 != x)
            {
                fx2 = o.vgrad(x2, gtmp);
            }
            if (z2 != z)
            {
                fz2 = o.value(z2);
            }
            const auto& g2 = (x2 != x) ? gtmp : gx;
            if (!finite(fx2) || !finite(fz2) || !finite(g2))
            {
                cnt.nonfinite++;
                scale = std::max(scale * 0.7, 1e-6);
                continue;
            }
            const auto pair2 = eval_pair(fx2, g2, x2, fz2, z2, o.value_floor + (o.terms ? o.terms(x2) + o.terms(z2) : 0.0));
            const auto cand  = pair2.excess(mu, o.curv_scale);
            if (cand > cur)
            {
                cnt.climb_improved++;
                if (x2 != x)
                {
                    gx = gtmp;
                }
                x = x2, z = z2, fx = fx2, fz = fz2, cur = cand, pair = pair2;
                scale = std::min(scale * 1.3, 1.0);
                if (cur > best.best)
                {
                    best.best = cur, best.x = x, best.z = z, best.pair = pair;
                }
            }
            else
            {
                scale = std::max(scale * 0.7, 1e-6);
            }
        }
    }
    return best;
}

// ---------------------------------------------------------------------------------------
// the generated material every sub-check carries
// ---------------------------------------------------------------------------------------
struct material_t
{
    double radius{1.0};
    vec_t  x, z;     // in [-1, 1]^n, scaled by radius
    vec_t  x2, z2;   // second start of the hill-climb
    vec_t  d1, d2;   // raw directions in [-1, 1]^n
    int    coord{0}; // coordinate direction e_coord
    vec_t  steps;    // hill-climbing material in [-1, 1]

    template <class A>
    void io(A& a)
    {
        a("radius", radius);
        a("x", x);
        a("z", z);
        a("x2", x2);
        a("z2", z2);
        a("d1", d1);
        a("d2", d2);
        a("coord", coord);
        a("steps", steps);
    }
};

inline rc::Gen<material_t> gen_material(size_t n, size_t nsteps, double rmin = 1e-3, double rmax = 10.0)
{
    // points: uniform in the box, or a few non-zero coordinates, or on a coarse grid (exact ties / kinks)
    const auto point = rc::gen::oneOf(
        gen::vec(n, 1.0), rc::gen::container<vec_t>(n, rc::gen::map(gen::range<int>(-4, 4), [](int k) { return k / 4.0; })),
        rc::gen::container<vec_t>(n, rc::gen::oneOf(rc::gen::just(0.0), gen::sym(1.0))));
    return rc::gen::map(
        // the bulky material is not shrunk (hundreds of reals, each shrinking bit by bit, cost O(n^2) re-checks);
        // rapidcheck still shrinks the structure around it (object, dimension, radius)
        rc::gen::tuple(gen::logu(rmin, rmax), rc::gen::noShrink(point), rc::gen::noShrink(point), rc::gen::noShrink(point),
                       rc::gen::noShrink(point), rc::gen::noShrink(gen::vec(n, 1.0)),
                       rc::gen::noShrink(rc::gen::container<vec_t>(n, rc::gen::oneOf(rc::gen::just(0.0), gen::sym(1.0)))),
                       gen::range<int>(0, static_cast<int>(n) - 1), rc::gen::noShrink(gen::vec(2 * nsteps, 1.0))),
        [](const std::tuple<double, vec_t, vec_t, vec_t, vec_t, vec_t, vec_t, int, vec_t>& t)
        {
            material_t m;
            m.radius = std::get<0>(t);
            m.x      = std::get<1>(t);
            m.z      = std::get<2>(t);
            m.x2     = std::get<3>(t);
            m.z2     = std::get<4>(t);
            m.d1     = std::get<5>(t);
            m.d2     = std::get<6>(t);
            m.coord  = std::get<7>(t);
            m.steps  = std::get<8>(t);
            return m;
        });
}

inline vec_t scaled(const vec_t& u, size_t n, double radius)
{
    vec_t x(n, 0.0);
    for (size_t i = 0; i < n && i < u.size(); ++i)
    {
        x[i] = std::clamp(u[i], -1.0, 1.0) * radius;
    }
    return x;
}

// ---------------------------------------------------------------------------------------
// all three clauses on one object
// ---------------------------------------------------------------------------------------
inline verdict_t check_object(object_t& o, const material_t& m, ctx_t& ctx, counters_t& cnt)
{
    if (o.n == 0)
    {
        return verdict_t::discard("zero-dimensional");
    }
    {
        // probes at unit distance (see object_t::value_floor)
        vec_t p(o.n, 0.0);
        for (int k = 0; k < 4; ++k)
        {
            for (size_t i = 0; i < o.n; ++i)
            {
                p[i] = k == 0 ? 0.0 : k == 1 ? 1.0 : k == 2 ? -1.0 : (i % 2 == 0 ? 1.0 : -1.0);
            }
            const auto f = o.value(p);
            if (finite(f))
            {
                o.value_floor = std::max(o.value_floor, std::fabs(f));
            }
        }
    }
    const auto radius = (m.radius > 0 && finite(m.radius)) ? m.radius : 1.0;
    const auto x      = scaled(m.x, o.n, radius);
    const auto z      = scaled(m.z, o.n, radius);
    const auto flav   = o.family + (o.smooth ? "/smooth" : "/nonsmooth");

    bool       borderline = false;
    verdict_t  known      = verdict_t::ok();

    // ---- clauses 1 and 2 at x and z -----------------------------------------------------
    std::vector<vec_t> dirs;
    dirs.push_back(unit(m.d1, o.n));
    dirs.push_back(unit(m.d2, o.n));
    {
        vec_t e(o.n, 0.0);
        e[static_cast<size_t>(std::clamp<long>(m.coord, 0, static_cast<long>(o.n) - 1))] = 1.0;
        dirs.push_back(e);
    }
    int point_index = 0;
    for (const auto* p : {&x, &z})
    {
        vec_t      g(o.n, 0.0);
        const auto fg = o.vgrad(*p, g);
        if (!finite(fg) || !finite(g))
        {
            cnt.nonfinite++;
            ctx.label("nonfinite/" + o.family);
            if (point_index == 0)
            {
                return verdict_t::discard("non-finite value or gradient at x");
            }
            ++point_index;
            continue;
        }
        if (o.joint_call)
        {
            const auto fv = o.value(*p);
            if (!same_bits(fv, fg))
            {
                return verdict_t::violation(o.where + "/value-only-vs-value+gradient",
                                            cat("n=", o.n, " value-only=", fv, " value+gradient=", fg, " diff=", fv - fg));
            }
        }
        cnt.nonzero_gradient = cnt.nonzero_gradient || norm(g) > 0.0;
        for (const auto& d : dirs)
        {
            const auto r = check_derivative(o, *p, fg, g, d);
            switch (r.kind)
            {
            case deriv_result_t::ok:
                cnt.deriv_tested++;
                ctx.label("deriv-tested/" + flav);
                ctx.maximum("derivative error/tolerance " + o.family, r.ratio);
                break;
            case deriv_result_t::skipped:
                cnt.deriv_skipped_kink++;
                ctx.label("deriv-skipped/" + flav);
                ctx.label("skip@" + o.where);
                break;
            case deriv_result_t::skipped_at_kink:
                cnt.deriv_skipped_at_kink++;
                ctx.label("deriv-skipped-at-kink/" + flav);
                break;
            case deriv_result_t::nonfinite:
                cnt.nonfinite++;
                ctx.label("nonfinite/" + o.family);
                break;
            case deriv_result_t::borderline:
                borderline = true;
                ctx.label("deriv-borderline/" + flav);
                ctx.maximum("derivative borderline ratio " + o.family, r.ratio);
                break;
            case deriv_result_t::failed: return verdict_t::violation(o.where + "/derivative", r.msg);
            }
        }
        ++point_index;
    }

    // ---- clause 3 ---------------------------------------------------------------------------
    if (o.convex)
    {
        std::vector<std::pair<vec_t, vec_t>> starts;
        starts.emplace_back(x, z);
        starts.emplace_back(scaled(m.x2, o.n, radius), scaled(m.z2, o.n, radius));
        starts.emplace_back(z, x);
        cnt.distinct_pair = x != z;

        const auto report = [&](const climb_result_t& c, double mu, const char* how) -> verdict_t
        {
            return verdict_t::violation(
                o.where + how,
                cat("n=", o.n, " mu=", mu, " f(x)=", c.pair.fx, " f(z)=", c.pair.fz, " g.(z-x)=", c.pair.lin, " |z-x|^2=", c.pair.quad2,
                    " deficit=", c.pair.deficit(mu), " tol=", 1e3 * eps * c.pair.magnitude(mu, o.curv_scale), " |x|=", norm(c.x),
                    " |z|=", norm(c.z)));
        };

        const bool has_bias = o.bias_begin >= 0 && o.mu > 0.0;
        // plain convexity (also the only run when mu == 0)
        if (o.mu <= 0.0 || has_bias)
        {
            const auto c = climb(o, 0.0, radius, starts, m.steps, false, cnt);
            if (c.any)
            {
                ctx.maximum("convexity excess (tol units) " + o.family, c.best);
                if (c.best > 10.0)
                {
                    return report(c, 0.0, "/convexity");
                }
                borderline = borderline || c.best > 1.0;
            }
        }
        if (has_bias)
        {
            // declared mu on weight-block directions: must hold
            const auto c = climb(o, o.mu, radius, starts, m.steps, true, cnt);
            if (c.any)
            {
                ctx.maximum("strong-convexity excess on weight-block directions (tol units) " + o.family, c.best);
                if (c.best > 10.0)
                {
                    return report(c, o.mu, "/strong-convexity/weight-block");
                }
                borderline = borderline || c.best > 1.0;
            }
        }
        if (o.mu > 0.0)
        {
            const auto c = climb(o, o.mu, radius, starts, m.steps, false, cnt);
            if (c.any)
            {
                ctx.maximum("strong-convexity excess (tol units) " + o.family, c.best);
                if (c.best > 10.0)
                {
                    if (has_bias)
                    {
                        // mechanism predicate of F4: holds with mu = 0 and holds with mu when z - x has no bias component
                        const bool plain_ok = c.pair.excess(0.0, o.curv_scale) <= 10.0;
                        vec_t      zt       = c.z;
                        for (long i = o.bias_begin; i < o.bias_end; ++i)
                        {
                            zt[static_cast<size_t>(i)] = c.x[static_cast<size_t>(i)];
                        }
                        vec_t      g(o.n, 0.0);
                        const auto fx = o.vgrad(c.x, g);
                        const auto fz = o.value(zt);
                        const auto pt = eval_pair(fx, g, c.x, fz, zt, o.value_floor + (o.terms ? o.terms(c.x) + o.terms(zt) : 0.0));
                        const bool weight_ok = pt.finite && pt.excess(o.mu, o.curv_scale) <= 10.0;
                        bool       bias_moved = false;
                        for (long i = o.bias_begin; i < o.bias_end; ++i)
                        {
                            bias_moved = bias_moved || c.z[static_cast<size_t>(i)] != c.x[static_cast<size_t>(i)];
                        }
                        if (plain_ok && weight_ok && bias_moved)
                        {
                            known = verdict_t::known(
                                o.known_sig,
                                cat("n=", o.n, " mu=", o.mu, " f(x)=", c.pair.fx, " f(z)=", c.pair.fz, " claimed lower bound=",
                                    c.pair.fx + c.pair.lin + 0.5 * o.mu * c.pair.quad2, " plain-convexity bound=", c.pair.fx + c.pair.lin));
                        }
                        else
                        {
                            return report(c, o.mu, "/strong-convexity");
                        }
                    }
                    else
                    {
                        return report(c, o.mu, "/strong-convexity");
                    }
                }
                else
                {
                    borderline = borderline || c.best > 1.0;
                }
            }
        }
    }

    ctx.label("dims/" + std::string(o.n == 1 ? "1" : o.n == 2 ? "2" : o.n <= 4 ? "3-4" : o.n <= 8 ? "5-8" : o.n <= 16 ? "9-16" : "17+"));
    ctx.label_if(radius < 1e-2, "radius<1e-2");
    ctx.label_if(radius > 1.0, "radius>1");
    ctx.label_if(o.convex, "declares-convex");
    ctx.label_if(o.mu > 0, "declares-strong-convexity");
    ctx.nontrivial = cnt.nonzero_gradient && cnt.deriv_tested > 0 && (!o.convex || cnt.distinct_pair);

    if (known.kind == kind_t::known)
    {
        return known;
    }
    if (borderline)
    {
        return verdict_t::borderline(o.where);
    }
    return verdict_t::ok();
}
} // namespace c06
