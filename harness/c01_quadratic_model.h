// Generated strongly convex quadratics with analytic ground truth, shared by the C01 and C07 harnesses:
//   f(x) = 0.5 x'Ax + a'x,  A = s*Q*diag(kappa^e_i)*Q' (Q from the Householder QR of a generated matrix), a = -A x*.
// The specification (plain data) is part of the serialised case; everything else is rebuilt from it deterministically.
#pragma once

#include "common.h"

#include <nano/function.h>

namespace verif::quadratic
{
using ld             = long double;
constexpr double eps = std::numeric_limits<double>::epsilon();

// ---- generated quadratic: 0.5 x'Ax + a'x, A = s*Q*diag(kappa^e_i)*Q', a = -A x* --------------------------
struct spec_t
{
    int                 n{1};
    double              kappa{1.0}; // condition number
    double              s{1.0};     // curvature scale = smallest eigenvalue
    int                 layout{0};  // 0 geometric, 1 clustered at both ends, 2 random (exponents from `u`)
    std::vector<double> gauss;      // n*n entries: Q = orthogonal factor of the Householder QR of this matrix
    std::vector<double> u;          // n reals in [0,1]
    std::vector<double> xstar;      // minimiser

    template <class A>
    void io_spec(A& a)
    {
        a("n", n);
        a("kappa", kappa);
        a("s", s);
        a("layout", layout);
        a("gauss", gauss);
        a("u", u);
        a("xstar", xstar);
    }
};

struct built_t
{
    int                 n{0};
    std::vector<double> A;     // row major, exactly symmetric
    std::vector<double> a;     // -A*xstar rounded to double
    std::vector<ld>     xref;  // minimiser of the rounded (A, a) (first-order corrected for the rounding of a)
    double              lmin{0}, lmax{0};
    double              kappa_eff{1};
};

// returns an empty string when the specification is inside the domain
inline std::string spec_domain(const spec_t& c, double max_kappa)
{
    const auto n = static_cast<size_t>(c.n);
    if (c.n < 1 || c.n > 16)
    {
        return "n-out-of-domain";
    }
    if (!(c.kappa >= 1.0 && c.kappa <= max_kappa) || !(c.s >= 1e-3 && c.s <= 1e3))
    {
        return "spectrum-out-of-domain";
    }
    if (c.layout < 0 || c.layout > 2 || c.gauss.size() != n * n || c.u.size() != n || c.xstar.size() != n)
    {
        return "malformed-specification";
    }
    for (const auto v : c.gauss)
    {
        if (!std::isfinite(v) || std::fabs(v) > 1e3)
        {
            return "malformed-specification";
        }
    }
    for (const auto v : c.u)
    {
        if (!(v >= 0.0 && v <= 1.0))
        {
            return "malformed-specification";
        }
    }
    for (const auto v : c.xstar)
    {
        if (!(std::fabs(v) <= 5.0))
        {
            return "minimiser-out-of-domain";
        }
    }
    return {};
}

inline built_t build(const spec_t& c)
{
    const int n = c.n;
    const auto at = [n](int i, int j) { return static_cast<size_t>(i) * static_cast<size_t>(n) + static_cast<size_t>(j); };

    // Householder QR (long double): Q = H_0 H_1 ... H_{n-2}; a degenerate column leaves H_k = I
    std::vector<ld> G(c.gauss.begin(), c.gauss.end());
    std::vector<ld> Q(static_cast<size_t>(n) * static_cast<size_t>(n), 0.0L);
    for (int i = 0; i < n; ++i)
    {
        Q[at(i, i)] = 1.0L;
    }
    std::vector<ld> v(static_cast<size_t>(n));
    for (int k = 0; k + 1 < n; ++k)
    {
        ld norm2 = 0.0L;
        for (int i = k; i < n; ++i)
        {
            norm2 += G[at(i, k)] * G[at(i, k)];
        }
        const ld norm = std::sqrt(norm2);
        if (!(norm > 0.0L))
        {
            continue;
        }
        const ld alpha = G[at(k, k)] >= 0.0L ? -norm : norm;
        ld       vn2   = 0.0L;
        for (int i = k; i < n; ++i)
        {
            v[static_cast<size_t>(i)] = G[at(i, k)] - (i == k ? alpha : 0.0L);
            vn2 += v[static_cast<size_t>(i)] * v[static_cast<size_t>(i)];
        }
        if (!(vn2 > 0.0L))
        {
            continue;
        }
        for (int j = k; j < n; ++j) // G <- H G
        {
            ld dot = 0.0L;
            for (int i = k; i < n; ++i)
            {
                dot += v[static_cast<size_t>(i)] * G[at(i, j)];
            }
            const ld f = 2.0L * dot / vn2;
            for (int i = k; i < n; ++i)
            {
                G[at(i, j)] -= f * v[static_cast<size_t>(i)];
            }
        }
        for (int i = 0; i < n; ++i) // Q <- Q H
        {
            ld dot = 0.0L;
            for (int j = k; j < n; ++j)
            {
                dot += Q[at(i, j)] * v[static_cast<size_t>(j)];
            }
            const ld f = 2.0L * dot / vn2;
            for (int j = k; j < n; ++j)
            {
                Q[at(i, j)] -= f * v[static_cast<size_t>(j)];
            }
        }
    }

    // spectrum: s * kappa^e, e_0 = 0, e_{n-1} = 1
    std::vector<ld> d(static_cast<size_t>(n));
    for (int i = 0; i < n; ++i)
    {
        ld e = 0.0L;
        if (n > 1)
        {
            const ld ui = c.u[static_cast<size_t>(i)];
            switch (c.layout)
            {
            case 0: e = static_cast<ld>(i) / static_cast<ld>(n - 1); break;
            case 1: e = (2 * i < n) ? 0.03L * ui : 1.0L - 0.03L * ui; break;
            default: e = ui; break;
            }
            if (i == 0)
            {
                e = 0.0L;
            }
            if (i == n - 1)
            {
                e = 1.0L;
            }
        }
        d[static_cast<size_t>(i)] = static_cast<ld>(c.s) * std::pow(static_cast<ld>(c.kappa), e);
    }

    built_t b;
    b.n = n;
    b.A.resize(static_cast<size_t>(n) * static_cast<size_t>(n));
    for (int i = 0; i < n; ++i)
    {
        for (int j = i; j < n; ++j)
        {
            ld sum = 0.0L;
            for (int k = 0; k < n; ++k)
            {
                sum += Q[at(i, k)] * d[static_cast<size_t>(k)] * Q[at(j, k)];
            }
            b.A[at(i, j)] = b.A[at(j, i)] = static_cast<double>(sum);
        }
    }
    b.a.resize(static_cast<size_t>(n));
    std::vector<ld> da(static_cast<size_t>(n)); // rounding of a
    for (int i = 0; i < n; ++i)
    {
        ld sum = 0.0L;
        for (int j = 0; j < n; ++j)
        {
            sum -= static_cast<ld>(b.A[at(i, j)]) * static_cast<ld>(c.xstar[static_cast<size_t>(j)]);
        }
        b.a[static_cast<size_t>(i)] = static_cast<double>(sum);
        da[static_cast<size_t>(i)]  = static_cast<ld>(b.a[static_cast<size_t>(i)]) - sum;
    }
    // minimiser of the rounded problem: x* - A^{-1} da, A^{-1} ~ Q diag(1/d) Q'
    b.xref.assign(c.xstar.begin(), c.xstar.end());
    for (int k = 0; k < n; ++k)
    {
        ld proj = 0.0L;
        for (int j = 0; j < n; ++j)
        {
            proj += Q[at(j, k)] * da[static_cast<size_t>(j)];
        }
        for (int i = 0; i < n; ++i)
        {
            b.xref[static_cast<size_t>(i)] -= Q[at(i, k)] * proj / d[static_cast<size_t>(k)];
        }
    }
    b.lmin      = c.s;
    b.lmax      = static_cast<double>(d[static_cast<size_t>(n - 1)]);
    b.kappa_eff = n > 1 ? c.kappa : 1.0;
    return b;
}

// the objective handed to the solver: plain double arithmetic, own evaluation counters
class quadratic_fn_t final : public nano::function_t
{
public:
    explicit quadratic_fn_t(const built_t& b)
        : nano::function_t("verif-quadratic", b.n)
        , m_A(b.n, b.n)
        , m_a(b.n)
    {
        for (int i = 0; i < b.n; ++i)
        {
            m_a(i) = b.a[static_cast<size_t>(i)];
            for (int j = 0; j < b.n; ++j)
            {
                m_A(i, j) = b.A[static_cast<size_t>(i) * static_cast<size_t>(b.n) + static_cast<size_t>(j)];
            }
        }
        convex(nano::convexity::yes);
        smooth(nano::smoothness::yes);
    }

    nano::rfunction_t clone() const override { return std::make_unique<quadratic_fn_t>(*this); }

    nano::scalar_t do_vgrad(nano::vector_cmap_t x, nano::vector_map_t gx) const override
    {
        ++m_fevals;
        m_Ax.noalias() = m_A * x.vector();
        if (gx.size() == x.size())
        {
            ++m_gevals;
            gx.vector() = m_Ax + m_a;
        }
        return 0.5 * x.vector().dot(m_Ax) + x.vector().dot(m_a);
    }

    long fevals() const { return m_fevals; }

    long gevals() const { return m_gevals; }

private:
    Eigen::MatrixXd         m_A;
    Eigen::VectorXd         m_a;
    mutable Eigen::VectorXd m_Ax;
    mutable long            m_fevals{0};
    mutable long            m_gevals{0};
};

inline ld value_ld(const built_t& b, const nano::vector_t& x)
{
    const auto n   = static_cast<size_t>(b.n);
    ld         sum = 0.0L;
    for (size_t i = 0; i < n; ++i)
    {
        ld row = 0.0L;
        for (size_t j = 0; j < n; ++j)
        {
            row += static_cast<ld>(b.A[i * n + j]) * static_cast<ld>(x(static_cast<nano::tensor_size_t>(j)));
        }
        sum += static_cast<ld>(x(static_cast<nano::tensor_size_t>(i))) * (0.5L * row + static_cast<ld>(b.a[i]));
    }
    return sum;
}

inline nano::vector_t to_vector(const std::vector<double>& v)
{
    nano::vector_t x(static_cast<nano::tensor_size_t>(v.size()));
    for (size_t i = 0; i < v.size(); ++i)
    {
        x(static_cast<nano::tensor_size_t>(i)) = v[i];
    }
    return x;
}

// fills the quadratic specification; `max_log10_kappa` = 3 inside the domain of part A;
// `hard_percent` of the specifications come from the region that costs the solvers most evaluations
// (measured: n >= 12, kappa at its maximum for L-BFGS, curvature scale 1e-3 for BFGS)
inline void gen_spec(spec_t& c, double max_log10_kappa, int hard_percent = 0)
{
    const bool hard = hard_percent > 0 && *gen::chance(hard_percent);
    // dimensions: all of 1..16, extra mass on the ends
    c.n = hard ? *gen::range<int>(12, 16)
               : *rc::gen::oneOf(gen::range<int>(1, 16), gen::range<int>(1, 16), gen::range<int>(9, 16), rc::gen::element(1, 2, 3, 16));
    // kappa: 30 % exactly the maximum, 5 % exactly 1, the rest log-uniform
    const int kk = hard ? *gen::range<int>(0, 7) : *gen::range<int>(0, 19);
    c.kappa      = kk < 6 ? std::pow(10.0, max_log10_kappa) : kk == 6 ? 1.0 : std::pow(10.0, *gen::real(0.0, max_log10_kappa));
    // s: 10 % on each end
    const int sk = hard ? *gen::range<int>(-4, 3) : *gen::range<int>(0, 9);
    c.s          = sk <= 0 ? 1e-3 : sk == 1 ? 1e3 : std::pow(10.0, *gen::real(-3.0, 3.0));
    c.s          = std::min(1e3, std::max(1e-3, c.s));
    c.kappa      = std::min(std::pow(10.0, max_log10_kappa), std::max(1.0, c.kappa));
    c.layout     = *gen::range<int>(0, 2);
    const auto n = static_cast<size_t>(c.n);
    // not shrunk entry by entry (n shrinks): hundreds of independently shrinkable reals make rapidcheck's shrinking quadratic
    c.gauss      = *rc::gen::noShrink(rc::gen::container<std::vector<double>>(n * n, gen::normal()));
    c.u          = *rc::gen::container<std::vector<double>>(n, gen::real(0.0, 1.0));
    // minimiser: anywhere in the box, on its corners, or (rarely) the origin
    const int xs = *gen::range<int>(0, 9);
    if (xs == 0)
    {
        c.xstar = *rc::gen::container<std::vector<double>>(n, rc::gen::element(-5.0, 5.0));
    }
    else if (xs == 1)
    {
        c.xstar.assign(n, 0.0);
    }
    else if (xs == 2)
    {
        // close to, but not at the origin: f(x*) is tiny, so the stopping rule is effectively absolute
        c.xstar = *gen::vec(n, *rc::gen::element(5e-2, 5e-3, 5e-4));
    }
    else
    {
        c.xstar = *gen::vec(n, 5.0);
    }
}
} // namespace verif::quadratic
