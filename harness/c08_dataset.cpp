// C08 — all dataset views agree with the stored feature values, incl. missing ones
// (DESIGN.md section 5, C08).  Reference model = the generated data_spec_t (dataset_gen.h).
#include "common.h"
#include "dataset_gen.h"

#include <nano/core/verif.h>
#include <nano/dataset.h>
#include <nano/dataset/iterator.h>
#include <nano/generator/elemwise_gradient.h>
#include <nano/generator/elemwise_identity.h>
#include <nano/generator/pairwise_product.h>

using namespace verif;
using namespace verif::ds;
using nano::indices_t;
using nano::scalar_t;

namespace
{
constexpr double sentinel = 777.25; // written into every buffer before a view is requested

enum gkind
{
    g_sclass = 0,
    g_mclass,
    g_scalar,
    g_struct,
    g_product,
    g_gradient
};

enum opkind
{
    op_query = 0,
    op_drop,
    op_undrop,
    op_shuffle,
    op_unshuffle,
    op_invalid
};

struct case_t
{
    data_spec_t                   data;
    int                           threads{1};
    uint64_t                      rng{1};
    std::vector<int>              gen_kind;
    std::vector<int>              gen_subset_mode; // 0: all features, 1: one explicit subset, 2: two explicit subsets (product)
    std::vector<std::vector<int>> gen_subset1;
    std::vector<std::vector<int>> gen_subset2;
    std::vector<int>              gen_kernel;
    std::vector<std::vector<int>> lists; // valid sample index lists
    std::vector<int>              op_kind;
    std::vector<int>              op_arg;
    std::vector<int>              op_arg2;

    template <class A>
    void io(A& a)
    {
        data.io(a);
        a("threads", threads);
        a("rng", rng);
        a("gen_kind", gen_kind);
        a("gen_subset_mode", gen_subset_mode);
        a("gen_subset1", gen_subset1);
        a("gen_subset2", gen_subset2);
        a("gen_kernel", gen_kernel);
        a("lists", lists);
        a("op_kind", op_kind);
        a("op_arg", op_arg);
        a("op_arg2", op_arg2);
    }
};

// ---------------------------------------------------------------------------------------
// generator
// ---------------------------------------------------------------------------------------
rc::Gen<std::vector<int>> gen_list(int n)
{
    // styles: random with repeats, all ascending, reversed, all equal, containing N-1, single, long with repeats
    return rc::gen::mapcat(gen::range<int>(0, 6),
                           [n](int style) -> rc::Gen<std::vector<int>>
                           {
                               std::vector<int> all(static_cast<size_t>(n));
                               for (int i = 0; i < n; ++i)
                               {
                                   all[static_cast<size_t>(i)] = i;
                               }
                               switch (style)
                               {
                               case 0:
                                   return rc::gen::mapcat(gen::range<int>(1, std::max(1, 2 * n)),
                                                          [n](int len)
                                                          { return rc::gen::container<std::vector<int>>(static_cast<size_t>(len), gen::range<int>(0, n - 1)); });
                               case 1: return rc::gen::just(all);
                               case 2: std::reverse(all.begin(), all.end()); return rc::gen::just(all);
                               case 3: return rc::gen::map(gen::range<int>(0, n - 1), [](int v) { return std::vector<int>(3, v); });
                               case 4:
                                   return rc::gen::map(rc::gen::container<std::vector<int>>(3, gen::range<int>(0, n - 1)),
                                                       [n](std::vector<int> v)
                                                       {
                                                           v.push_back(n - 1);
                                                           v.push_back(0);
                                                           return v;
                                                       });
                               case 5: return rc::gen::map(gen::range<int>(0, n - 1), [](int v) { return std::vector<int>(1, v); });
                               default:
                                   return rc::gen::container<std::vector<int>>(static_cast<size_t>(std::min(3 * n, 40)), gen::range<int>(0, n - 1));
                               }
                           });
}

rc::Gen<case_t> gen_case()
{
    gen_options_t o;
    o.max_samples = 66;
    o.max_inputs  = 9;
    o.big_classes = false;
    return rc::gen::mapcat(
        rc::gen::pair(gen::chance(25), gen::chance(10)),
        [o](const std::pair<bool, bool>& flags)
        {
            auto oo        = o;
            oo.big_classes = flags.first;
            if (flags.second)
            {
                oo.max_samples = 200;
                oo.max_inputs  = 12;
            }
            return rc::gen::mapcat(
                gen_data(oo),
                [](const data_spec_t& data)
                {
                    const int ninputs = static_cast<int>(data.inputs().size());
                    const int n       = data.samples;
                    // generator stack: 1..5 generators
                    const auto subset = rc::gen::mapcat(gen::range<int>(1, std::max(1, ninputs)),
                                                        [ninputs](int len)
                                                        {
                                                            return rc::gen::map(
                                                                rc::gen::container<std::vector<int>>(static_cast<size_t>(len), gen::range<int>(0, ninputs - 1)),
                                                                [](std::vector<int> v)
                                                                {
                                                                    // distinct, any order
                                                                    std::vector<int> r;
                                                                    for (const auto x : v)
                                                                    {
                                                                        if (std::find(r.begin(), r.end(), x) == r.end())
                                                                        {
                                                                            r.push_back(x);
                                                                        }
                                                                    }
                                                                    return r;
                                                                });
                                                        });
                    const auto one_gen = rc::gen::tuple(gen::range<int>(0, 5), rc::gen::element(0, 0, 1, 2), subset, subset, gen::range<int>(0, 2));
                    const auto ops     = rc::gen::mapcat(gen::range<int>(1, 12),
                                                         [](int len)
                                                         {
                                                             return rc::gen::container<std::vector<std::tuple<int, int, int>>>(
                                                                 static_cast<size_t>(len),
                                                                 rc::gen::tuple(rc::gen::element(0, 0, 0, 1, 1, 2, 3, 3, 4, 5), gen::range<int>(0, 1000), gen::range<int>(0, 1000)));
                                                         });
                    return rc::gen::map(
                        rc::gen::tuple(rc::gen::mapcat(gen::range<int>(1, 5),
                                                       [one_gen](int k) { return rc::gen::container<std::vector<std::tuple<int, int, std::vector<int>, std::vector<int>, int>>>(static_cast<size_t>(k), one_gen); }),
                                       rc::gen::container<std::vector<std::vector<int>>>(3, gen_list(n)), ops, gen::range<int>(1, 16),
                                       gen::range<uint64_t>(1, 1000000)),
                        [data](const auto& t)
                        {
                            case_t c;
                            c.data = data;
                            for (const auto& g : std::get<0>(t))
                            {
                                c.gen_kind.push_back(std::get<0>(g));
                                c.gen_subset_mode.push_back(std::get<1>(g));
                                c.gen_subset1.push_back(std::get<2>(g));
                                c.gen_subset2.push_back(std::get<3>(g));
                                c.gen_kernel.push_back(std::get<4>(g));
                            }
                            c.lists = std::get<1>(t);
                            for (const auto& op : std::get<2>(t))
                            {
                                c.op_kind.push_back(std::get<0>(op));
                                c.op_arg.push_back(std::get<1>(op));
                                c.op_arg2.push_back(std::get<2>(op));
                            }
                            // always finish with a query
                            c.op_kind.push_back(op_query);
                            c.op_arg.push_back(0);
                            c.op_arg2.push_back(0);
                            c.threads = std::get<3>(t);
                            c.rng     = std::get<4>(t);
                            return c;
                        });
                });
        });
}

// ---------------------------------------------------------------------------------------
// reference model
// ---------------------------------------------------------------------------------------
struct mfeat_t
{
    int  kind{g_scalar}; // generated kind: g_sclass, g_mclass, g_scalar, g_struct
    int  src1{0}, src2{0}; // total feature indices in the data spec
    bool product{false}, gradient{false};
    int  channel{0}, mode{0}, kernel{0};
    int  classes{0};
    int  d0{1}, d1{1}, d2{1};
    int  gen{0};

    int width() const { return kind == g_sclass ? 1 : kind == g_mclass ? classes : d0 * d1 * d2; }

    int columns() const { return kind == g_sclass ? classes - 1 : width(); }
};

struct value_t
{
    bool   given{false};
    double v{0.0};
};

double kernel_value(int kernel, int i)
{
    static const double k[3][3] = {{1.0 / 4.0, 2.0 / 4.0, 1.0 / 4.0}, {3.0 / 16.0, 10.0 / 16.0, 3.0 / 16.0}, {1.0 / 3.0, 1.0 / 3.0, 1.0 / 3.0}};
    return k[kernel][i];
}

// component k of model feature mf for (original) sample s
value_t model_value(const data_spec_t& d, const mfeat_t& mf, int s, int k)
{
    if (mf.product)
    {
        if (!d.given(mf.src1, s) || !d.given(mf.src2, s))
        {
            return {};
        }
        return {true, d.stored(mf.src1, s, 0) * d.stored(mf.src2, s, 0)};
    }
    if (!d.given(mf.src1, s))
    {
        return {};
    }
    if (mf.gradient)
    {
        const auto src  = d.spec(mf.src1);
        const int  rows = src.d1, cols = src.d2;
        const int  orow = k / (cols - 2), ocol = k % (cols - 2);
        const auto in = [&](int r, int c) { return d.stored(mf.src1, s, (mf.channel * rows + r) * cols + c); };
        const auto k0 = kernel_value(mf.kernel, 0), k1 = kernel_value(mf.kernel, 1), k2 = kernel_value(mf.kernel, 2);
        const auto gx = k0 * (in(orow, ocol + 2) - in(orow, ocol)) + k1 * (in(orow + 1, ocol + 2) - in(orow + 1, ocol)) +
                        k2 * (in(orow + 2, ocol + 2) - in(orow + 2, ocol));
        const auto gy = k0 * (in(orow + 2, ocol) - in(orow, ocol)) + k1 * (in(orow + 2, ocol + 1) - in(orow, ocol + 1)) +
                        k2 * (in(orow + 2, ocol + 2) - in(orow, ocol + 2));
        switch (mf.mode)
        {
        case 0: return {true, gx};
        case 1: return {true, gy};
        case 2: return {true, std::sqrt(gx * gx + gy * gy)};
        default: return {true, std::atan2(gy, gx)};
        }
    }
    return {true, d.stored(mf.src1, s, k)};
}

bool close(const mfeat_t& mf, double got, double want)
{
    if (std::isnan(want) || std::isnan(got))
    {
        return std::isnan(want) && std::isnan(got);
    }
    if (got == want)
    {
        return true;
    }
    if (mf.product)
    {
        return std::fabs(got - want) <= 4 * std::numeric_limits<double>::epsilon() * std::fabs(want);
    }
    if (mf.gradient)
    {
        const auto tol = 1e-9 * (1.0 + std::fabs(want));
        if (mf.mode == 3)
        {
            const auto diff = std::fabs(got - want);
            return diff <= 1e-6 || std::fabs(diff - 2.0 * 3.141592653589793) <= 1e-6; // branch cut of atan2
        }
        return std::fabs(got - want) <= tol;
    }
    return false;
}

enum fstate
{
    st_normal,
    st_dropped,
    st_shuffled,
    st_maybe_shuffled, // shuffled, then undrop(): original or permuted view (DESIGN.md 4.3)
    st_maybe_dropped   // dropped, then unshuffle(): original or dropped view
};

struct fstatus_t
{
    fstate           state{st_normal};
    std::vector<int> perm;
};

// candidate sample maps of a feature: each maps a requested sample to a source sample (-1: missing)
std::vector<std::vector<int>> candidates(const fstatus_t& st, const std::vector<int>& list)
{
    std::vector<std::vector<int>> r;
    const auto                    ident = list;
    std::vector<int>              none(list.size(), -1);
    std::vector<int>              permuted(list.size());
    if (!st.perm.empty())
    {
        for (size_t i = 0; i < list.size(); ++i)
        {
            permuted[i] = st.perm[static_cast<size_t>(list[i])];
        }
    }
    switch (st.state)
    {
    case st_normal: r = {ident}; break;
    case st_dropped: r = {none}; break;
    case st_shuffled: r = {permuted}; break;
    case st_maybe_shuffled: r = {ident, permuted}; break;
    default: r = {ident, none}; break;
    }
    return r;
}

indices_t to_indices(const std::vector<int>& v)
{
    indices_t t(static_cast<nano::tensor_size_t>(v.size()));
    for (size_t i = 0; i < v.size(); ++i)
    {
        t(static_cast<nano::tensor_size_t>(i)) = v[i];
    }
    return t;
}

template <class top>
bool throws(const top& op)
{
    try
    {
        op();
    }
    catch (const std::exception&)
    {
        return true;
    }
    return false;
}

// builds the generator stack of the case on `dataset` and returns its reference model (one entry per generated feature)
std::vector<mfeat_t> build_stack(const case_t& c, const std::vector<int>& inputs, nano::dataset_t& dataset)
{
    const auto&          d = c.data;
    std::vector<mfeat_t> model;
    const auto           kind_of = [&](int input) { return d.spec(inputs[static_cast<size_t>(input)]); };
    for (size_t g = 0; g < c.gen_kind.size(); ++g)
    {
        const bool subset = c.gen_subset_mode[g] >= 1;
        auto       s1 = c.gen_subset1[g], s2 = c.gen_subset2[g];
        for (auto& v : {&s1, &s2})
        {
            for (auto& x : *v)
            {
                x = std::max(0, std::min(static_cast<int>(inputs.size()) - 1, x));
            }
        }
        std::vector<int> all;
        for (int i = 0; i < static_cast<int>(inputs.size()); ++i)
        {
            all.push_back(i);
        }
        const auto& f1 = (subset && !s1.empty()) ? s1 : all;
        const auto& f2 = (c.gen_subset_mode[g] == 2 && !s2.empty()) ? s2 : all;
        const bool  explicit1 = subset && !s1.empty();
        const bool  explicit2 = c.gen_subset_mode[g] == 2 && !s2.empty();

        const auto gen = static_cast<int>(g);
        switch (c.gen_kind[g])
        {
        case g_sclass:
        case g_mclass:
        case g_scalar:
        case g_struct:
        {
            for (const auto i : f1)
            {
                const auto s  = kind_of(i);
                const bool ok = (c.gen_kind[g] == g_sclass && s.is_sclass()) || (c.gen_kind[g] == g_mclass && s.is_mclass()) ||
                                (c.gen_kind[g] == g_scalar && s.is_scalar()) || (c.gen_kind[g] == g_struct && s.is_struct());
                if (ok)
                {
                    mfeat_t mf;
                    mf.kind    = c.gen_kind[g];
                    mf.src1    = inputs[static_cast<size_t>(i)];
                    mf.classes = s.classes;
                    mf.d0      = s.d0;
                    mf.d1      = s.d1;
                    mf.d2      = s.d2;
                    mf.gen     = gen;
                    model.push_back(mf);
                }
            }
            const auto idx = explicit1 ? to_indices(f1) : indices_t{};
            switch (c.gen_kind[g])
            {
            case g_sclass: explicit1 ? dataset.add<nano::sclass_identity_generator_t>(idx) : dataset.add<nano::sclass_identity_generator_t>(); break;
            case g_mclass: explicit1 ? dataset.add<nano::mclass_identity_generator_t>(idx) : dataset.add<nano::mclass_identity_generator_t>(); break;
            case g_scalar: explicit1 ? dataset.add<nano::scalar_identity_generator_t>(idx) : dataset.add<nano::scalar_identity_generator_t>(); break;
            default: explicit1 ? dataset.add<nano::struct_identity_generator_t>(idx) : dataset.add<nano::struct_identity_generator_t>(); break;
            }
            break;
        }
        case g_product:
        {
            // unique unordered pairs of scalar features (squares included), ordered by (min, max)
            std::set<std::pair<int, int>> pairs;
            const bool                    two_lists = explicit1 && explicit2;
            const auto&                   p2        = two_lists ? f2 : f1; // one list: pairs within the list
            for (const auto a : f1)
            {
                for (const auto b : p2)
                {
                    if (kind_of(a).is_scalar() && kind_of(b).is_scalar())
                    {
                        pairs.insert({std::min(a, b), std::max(a, b)});
                    }
                }
            }
            for (const auto& p : pairs)
            {
                mfeat_t mf;
                mf.kind    = g_scalar;
                mf.product = true;
                mf.src1    = inputs[static_cast<size_t>(p.first)];
                mf.src2    = inputs[static_cast<size_t>(p.second)];
                mf.gen     = gen;
                model.push_back(mf);
            }
            if (two_lists)
            {
                dataset.add<nano::pairwise_product_generator_t>(to_indices(f1), to_indices(f2));
            }
            else if (explicit1)
            {
                dataset.add<nano::pairwise_product_generator_t>(to_indices(f1));
            }
            else
            {
                dataset.add<nano::pairwise_product_generator_t>();
            }
            break;
        }
        default:
        {
            for (const auto i : f1)
            {
                const auto s = kind_of(i);
                if (s.is_struct() && s.d1 >= 3 && s.d2 >= 3)
                {
                    for (int channel = 0; channel < s.d0; ++channel)
                    {
                        for (int mode = 0; mode < 4; ++mode)
                        {
                            mfeat_t mf;
                            mf.kind     = g_struct;
                            mf.gradient = true;
                            mf.src1     = inputs[static_cast<size_t>(i)];
                            mf.channel  = channel;
                            mf.mode     = mode;
                            mf.kernel   = c.gen_kernel[g];
                            mf.d0       = 1;
                            mf.d1       = s.d1 - 2;
                            mf.d2       = s.d2 - 2;
                            mf.gen      = gen;
                            model.push_back(mf);
                        }
                    }
                }
            }
            const auto kernel = static_cast<nano::kernel3x3_type>(c.gen_kernel[g]);
            explicit1 ? dataset.add<nano::gradient_generator_t>(kernel, to_indices(f1)) : dataset.add<nano::gradient_generator_t>(kernel);
            break;
        }
        }
    }

    return model;
}

// ---------------------------------------------------------------------------------------
// the check
// ---------------------------------------------------------------------------------------
verdict_t check_case(const case_t& c, ctx_t& ctx)
{
    const auto& d = c.data;
    if (!d.valid() || c.lists.empty() || c.gen_kind.empty())
    {
        return verdict_t::discard("malformed-case");
    }
    for (const auto& l : c.lists)
    {
        if (l.empty())
        {
            return verdict_t::discard("empty-sample-list");
        }
        for (const auto s : l)
        {
            if (s < 0 || s >= d.samples)
            {
                return verdict_t::discard("sample-list-out-of-range");
            }
        }
    }
    nano::verif::rng_state().store(c.rng * 2 + 1);

    const auto inputs = d.inputs();
    const auto source = make_datasource(d);
    if (source->samples() != d.samples || source->features() != static_cast<nano::tensor_size_t>(inputs.size()))
    {
        return verdict_t::violation("C08/datasource/shape", cat("samples=", source->samples(), " features=", source->features()));
    }
    auto dataset = nano::dataset_t{*source, static_cast<size_t>(c.threads)};

    // -- build the generator stack and its model -------------------------------------------
    const auto model = build_stack(c, inputs, dataset);
    // -- bookkeeping ---------------------------------------------------------------------------
    const auto nfeat = static_cast<int>(model.size());
    if (dataset.features() != nfeat)
    {
        return verdict_t::violation("C08/bookkeeping/features", cat("features()=", dataset.features(), " model=", nfeat));
    }
    int              ncols = 0;
    std::vector<int> col_begin;
    for (const auto& mf : model)
    {
        col_begin.push_back(ncols);
        ncols += mf.columns();
    }
    if (dataset.columns() != ncols)
    {
        return verdict_t::violation("C08/bookkeeping/columns", cat("columns()=", dataset.columns(), " model=", ncols));
    }
    for (int j = 0; j < nfeat; ++j)
    {
        for (int k = 0; k < model[static_cast<size_t>(j)].columns(); ++k)
        {
            if (dataset.column2feature(col_begin[static_cast<size_t>(j)] + k) != j)
            {
                return verdict_t::violation("C08/bookkeeping/column2feature",
                                            cat("column ", col_begin[static_cast<size_t>(j)] + k, " -> ", dataset.column2feature(col_begin[static_cast<size_t>(j)] + k), " model ", j));
            }
        }
    }
    for (int j = 0; j < nfeat; ++j)
    {
        const auto& mf   = model[static_cast<size_t>(j)];
        const auto  feat = dataset.feature(j);
        bool        ok   = true;
        if (!mf.product && !mf.gradient)
        {
            int input = 0;
            for (size_t i = 0; i < inputs.size(); ++i)
            {
                if (inputs[i] == mf.src1)
                {
                    input = static_cast<int>(i);
                }
            }
            ok = feat == source->feature(input) && feat.name() == cat("f", mf.src1);
            const auto s = d.spec(mf.src1);
            ok = ok && static_cast<int>(feat.type()) == s.type && (s.is_continuous() ? feat.dims() == nano::make_dims(s.d0, s.d1, s.d2) : feat.classes() == s.classes);
        }
        else if (mf.product)
        {
            // the two sources may be named in either order (the product is commutative)
            ok = feat.type() == nano::feature_type::float64 && feat.dims() == nano::make_dims(1, 1, 1) &&
                 (feat.name() == cat("product(f", mf.src1, ",f", mf.src2, ")") || feat.name() == cat("product(f", mf.src2, ",f", mf.src1, ")"));
        }
        else
        {
            ok = feat.type() == nano::feature_type::float64 && feat.dims() == nano::make_dims(1, mf.d1, mf.d2);
        }
        if (!ok)
        {
            return verdict_t::violation("C08/bookkeeping/descriptor", cat("feature ", j, ": ", feat.name()));
        }
    }
    // target bookkeeping
    const bool has_target = d.target >= 0;
    fspec_t    tspec;
    if (has_target)
    {
        tspec = d.spec(d.target);
        const auto want_dims = tspec.is_continuous() ? nano::make_dims(tspec.d0, tspec.d1, tspec.d2) : nano::make_dims(tspec.classes, 1, 1);
        if (dataset.target_dims() != want_dims || static_cast<int>(dataset.target().type()) != tspec.type ||
            dataset.target().name() != cat("f", d.target))
        {
            return verdict_t::violation("C08/bookkeeping/target");
        }
    }
    else if (dataset.target_dims() != nano::make_dims(0, 0, 0) || dataset.type() != nano::task_type::unsupervised)
    {
        return verdict_t::violation("C08/bookkeeping/no-target");
    }

    // -- history ---------------------------------------------------------------------------------
    std::vector<fstatus_t> status(static_cast<size_t>(nfeat));
    bool                   any_change = false, queried_changed = false;
    int                    queries = 0;

    nano::tensor2d_t   fbuffer;
    nano::tensor4d_t   tbuffer;
    nano::sclass_mem_t sbuf;
    nano::mclass_mem_t mbuf;
    nano::scalar_mem_t cbuf;
    nano::struct_mem_t ubuf;

    const auto query = [&](const std::vector<int>& list) -> verdict_t
    {
        const auto samples = to_indices(list);
        const auto n       = static_cast<nano::tensor_size_t>(list.size());

        // flatten, with every cell pre-set to the sentinel
        fbuffer.resize(n, ncols);
        fbuffer.full(sentinel);
        const auto flat = dataset.flatten(samples, fbuffer);
        if (flat.size<0>() != n || flat.size<1>() != ncols)
        {
            return verdict_t::violation("C08/flatten/shape");
        }

        for (int j = 0; j < nfeat; ++j)
        {
            const auto& mf    = model[static_cast<size_t>(j)];
            const auto  cands = candidates(status[static_cast<size_t>(j)], list);
            const auto  feat  = dataset.feature(j);

            // per-feature view, requested the way the descriptor says
            std::vector<double> view(static_cast<size_t>(n) * static_cast<size_t>(mf.width()), sentinel);
            std::string         how;
            if (feat.is_sclass())
            {
                sbuf.resize(n);
                sbuf.full(12345);
                const auto v = dataset.select(samples, j, sbuf);
                how          = "sclass";
                for (nano::tensor_size_t i = 0; i < n; ++i)
                {
                    view[static_cast<size_t>(i)] = v(i) == 12345 ? sentinel : static_cast<double>(v(i));
                }
            }
            else if (feat.is_mclass())
            {
                mbuf.resize(n, mf.classes);
                mbuf.full(99);
                const auto v = dataset.select(samples, j, mbuf);
                how          = "mclass";
                for (nano::tensor_size_t i = 0; i < n; ++i)
                {
                    for (int k = 0; k < mf.classes; ++k)
                    {
                        view[static_cast<size_t>(i) * static_cast<size_t>(mf.classes) + static_cast<size_t>(k)] = v(i, k) == 99 ? sentinel : static_cast<double>(v(i, k));
                    }
                }
            }
            else if (feat.is_scalar())
            {
                cbuf.resize(n);
                cbuf.full(sentinel);
                const auto v = dataset.select(samples, j, cbuf);
                how          = "scalar";
                for (nano::tensor_size_t i = 0; i < n; ++i)
                {
                    view[static_cast<size_t>(i)] = v(i);
                }
            }
            else if (feat.is_struct())
            {
                ubuf.resize(n, mf.d0, mf.d1, mf.d2);
                ubuf.full(sentinel);
                const auto v = dataset.select(samples, j, ubuf);
                how          = "struct";
                for (nano::tensor_size_t i = 0; i < n; ++i)
                {
                    for (int k = 0; k < mf.width(); ++k)
                    {
                        view[static_cast<size_t>(i) * static_cast<size_t>(mf.width()) + static_cast<size_t>(k)] = v.tensor(i)(k);
                    }
                }
            }
            else
            {
                return verdict_t::violation("C08/select/invalid-descriptor", cat("feature ", j));
            }
            for (const auto v : view)
            {
                if (v == sentinel)
                {
                    return verdict_t::violation(mf.gradient ? "C08/select/not-written/gradient" : "C08/select/not-written",
                                                cat("feature ", j, " (", feat.name(), ") requested as ", how, ": the view was not produced"));
                }
            }

            // compare both views with every admissible candidate; one candidate must explain both
            bool        matched = false;
            std::string why;
            for (const auto& cand : cands)
            {
                bool ok_select = true, ok_flatten = true;
                for (nano::tensor_size_t i = 0; i < n && (ok_select || ok_flatten); ++i)
                {
                    const int src = cand[static_cast<size_t>(i)];
                    if (mf.kind == g_sclass)
                    {
                        const auto v = src < 0 ? value_t{} : model_value(d, mf, src, 0);
                        // per-feature view: label or -1
                        const auto want = v.given ? v.v : -1.0;
                        if (view[static_cast<size_t>(i)] != want)
                        {
                            ok_select = false;
                            why       = cat("select feature ", j, " sample#", i, " got ", view[static_cast<size_t>(i)], " want ", want);
                        }
                        // flatten: C-1 columns of +-1, last class all -1, missing NaN
                        for (int k = 0; k < mf.classes - 1; ++k)
                        {
                            const auto got = flat(i, col_begin[static_cast<size_t>(j)] + k);
                            const auto w   = !v.given ? std::numeric_limits<double>::quiet_NaN() : (static_cast<int>(v.v) == k ? 1.0 : -1.0);
                            if (!((std::isnan(w) && std::isnan(got)) || got == w))
                            {
                                ok_flatten = false;
                                why        = cat("flatten feature ", j, " sample#", i, " column ", k, " got ", got, " want ", w);
                            }
                        }
                    }
                    else
                    {
                        for (int k = 0; k < mf.width(); ++k)
                        {
                            const auto v    = src < 0 ? value_t{} : model_value(d, mf, src, k);
                            const auto got  = view[static_cast<size_t>(i) * static_cast<size_t>(mf.width()) + static_cast<size_t>(k)];
                            const auto wsel = v.given ? v.v : (mf.kind == g_mclass ? -1.0 : std::numeric_limits<double>::quiet_NaN());
                            if (!close(mf, got, wsel))
                            {
                                ok_select = false;
                                why       = cat("select feature ", j, " sample#", i, " component ", k, " got ", got, " want ", wsel);
                            }
                            const auto gotf = flat(i, col_begin[static_cast<size_t>(j)] + k);
                            const auto wflt = !v.given ? std::numeric_limits<double>::quiet_NaN() : (mf.kind == g_mclass ? 2.0 * v.v - 1.0 : v.v);
                            if (!close(mf, gotf, wflt))
                            {
                                ok_flatten = false;
                                why        = cat("flatten feature ", j, " sample#", i, " column ", k, " got ", gotf, " want ", wflt);
                            }
                        }
                    }
                }
                if (ok_select && ok_flatten)
                {
                    matched = true;
                    break;
                }
            }
            if (!matched)
            {
                static const char* names[] = {"normal", "dropped", "shuffled", "after-undrop", "after-unshuffle"};
                return verdict_t::violation(cat("C08/view/", mf.product ? "product" : mf.gradient ? "gradient" : "identity", "/", names[status[static_cast<size_t>(j)].state]), why);
            }
        }

        // targets
        if (has_target)
        {
            tbuffer.resize(n, 1, 1, 1);
            const auto t     = dataset.targets(samples, tbuffer);
            const auto width = tspec.is_continuous() ? tspec.dsize() : tspec.classes;
            if (t.size<0>() != n || t.size() != n * width)
            {
                return verdict_t::violation("C08/targets/shape");
            }
            for (nano::tensor_size_t i = 0; i < n; ++i)
            {
                const int s = list[static_cast<size_t>(i)];
                for (int k = 0; k < width; ++k)
                {
                    double want = 0.0;
                    if (tspec.is_sclass())
                    {
                        want = static_cast<int>(d.stored(d.target, s, 0)) == k ? 1.0 : -1.0;
                    }
                    else if (tspec.is_mclass())
                    {
                        want = 2.0 * d.stored(d.target, s, k) - 1.0;
                    }
                    else
                    {
                        want = d.stored(d.target, s, k);
                    }
                    if (t.tensor(i)(k) != want)
                    {
                        return verdict_t::violation("C08/targets/value", cat("sample#", i, " component ", k, " got ", t.tensor(i)(k), " want ", want));
                    }
                }
            }
            // per-feature view of the target
            if (tspec.is_sclass())
            {
                sbuf.resize(n);
                sbuf.full(12345);
                const auto v = dataset.select(samples, sbuf);
                for (nano::tensor_size_t i = 0; i < n; ++i)
                {
                    if (v(i) != static_cast<int>(d.stored(d.target, list[static_cast<size_t>(i)], 0)))
                    {
                        return verdict_t::violation("C08/targets/select-sclass");
                    }
                }
            }
            else if (tspec.is_mclass())
            {
                mbuf.resize(n, tspec.classes);
                mbuf.full(99);
                const auto v = dataset.select(samples, mbuf);
                for (nano::tensor_size_t i = 0; i < n; ++i)
                {
                    for (int k = 0; k < tspec.classes; ++k)
                    {
                        if (v(i, k) != static_cast<int>(d.stored(d.target, list[static_cast<size_t>(i)], k)))
                        {
                            return verdict_t::violation("C08/targets/select-mclass");
                        }
                    }
                }
            }
            else if (tspec.is_scalar())
            {
                cbuf.resize(n);
                cbuf.full(sentinel);
                const auto v = dataset.select(samples, cbuf);
                for (nano::tensor_size_t i = 0; i < n; ++i)
                {
                    if (v(i) != d.stored(d.target, list[static_cast<size_t>(i)], 0))
                    {
                        return verdict_t::violation("C08/targets/select-scalar");
                    }
                }
            }
            else
            {
                ubuf.resize(n, tspec.d0, tspec.d1, tspec.d2);
                ubuf.full(sentinel);
                const auto v = dataset.select(samples, ubuf);
                for (nano::tensor_size_t i = 0; i < n; ++i)
                {
                    for (int k = 0; k < tspec.dsize(); ++k)
                    {
                        if (v.tensor(i)(k) != d.stored(d.target, list[static_cast<size_t>(i)], k))
                        {
                            return verdict_t::violation("C08/targets/select-struct");
                        }
                    }
                }
            }
        }
        return verdict_t::ok();
    };

    const auto invalid = [&](int arg, int arg2) -> verdict_t
    {
        // an out-of-range sample or feature index must be rejected with an exception
        const int  n       = d.samples;
        const int  bad_samples[] = {n, -1, n + 7, n + 64};
        const int  bad_s   = bad_samples[arg % 4];
        auto       list    = c.lists[static_cast<size_t>(arg2) % c.lists.size()];
        list[static_cast<size_t>(arg / 4) % list.size()] = bad_s;
        const auto samples = to_indices(list);
        const char* which  = bad_s == n ? "index-equal-to-samples" : bad_s < 0 ? "negative-index" : "index-beyond-samples";

        fbuffer.resize(samples.size(), std::max(1, ncols));
        if (!throws([&] { dataset.flatten(samples, fbuffer); }))
        {
            return verdict_t::violation(cat("C08/range-check/samples/flatten/", which), cat("sample ", bad_s, " of ", n, " accepted"));
        }
        if (has_target && !throws([&] { dataset.targets(samples, tbuffer); }))
        {
            return verdict_t::violation(cat("C08/range-check/samples/targets/", which), cat("sample ", bad_s, " of ", n, " accepted"));
        }
        if (nfeat > 0)
        {
            const int  j    = arg2 % nfeat;
            const auto feat = dataset.feature(j);
            const bool thrown = feat.is_sclass()   ? throws([&] { dataset.select(samples, j, sbuf); })
                                : feat.is_mclass() ? throws([&] { dataset.select(samples, j, mbuf); })
                                : feat.is_scalar() ? throws([&] { dataset.select(samples, j, cbuf); })
                                                   : throws([&] { dataset.select(samples, j, ubuf); });
            if (!thrown)
            {
                return verdict_t::violation(cat("C08/range-check/samples/select/", which), cat("sample ", bad_s, " of ", n, " accepted"));
            }
        }
        // the reported bijection of a shuffled feature is also indexed by samples
        for (int j = 0; j < nfeat; ++j)
        {
            if (status[static_cast<size_t>(j)].state == st_shuffled && !throws([&] { (void)dataset.shuffled(j, samples); }))
            {
                return verdict_t::violation(cat("C08/range-check/samples/shuffled/", which), cat("sample ", bad_s, " of ", n, " accepted"));
            }
        }
        // feature indices
        const int  bad_features[] = {-1, nfeat, nfeat + 3};
        const int  bad_f          = bad_features[arg % 3];
        const auto good           = to_indices(c.lists[0]);
        if (!throws([&] { (void)dataset.feature(bad_f); }))
        {
            return verdict_t::violation("C08/range-check/feature/descriptor", cat("feature ", bad_f, " of ", nfeat));
        }
        if (!throws([&] { dataset.select(good, bad_f, cbuf); }) || !throws([&] { dataset.select(good, bad_f, sbuf); }) ||
            !throws([&] { dataset.select(good, bad_f, mbuf); }) || !throws([&] { dataset.select(good, bad_f, ubuf); }))
        {
            return verdict_t::violation("C08/range-check/feature/select", cat("feature ", bad_f, " of ", nfeat));
        }
        if (!throws([&] { dataset.drop(bad_f); }))
        {
            return verdict_t::violation("C08/range-check/feature/drop", cat("feature ", bad_f, " of ", nfeat));
        }
        if (!throws([&] { dataset.shuffle(bad_f); }))
        {
            return verdict_t::violation("C08/range-check/feature/shuffle", cat("feature ", bad_f, " of ", nfeat));
        }
        if (!throws([&] { (void)dataset.shuffled(bad_f, good); }))
        {
            return verdict_t::violation("C08/range-check/feature/shuffled", cat("feature ", bad_f, " of ", nfeat));
        }
        return verdict_t::ok();
    };

    bool any_invalid = false;
    for (size_t o = 0; o < c.op_kind.size(); ++o)
    {
        const int arg = c.op_arg[o], arg2 = c.op_arg2[o];
        try
        {
            switch (c.op_kind[o])
            {
            case op_query:
            {
                const auto v = query(c.lists[static_cast<size_t>(arg) % c.lists.size()]);
                if (!v.is_ok())
                {
                    return v;
                }
                ++queries;
                queried_changed = queried_changed || any_change;
                break;
            }
            case op_drop:
                if (nfeat > 0)
                {
                    dataset.drop(arg % nfeat);
                    status[static_cast<size_t>(arg % nfeat)].state = st_dropped;
                    any_change                                     = true;
                }
                break;
            case op_undrop:
                dataset.undrop();
                for (auto& st : status)
                {
                    st.state = st.state == st_dropped ? st_normal : (st.state == st_shuffled ? st_maybe_shuffled : (st.state == st_maybe_dropped ? st_normal : st.state));
                }
                break;
            case op_shuffle:
                if (nfeat > 0)
                {
                    const int j = arg % nfeat;
                    dataset.shuffle(j);
                    auto all = std::vector<int>(static_cast<size_t>(d.samples));
                    for (int i = 0; i < d.samples; ++i)
                    {
                        all[static_cast<size_t>(i)] = i;
                    }
                    const auto perm = dataset.shuffled(j, to_indices(all));
                    if (perm.size() != d.samples)
                    {
                        return verdict_t::violation("C08/shuffle/bijection-size");
                    }
                    auto&             st = status[static_cast<size_t>(j)];
                    std::vector<bool> seen(static_cast<size_t>(d.samples), false);
                    st.perm.assign(static_cast<size_t>(d.samples), 0);
                    for (int i = 0; i < d.samples; ++i)
                    {
                        const auto p = perm(i);
                        if (p < 0 || p >= d.samples || seen[static_cast<size_t>(p)])
                        {
                            return verdict_t::violation("C08/shuffle/not-a-permutation", cat("feature ", j));
                        }
                        seen[static_cast<size_t>(p)]   = true;
                        st.perm[static_cast<size_t>(i)] = static_cast<int>(p);
                    }
                    st.state   = st_shuffled;
                    any_change = true;
                    // sub-lists are mapped through the same bijection
                    const auto& list = c.lists[static_cast<size_t>(arg2) % c.lists.size()];
                    const auto  sub  = dataset.shuffled(j, to_indices(list));
                    for (size_t i = 0; i < list.size(); ++i)
                    {
                        if (sub(static_cast<nano::tensor_size_t>(i)) != st.perm[static_cast<size_t>(list[i])])
                        {
                            return verdict_t::violation("C08/shuffle/bijection-inconsistent", cat("feature ", j));
                        }
                    }
                }
                break;
            case op_unshuffle:
                dataset.unshuffle();
                for (auto& st : status)
                {
                    st.state = st.state == st_shuffled ? st_normal : (st.state == st_dropped ? st_maybe_dropped : (st.state == st_maybe_shuffled ? st_normal : st.state));
                }
                break;
            default:
            {
                const auto v = invalid(arg, arg2);
                if (!v.is_ok())
                {
                    return v;
                }
                any_invalid = true;
                break;
            }
            }
        }
        catch (const std::exception& e)
        {
            return verdict_t::violation(cat("C08/exception/op", c.op_kind[o]), e.what());
        }
    }

    // -- classes / non-triviality -----------------------------------------------------------------
    std::set<int> kinds;
    bool          any_missing = false, any_present = false, repeat = false;
    for (const auto& mf : model)
    {
        kinds.insert(mf.product ? 10 : mf.gradient ? 11 : mf.kind);
        for (int s = 0; s < d.samples; ++s)
        {
            const auto v = model_value(d, mf, s, 0);
            any_missing  = any_missing || !v.given;
            any_present  = any_present || v.given;
        }
    }
    for (const auto& l : c.lists)
    {
        auto s = l;
        std::sort(s.begin(), s.end());
        repeat = repeat || std::adjacent_find(s.begin(), s.end()) != s.end();
    }
    ctx.label_if(kinds.count(g_sclass) != 0, "gen:sclass");
    ctx.label_if(kinds.count(g_mclass) != 0, "gen:mclass");
    ctx.label_if(kinds.count(g_scalar) != 0, "gen:scalar");
    ctx.label_if(kinds.count(g_struct) != 0, "gen:struct");
    ctx.label_if(kinds.count(10) != 0, "gen:product");
    ctx.label_if(kinds.count(11) != 0, "gen:gradient");
    ctx.label_if(nfeat == 0, "no-generated-features");
    ctx.label_if(any_missing, "missing-values");
    ctx.label_if(d.samples % 8 != 0, "samples-not-multiple-of-8");
    ctx.label_if(!has_target, "unsupervised");
    ctx.label_if(any_invalid, "invalid-index-ops");
    ctx.label_if(queried_changed, "query-after-drop-or-shuffle");
    ctx.label(cat("target:", !has_target ? "none" : tspec.is_sclass() ? "sclass" : tspec.is_mclass() ? "mclass" : tspec.is_scalar() ? "scalar" : "struct"));
    ctx.nontrivial = kinds.size() >= 2 && any_missing && any_present && repeat && queried_changed;
    return verdict_t::ok();
}

// ---------------------------------------------------------------------------------------
// iterators: the (multi-threaded) dataset iterators deliver every feature / every sample range exactly once,
// with a worker id below the dataset's concurrency, and exactly the values of the direct views (which the `views`
// sub-check compares with the reference model); scaling is off (C14/C09 own the scaling), caching on and off.
// ---------------------------------------------------------------------------------------
bool same_value(double a, double b)
{
    return (std::isnan(a) && std::isnan(b)) || a == b;
}

verdict_t check_iterators(const case_t& c, ctx_t& ctx)
{
    const auto& d = c.data;
    if (!d.valid() || c.lists.empty() || c.gen_kind.empty() || c.op_arg.empty())
    {
        return verdict_t::discard("malformed-case");
    }
    for (const auto& l : c.lists)
    {
        if (l.empty())
        {
            return verdict_t::discard("empty-sample-list");
        }
        for (const auto s : l)
        {
            if (s < 0 || s >= d.samples)
            {
                return verdict_t::discard("sample-list-out-of-range");
            }
        }
    }
    nano::verif::rng_state().store(c.rng * 2 + 1);

    const auto inputs  = d.inputs();
    const auto source  = make_datasource(d);
    auto       dataset = nano::dataset_t{*source, static_cast<size_t>(c.threads)};
    const auto model   = build_stack(c, inputs, dataset);
    const auto nfeat   = static_cast<int>(model.size());
    const auto ncols   = static_cast<int>(dataset.columns());
    const auto workers = dataset.concurrency();
    if (workers != static_cast<size_t>(std::min(c.threads, 16)) && workers != static_cast<size_t>(c.threads))
    {
        return verdict_t::violation("C08/iterators/concurrency", cat("concurrency()=", workers, " requested ", c.threads));
    }

    const auto& list    = c.lists[0];
    const auto  samples = to_indices(list);
    const auto  n       = static_cast<nano::tensor_size_t>(list.size());

    try
    {
        // -- select iterator: all features of each kind, and a generated subset (with repetitions) ----------
        const auto            iterator = nano::select_iterator_t{dataset};
        std::mutex            mutex;
        std::vector<int>      hits;
        std::string           error;
        std::vector<int>      subset;
        for (size_t i = 0; i < c.op_arg.size() && nfeat > 0; ++i)
        {
            subset.push_back(c.op_arg[i] % nfeat);
        }
        const auto note = [&](const std::string& what)
        {
            if (error.empty())
            {
                error = what;
            }
        };
        const auto run_kind = [&](const int kind, const bool use_subset) -> verdict_t
        {
            // expected multiplicity per feature
            std::vector<int> expected(static_cast<size_t>(nfeat), 0);
            std::vector<int> wanted;
            for (int j = 0; j < nfeat; ++j)
            {
                const auto f  = dataset.feature(j);
                const bool is = kind == 0 ? f.is_sclass() : kind == 1 ? f.is_mclass() : kind == 2 ? f.is_scalar() : f.is_struct();
                if (is)
                {
                    wanted.push_back(j);
                }
            }
            std::vector<int> chosen;
            if (use_subset)
            {
                for (const auto j : subset)
                {
                    if (std::find(wanted.begin(), wanted.end(), j) != wanted.end())
                    {
                        chosen.push_back(j);
                    }
                }
            }
            else
            {
                chosen = wanted;
            }
            for (const auto j : chosen)
            {
                expected[static_cast<size_t>(j)]++;
            }
            hits.assign(static_cast<size_t>(nfeat), 0);
            error.clear();
            const auto features = to_indices(chosen);

            // the callbacks run on the pool's threads: record under a mutex, compare with the direct view
            nano::sclass_mem_t sb;
            nano::mclass_mem_t mb;
            nano::scalar_mem_t cb;
            nano::struct_mem_t ub;
            const auto common = [&](nano::tensor_size_t ifeature, size_t tnum)
            {
                if (tnum >= workers)
                {
                    note(cat("worker id ", tnum, " >= concurrency ", workers));
                }
                if (ifeature < 0 || ifeature >= nfeat)
                {
                    note(cat("feature ", ifeature, " out of range"));
                    return false;
                }
                hits[static_cast<size_t>(ifeature)]++;
                return true;
            };
            if (chosen.empty() && use_subset)
            {
                return verdict_t::ok();
            }
            switch (kind)
            {
            case 0:
            {
                const nano::sclass_callback_t op = [&](nano::tensor_size_t ifeature, size_t tnum, nano::sclass_cmap_t values)
                {
                    const std::scoped_lock lock(mutex);
                    if (!common(ifeature, tnum))
                    {
                        return;
                    }
                    const auto direct = dataset.select(samples, ifeature, sb);
                    bool       ok     = values.size() == direct.size();
                    for (nano::tensor_size_t i = 0; ok && i < direct.size(); ++i)
                    {
                        ok = values(i) == direct(i);
                    }
                    if (!ok)
                    {
                        note(cat("sclass feature ", ifeature, ": delivered values differ from the direct view"));
                    }
                };
                use_subset ? iterator.loop(samples, features, op) : iterator.loop(samples, op);
                break;
            }
            case 1:
            {
                const nano::mclass_callback_t op = [&](nano::tensor_size_t ifeature, size_t tnum, nano::mclass_cmap_t values)
                {
                    const std::scoped_lock lock(mutex);
                    if (!common(ifeature, tnum))
                    {
                        return;
                    }
                    const auto direct = dataset.select(samples, ifeature, mb);
                    bool       ok     = values.dims() == direct.dims();
                    for (nano::tensor_size_t i = 0; ok && i < direct.size(); ++i)
                    {
                        ok = values(i) == direct(i);
                    }
                    if (!ok)
                    {
                        note(cat("mclass feature ", ifeature, ": delivered values differ from the direct view"));
                    }
                };
                use_subset ? iterator.loop(samples, features, op) : iterator.loop(samples, op);
                break;
            }
            case 2:
            {
                const nano::scalar_callback_t op = [&](nano::tensor_size_t ifeature, size_t tnum, nano::scalar_cmap_t values)
                {
                    const std::scoped_lock lock(mutex);
                    if (!common(ifeature, tnum))
                    {
                        return;
                    }
                    const auto direct = dataset.select(samples, ifeature, cb);
                    bool       ok     = values.size() == direct.size();
                    for (nano::tensor_size_t i = 0; ok && i < direct.size(); ++i)
                    {
                        ok = same_value(values(i), direct(i));
                    }
                    if (!ok)
                    {
                        note(cat("scalar feature ", ifeature, ": delivered values differ from the direct view"));
                    }
                };
                use_subset ? iterator.loop(samples, features, op) : iterator.loop(samples, op);
                break;
            }
            default:
            {
                const nano::struct_callback_t op = [&](nano::tensor_size_t ifeature, size_t tnum, nano::struct_cmap_t values)
                {
                    const std::scoped_lock lock(mutex);
                    if (!common(ifeature, tnum))
                    {
                        return;
                    }
                    const auto direct = dataset.select(samples, ifeature, ub);
                    bool       ok     = values.dims() == direct.dims();
                    for (nano::tensor_size_t i = 0; ok && i < direct.size(); ++i)
                    {
                        ok = same_value(values(i), direct(i));
                    }
                    if (!ok)
                    {
                        note(cat("structured feature ", ifeature, ": delivered values differ from the direct view"));
                    }
                };
                use_subset ? iterator.loop(samples, features, op) : iterator.loop(samples, op);
                break;
            }
            }
            static const char* names[] = {"sclass", "mclass", "scalar", "struct"};
            if (!error.empty())
            {
                return verdict_t::violation(cat("C08/iterators/select/", names[kind], "/delivery"), error);
            }
            for (int j = 0; j < nfeat; ++j)
            {
                if (hits[static_cast<size_t>(j)] != expected[static_cast<size_t>(j)])
                {
                    return verdict_t::violation(cat("C08/iterators/select/", names[kind], use_subset ? "/subset-not-exactly-once" : "/not-exactly-once"),
                                                cat("feature ", j, " delivered ", hits[static_cast<size_t>(j)], " times, expected ", expected[static_cast<size_t>(j)], " (", chosen.size(),
                                                    " features requested, ", workers, " workers)"));
                }
            }
            return verdict_t::ok();
        };
        for (int kind = 0; kind < 4; ++kind)
        {
            for (const bool use_subset : {false, true})
            {
                if (const auto v = run_kind(kind, use_subset); !v.is_ok())
                {
                    return v;
                }
            }
        }

        // -- flatten / targets iterators: ranges tile [0, n) in batches, each delivered once with the direct values ----
        const auto batch      = static_cast<nano::tensor_size_t>(1 + c.op_arg[0] % std::max<int>(1, 2 * static_cast<int>(n)));
        const bool has_target = d.target >= 0;
        int        chunks     = 0;
        if (ncols > 0)
        {
            nano::tensor2d_t direct_buffer;
            nano::tensor4d_t direct_targets;
            for (const bool cached : {false, true})
            {
                auto iterator2 = nano::flatten_iterator_t{dataset, samples};
                iterator2.batch(batch);
                iterator2.scaling(nano::scaling_type::none);
                if (cached)
                {
                    const auto ok1 = iterator2.cache_flatten(std::numeric_limits<nano::tensor_size_t>::max());
                    const auto ok2 = !has_target || iterator2.cache_targets(std::numeric_limits<nano::tensor_size_t>::max());
                    if (!ok1 || !ok2)
                    {
                        return verdict_t::violation("C08/iterators/flatten/cache-refused", cat("cache_flatten=", ok1, " cache_targets=", ok2));
                    }
                }
                struct delivery_t
                {
                    nano::tensor_size_t begin, end;
                    size_t              tnum;
                    std::vector<double> flat, targets;
                };
                std::vector<delivery_t> deliveries;
                const auto              record = [&](nano::tensor_range_t range, size_t tnum, const nano::tensor2d_cmap_t* flat, const nano::tensor4d_cmap_t* targets)
                {
                    delivery_t dv{range.begin(), range.end(), tnum, {}, {}};
                    if (flat != nullptr)
                    {
                        dv.flat.assign(flat->data(), flat->data() + flat->size());
                    }
                    if (targets != nullptr)
                    {
                        dv.targets.assign(targets->data(), targets->data() + targets->size());
                    }
                    const std::scoped_lock lock(mutex);
                    deliveries.push_back(std::move(dv));
                };
                const auto verify = [&](const char* which, const bool with_flat, const bool with_targets) -> verdict_t
                {
                    std::sort(deliveries.begin(), deliveries.end(), [](const delivery_t& a, const delivery_t& b) { return a.begin < b.begin; });
                    nano::tensor_size_t next = 0;
                    for (const auto& dv : deliveries)
                    {
                        if (dv.tnum >= workers)
                        {
                            return verdict_t::violation(cat("C08/iterators/", which, "/worker-id"), cat("worker id ", dv.tnum, " >= concurrency ", workers));
                        }
                        if (dv.begin != next || dv.end != std::min(dv.begin + batch, n))
                        {
                            return verdict_t::violation(cat("C08/iterators/", which, "/ranges-do-not-tile"),
                                                        cat("range [", dv.begin, ",", dv.end, ") after ", next, " with batch ", batch, " of ", n, " samples"));
                        }
                        next             = dv.end;
                        const auto count = dv.end - dv.begin;
                        const auto sub   = samples.slice(dv.begin, dv.end);
                        if (with_flat)
                        {
                            const auto direct = dataset.flatten(sub, direct_buffer);
                            bool       ok     = static_cast<nano::tensor_size_t>(dv.flat.size()) == count * ncols;
                            for (nano::tensor_size_t i = 0; ok && i < count * ncols; ++i)
                            {
                                const auto want = std::isfinite(direct(i)) ? direct(i) : 0.0; // missing values become zero in the dense iterator
                                ok              = dv.flat[static_cast<size_t>(i)] == want;
                            }
                            if (!ok)
                            {
                                return verdict_t::violation(cat("C08/iterators/", which, cached ? "/cached" : "/uncached", "/flatten-values"),
                                                            cat("range [", dv.begin, ",", dv.end, ") differs from the direct flatten view"));
                            }
                        }
                        if (with_targets)
                        {
                            const auto direct = dataset.targets(sub, direct_targets);
                            bool       ok     = static_cast<nano::tensor_size_t>(dv.targets.size()) == direct.size();
                            for (nano::tensor_size_t i = 0; ok && i < direct.size(); ++i)
                            {
                                ok = dv.targets[static_cast<size_t>(i)] == direct(i);
                            }
                            if (!ok)
                            {
                                return verdict_t::violation(cat("C08/iterators/", which, cached ? "/cached" : "/uncached", "/targets-values"),
                                                            cat("range [", dv.begin, ",", dv.end, ") differs from the direct targets view"));
                            }
                        }
                    }
                    if (next != n)
                    {
                        return verdict_t::violation(cat("C08/iterators/", which, "/ranges-do-not-cover"), cat("covered ", next, " of ", n));
                    }
                    chunks = std::max(chunks, static_cast<int>(deliveries.size()));
                    return verdict_t::ok();
                };

                deliveries.clear();
                iterator2.loop([&](nano::tensor_range_t range, size_t tnum, nano::tensor2d_cmap_t flat) { record(range, tnum, &flat, nullptr); });
                if (const auto v = verify("flatten", true, false); !v.is_ok())
                {
                    return v;
                }
                if (has_target)
                {
                    deliveries.clear();
                    iterator2.loop([&](nano::tensor_range_t range, size_t tnum, nano::tensor2d_cmap_t flat, nano::tensor4d_cmap_t targets)
                                   { record(range, tnum, &flat, &targets); });
                    if (const auto v = verify("flatten+targets", true, true); !v.is_ok())
                    {
                        return v;
                    }
                    deliveries.clear();
                    iterator2.loop([&](nano::tensor_range_t range, size_t tnum, nano::tensor4d_cmap_t targets) { record(range, tnum, nullptr, &targets); });
                    if (const auto v = verify("targets", false, true); !v.is_ok())
                    {
                        return v;
                    }
                }
            }
        }

        ctx.label(cat("threads:", c.threads == 1 ? "1" : c.threads <= 3 ? "2-3" : c.threads <= 8 ? "4-8" : "9-16"));
        ctx.label_if(ncols == 0, "no-flatten-columns");
        ctx.label_if(chunks >= 2, "several-batches");
        ctx.label_if(nfeat >= 2 * static_cast<int>(workers), "more-features-than-2x-workers");
        ctx.label_if(has_target, "with-target");
        ctx.nontrivial = nfeat >= 2 && workers >= 2 && chunks >= 2;
        return verdict_t::ok();
    }
    catch (const std::exception& e)
    {
        return verdict_t::violation("C08/iterators/exception", e.what());
    }
}
} // namespace

int main(int argc, char** argv)
{
    suite_t suite("C08");
    suite.add<case_t>("views", gen_case, check_case, 1.0);
    suite.add<case_t>("iterators", gen_case, check_iterators, 0.6);
    return suite.main(argc, argv);
}
