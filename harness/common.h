// Common machinery of the rapidcheck harnesses: case (de)serialisation, verdicts, counters,
// the command line (generate / replay), and the result file the driver (../check) merges.
//
// A harness defines, per sub-check:
//   struct case_t { ...; template <class A> void io(A& a) { a("name", field); ... } };
//   rc::Gen<case_t> gen();                       // every random choice comes from here
//   verdict_t check(const case_t&, ctx_t&);      // the oracle
// and registers it with suite_t::add.  `check` is also what --replay calls, bypassing
// rapidcheck.  Nothing in here reads a clock or an RNG of its own.
#pragma once

#include <cinttypes>
#include <csignal>
#include <fcntl.h>
#include <cmath>
#include <cstdint>
#include <cstdio>
#include <cstdlib>
#include <cstring>
#include <fstream>
#include <functional>
#include <iostream>
#include <map>
#include <memory>
#include <set>
#include <sstream>
#include <stdexcept>
#include <string>
#include <type_traits>
#include <unistd.h>
#include <utility>
#include <vector>

#include <rapidcheck.h>

namespace verif
{
// ---------------------------------------------------------------------------------------
// verdicts
// ---------------------------------------------------------------------------------------
enum class kind_t
{
    ok,
    violation,
    discard,    // case outside the property's domain (counted per reason)
    borderline, // verdict flips inside the tolerance band: counted, never reported
    known       // matches an open known finding: excluded and counted
};

struct verdict_t
{
    kind_t      kind{kind_t::ok};
    std::string sig; // stable signature (violation / known) or reason (discard)
    std::string msg;

    static verdict_t ok() { return {}; }

    static verdict_t violation(std::string sig, std::string msg = {})
    {
        return {kind_t::violation, std::move(sig), std::move(msg)};
    }

    static verdict_t discard(std::string reason) { return {kind_t::discard, std::move(reason), {}}; }

    static verdict_t borderline(std::string what) { return {kind_t::borderline, std::move(what), {}}; }

    static verdict_t known(std::string sig, std::string msg = {})
    {
        return {kind_t::known, std::move(sig), std::move(msg)};
    }

    bool is_ok() const { return kind == kind_t::ok; }
};

inline const char* name(kind_t k)
{
    switch (k)
    {
    case kind_t::ok: return "ok";
    case kind_t::violation: return "violation";
    case kind_t::discard: return "discard";
    case kind_t::borderline: return "borderline";
    default: return "known";
    }
}

template <class... T>
std::string cat(const T&... v)
{
    std::ostringstream s;
    s.precision(17);
    (s << ... << v);
    return s.str();
}

// ---------------------------------------------------------------------------------------
// per-case context: class labels and the non-triviality flag, filled in by `check`
// ---------------------------------------------------------------------------------------
struct ctx_t
{
    std::vector<std::string>      labels;
    bool                          nontrivial{false};
    std::map<std::string, double> maxima; // named running maxima (e.g. error/bound ratios)

    void label(std::string l) { labels.push_back(std::move(l)); }

    void label_if(bool c, const char* l)
    {
        if (c)
        {
            labels.emplace_back(l);
        }
    }

    void maximum(const std::string& key, double v)
    {
        if (std::isfinite(v))
        {
            auto it = maxima.find(key);
            if (it == maxima.end() || it->second < v)
            {
                maxima[key] = v;
            }
        }
    }
};

// ---------------------------------------------------------------------------------------
// text archives: one `key value...` line per field, doubles with 17 significant digits (bit exact)
// ---------------------------------------------------------------------------------------
class writer_t
{
public:
    template <class T>
    void operator()(const char* key, const T& v)
    {
        m_out << key;
        put(v);
        m_out << '\n';
    }

    std::string str() const { return m_out.str(); }

private:
    template <class T>
    void put(const T& v)
    {
        if constexpr (std::is_same_v<T, std::string>)
        {
            // strings are hex-encoded (may contain anything)
            m_out << " s";
            static const char* hex = "0123456789abcdef";
            for (unsigned char c : v)
            {
                m_out << hex[c >> 4] << hex[c & 15];
            }
        }
        else if constexpr (std::is_same_v<T, bool>)
        {
            m_out << ' ' << (v ? 1 : 0);
        }
        else if constexpr (std::is_enum_v<T>)
        {
            m_out << ' ' << static_cast<long long>(v);
        }
        else if constexpr (std::is_floating_point_v<T>)
        {
            char buf[64];
            std::snprintf(buf, sizeof(buf), " %.17g", static_cast<double>(v)); // round-trips exactly
            m_out << buf;
        }
        else if constexpr (std::is_integral_v<T>)
        {
            if constexpr (std::is_signed_v<T>)
            {
                m_out << ' ' << static_cast<long long>(v);
            }
            else
            {
                m_out << ' ' << static_cast<unsigned long long>(v);
            }
        }
        else
        {
            // containers of the above (vector<T>, vector<vector<T>>)
            m_out << ' ' << v.size();
            for (const auto& e : v)
            {
                put(e);
            }
        }
    }

    std::ostringstream m_out;
};

class reader_t
{
public:
    explicit reader_t(const std::string& text)
    {
        std::istringstream in(text);
        std::string        line;
        while (std::getline(in, line))
        {
            if (line.empty() || line[0] == '#')
            {
                continue;
            }
            const auto sp  = line.find(' ');
            const auto key = line.substr(0, sp);
            m_fields[key]  = sp == std::string::npos ? std::string() : line.substr(sp + 1);
        }
    }

    bool has(const std::string& key) const { return m_fields.count(key) != 0; }

    std::string raw(const std::string& key) const
    {
        const auto it = m_fields.find(key);
        return it == m_fields.end() ? std::string() : it->second;
    }

    template <class T>
    void operator()(const char* key, T& v)
    {
        const auto it = m_fields.find(key);
        if (it == m_fields.end())
        {
            throw std::runtime_error(std::string("replay file: missing field ") + key);
        }
        std::istringstream in(it->second);
        get(in, v);
    }

private:
    template <class T>
    static void get(std::istringstream& in, T& v)
    {
        if constexpr (std::is_same_v<T, std::string>)
        {
            std::string tok;
            in >> tok;
            v.clear();
            for (size_t i = 1; i + 1 < tok.size(); i += 2)
            {
                v.push_back(static_cast<char>(std::stoi(tok.substr(i, 2), nullptr, 16)));
            }
        }
        else if constexpr (std::is_same_v<T, bool>)
        {
            int x = 0;
            in >> x;
            v = x != 0;
        }
        else if constexpr (std::is_enum_v<T>)
        {
            long long x = 0;
            in >> x;
            v = static_cast<T>(x);
        }
        else if constexpr (std::is_floating_point_v<T>)
        {
            std::string tok;
            in >> tok;
            v = static_cast<T>(std::strtod(tok.c_str(), nullptr));
        }
        else if constexpr (std::is_integral_v<T>)
        {
            if constexpr (std::is_signed_v<T>)
            {
                long long x = 0;
                in >> x;
                v = static_cast<T>(x);
            }
            else
            {
                unsigned long long x = 0;
                in >> x;
                v = static_cast<T>(x);
            }
        }
        else
        {
            size_t n = 0;
            in >> n;
            v.resize(n);
            for (size_t i = 0; i < n; ++i)
            {
                if constexpr (std::is_same_v<T, std::vector<bool>>)
                {
                    bool b = false;
                    get(in, b);
                    v[i] = b;
                }
                else
                {
                    get(in, v[i]);
                }
            }
        }
    }

    std::map<std::string, std::string> m_fields;
};

template <class tcase>
std::string serialize(const std::string& sub, const tcase& c)
{
    writer_t w;
    w("sub", sub);
    const_cast<tcase&>(c).io(w);
    return w.str();
}

inline uint64_t fnv1a(const std::string& s)
{
    uint64_t h = 1469598103934665603ULL;
    for (unsigned char c : s)
    {
        h ^= c;
        h *= 1099511628211ULL;
    }
    return h;
}

inline void write_file(const std::string& path, const std::string& text)
{
    std::ofstream out(path, std::ios::binary | std::ios::trunc);
    out << text;
}

inline std::string read_file(const std::string& path)
{
    std::ifstream in(path, std::ios::binary);
    if (!in)
    {
        throw std::runtime_error("cannot read " + path);
    }
    std::ostringstream s;
    s << in.rdbuf();
    return s.str();
}

inline std::string json_escape(const std::string& s)
{
    std::string o;
    for (unsigned char c : s)
    {
        switch (c)
        {
        case '"': o += "\\\""; break;
        case '\\': o += "\\\\"; break;
        case '\n': o += "\\n"; break;
        case '\t': o += "\\t"; break;
        default:
            if (c < 0x20 || c >= 0x7f)
            {
                char b[8];
                std::snprintf(b, sizeof(b), "\\u%04x", c);
                o += b;
            }
            else
            {
                o += static_cast<char>(c);
            }
        }
    }
    return o;
}

// ---------------------------------------------------------------------------------------
// crash attribution: the case being checked is kept in memory and dumped by a signal /
// sanitizer death handler (a sanitizer abort bypasses rapidcheck, shrinking and atexit)
// ---------------------------------------------------------------------------------------
extern "C" void __sanitizer_set_death_callback(void (*)(void)) __attribute__((weak));

struct crash_state_t
{
    std::string current;   // serialised case under check
    char        path[512]; // where to dump it
    int         reason{0};
};

inline crash_state_t& crash_state()
{
    static crash_state_t state;
    return state;
}

inline void crash_dump()
{
    auto& st = crash_state();
    if (st.path[0] == 0 || st.current.empty())
    {
        return;
    }
    const int fd = ::open(st.path, O_WRONLY | O_CREAT | O_TRUNC, 0644);
    if (fd >= 0)
    {
        const char* p = st.current.data();
        size_t      n = st.current.size();
        while (n > 0)
        {
            const auto w = ::write(fd, p, n);
            if (w <= 0)
            {
                break;
            }
            p += w;
            n -= static_cast<size_t>(w);
        }
        ::close(fd);
    }
}

inline void crash_signal(int sig)
{
    crash_dump();
    ::signal(sig, SIG_DFL);
    ::raise(sig);
}

inline void install_crash_dump(const std::string& path)
{
    auto& st = crash_state();
    std::snprintf(st.path, sizeof(st.path), "%s", path.c_str());
    if (__sanitizer_set_death_callback != nullptr)
    {
        __sanitizer_set_death_callback(&crash_dump);
    }
    for (const int sig : {SIGSEGV, SIGABRT, SIGFPE, SIGBUS, SIGILL, SIGTERM})
    {
        ::signal(sig, &crash_signal);
    }
}

// ---------------------------------------------------------------------------------------
// generator helpers (rc::gen::inRange collapses at small sizes: these do not depend on size)
// ---------------------------------------------------------------------------------------
namespace gen
{
    // integer in [lo, hi], independent of the rapidcheck size (still shrinks towards lo)
    template <class T>
    rc::Gen<T> range(T lo, T hi)
    {
        return rc::gen::resize(1000, rc::gen::inRange<T>(lo, static_cast<T>(hi + 1)));
    }

    // real in [lo, hi] on a 2^-30 grid (shrinks towards lo)
    inline rc::Gen<double> real(double lo, double hi)
    {
        return rc::gen::map(range<int64_t>(0, (int64_t(1) << 30)),
                            [=](int64_t k)
                            { return lo + (hi - lo) * (static_cast<double>(k) / static_cast<double>(int64_t(1) << 30)); });
    }

    // real in [-r, r], shrinking towards 0
    inline rc::Gen<double> sym(double r)
    {
        return rc::gen::map(range<int64_t>(-(int64_t(1) << 30), (int64_t(1) << 30)),
                            [=](int64_t k) { return r * (static_cast<double>(k) / static_cast<double>(int64_t(1) << 30)); });
    }

    // log-uniform real in [lo, hi] (lo > 0)
    inline rc::Gen<double> logu(double lo, double hi)
    {
        const auto a = std::log(lo);
        const auto b = std::log(hi);
        return rc::gen::map(real(0.0, 1.0), [=](double u) { return std::exp(a + (b - a) * u); });
    }

    // vector of n reals in [-r, r]
    inline rc::Gen<std::vector<double>> vec(size_t n, double r)
    {
        return rc::gen::container<std::vector<double>>(n, sym(r));
    }

    // small integers as reals (produces ties)
    inline rc::Gen<double> smallint(int lo, int hi)
    {
        return rc::gen::map(range<int>(lo, hi), [](int v) { return static_cast<double>(v); });
    }

    inline rc::Gen<bool> chance(int percent)
    {
        return rc::gen::map(range<int>(0, 99), [=](int v) { return v >= 100 - percent; });
    }

    // standard normal via Box-Muller on two generated uniforms
    inline rc::Gen<double> normal()
    {
        return rc::gen::map(rc::gen::pair(real(1e-12, 1.0), real(0.0, 1.0)),
                            [](const std::pair<double, double>& uv)
                            { return std::sqrt(-2.0 * std::log(uv.first)) * std::cos(6.283185307179586 * uv.second); });
    }
} // namespace gen

// ---------------------------------------------------------------------------------------
// suite: sub-checks, command line, result file
// ---------------------------------------------------------------------------------------
struct sub_result_t
{
    uint64_t                        evaluations{0};
    uint64_t                        nontrivial{0};
    uint64_t                        borderline{0};
    uint64_t                        known{0};
    std::map<std::string, uint64_t> discards;
    std::map<std::string, uint64_t> classes;
    std::map<std::string, double>   maxima;
    std::set<uint64_t>              hashes;
    std::vector<std::string>        samples;
    std::map<std::string, uint64_t> known_sigs;
    bool                            failed{false};
    std::string                     fail_sig, fail_msg, fail_path;
    std::string                     gave_up;
};

class suite_t
{
public:
    explicit suite_t(std::string property)
        : m_property(std::move(property))
    {
    }

    // weight: fraction of the case budget this sub-check gets (relative to the others)
    template <class tcase>
    void add(const std::string& sub, std::function<rc::Gen<tcase>()> gen,
             std::function<verdict_t(const tcase&, ctx_t&)> check, double weight = 1.0, int max_size = 100)
    {
        entry_t e;
        e.sub      = sub;
        e.weight   = weight;
        e.max_size = max_size;
        e.replay   = [check](const std::string& text, ctx_t& ctx)
        {
            reader_t r(text);
            tcase    c{};
            c.io(r);
            return check(c, ctx);
        };
        e.run = [this, sub, gen, check](uint64_t seed, int cases, int max_size, sub_result_t& res)
        {
            rc::detail::TestParams params;
            params.seed            = seed;
            params.maxSuccess      = cases;
            params.maxSize         = max_size;
            params.maxDiscardRatio = 5;
            rc::detail::TestMetadata meta;
            meta.id          = m_property + "/" + sub;
            meta.description = meta.id;

            const auto generator = gen();
            const auto result    = rc::detail::checkTestable(
                [&]
                {
                    const tcase c    = *generator;
                    const auto  text = serialize(sub, c);
                    crash_state().current = text;
                    ctx_t ctx;
                    auto  v = check(c, ctx);
                    if (v.kind == kind_t::known && m_known.count(v.sig) == 0)
                    {
                        v.kind = kind_t::violation; // not listed as an open finding: a plain violation
                    }
                    res.evaluations++;
                    for (const auto& l : ctx.labels)
                    {
                        res.classes[l]++;
                    }
                    for (const auto& [k, x] : ctx.maxima)
                    {
                        auto it = res.maxima.find(k);
                        if (it == res.maxima.end() || it->second < x)
                        {
                            res.maxima[k] = x;
                        }
                    }
                    switch (v.kind)
                    {
                    case kind_t::ok:
                        if (ctx.nontrivial)
                        {
                            res.nontrivial++;
                            if (res.hashes.insert(fnv1a(text)).second && res.samples.size() < 3)
                            {
                                res.samples.push_back(text);
                            }
                        }
                        break;
                    case kind_t::discard:
                        res.discards[v.sig]++;
                        RC_DISCARD(v.sig);
                        break;
                    case kind_t::borderline: res.borderline++; break;
                    case kind_t::known:
                        res.known++;
                        res.known_sigs[v.sig]++;
                        break;
                    case kind_t::violation:
                        res.failed    = true;
                        res.fail_sig  = v.sig;
                        res.fail_msg  = v.msg;
                        res.fail_path = m_out + "/fail." + sub + ".case";
                        write_file(res.fail_path, text);
                        RC_FAIL(v.sig + ": " + v.msg);
                        break;
                    }
                },
                meta, params);
            crash_state().current.clear();

            if (result.template is<rc::detail::GaveUpResult>())
            {
                res.gave_up = result.template get<rc::detail::GaveUpResult>().description;
            }
            else if (result.template is<rc::detail::FailureResult>() && !res.failed)
            {
                // failure that did not come from a verdict (e.g. exception in a generator)
                res.failed   = true;
                res.fail_sig = m_property + "/harness-exception";
                res.fail_msg = result.template get<rc::detail::FailureResult>().description;
            }
            else if (result.template is<rc::detail::SuccessResult>())
            {
                // shrinking explores failing and passing candidates; a success result means no failure
                res.failed = false;
            }
        };
        m_entries.push_back(std::move(e));
    }

    int main(int argc, char** argv)
    {
        std::string replay;
        std::string only;
        uint64_t    seed  = 1;
        int         cases = 100;
        int         size  = -1;
        m_out             = ".";
        for (int i = 1; i < argc; ++i)
        {
            const std::string a = argv[i];
            const auto        next = [&]() -> std::string
            {
                if (i + 1 >= argc)
                {
                    std::fprintf(stderr, "missing value for %s\n", a.c_str());
                    std::exit(64);
                }
                return argv[++i];
            };
            if (a == "--replay")
            {
                replay = next();
            }
            else if (a == "--seed")
            {
                seed = std::strtoull(next().c_str(), nullptr, 10);
            }
            else if (a == "--cases")
            {
                cases = std::atoi(next().c_str());
            }
            else if (a == "--size")
            {
                size = std::atoi(next().c_str());
            }
            else if (a == "--out")
            {
                m_out = next();
            }
            else if (a == "--sub")
            {
                only = next();
            }
            else if (a == "--known")
            {
                // signatures of the open known findings (KNOWN_FINDINGS.txt, read by the driver)
                std::istringstream in(next());
                std::string        sig;
                while (std::getline(in, sig, ','))
                {
                    m_known.insert(sig);
                }
            }
            else if (a == "--list")
            {
                for (const auto& e : m_entries)
                {
                    std::printf("%s %g\n", e.sub.c_str(), e.weight);
                }
                return 0;
            }
            else
            {
                std::fprintf(stderr, "unknown argument %s\n", a.c_str());
                return 64;
            }
        }

        if (!replay.empty())
        {
            return do_replay(replay);
        }
        install_crash_dump(m_out + "/crash.case");

        double total = 0.0;
        for (const auto& e : m_entries)
        {
            if (only.empty() || only == e.sub)
            {
                total += e.weight;
            }
        }

        bool               any_failed = false;
        std::ostringstream json;
        json << "{\"property\":\"" << m_property << "\",\"seed\":" << seed << ",\"subs\":{";
        bool first = true;
        for (const auto& e : m_entries)
        {
            if (!only.empty() && only != e.sub)
            {
                continue;
            }
            sub_result_t res;
            const auto   n = std::max(1, static_cast<int>(std::lround(cases * e.weight / total)));
            e.run(seed * 1000003ULL + fnv1a(e.sub), n, size > 0 ? size : e.max_size, res);
            any_failed = any_failed || res.failed;

            json << (first ? "" : ",") << "\"" << e.sub << "\":{";
            first = false;
            json << "\"evaluations\":" << res.evaluations << ",\"nontrivial\":" << res.nontrivial
                 << ",\"borderline\":" << res.borderline << ",\"known\":" << res.known;
            const auto dump = [&](const char* key, const std::map<std::string, uint64_t>& m)
            {
                json << ",\"" << key << "\":{";
                bool f = true;
                for (const auto& [k, v] : m)
                {
                    json << (f ? "" : ",") << "\"" << json_escape(k) << "\":" << v;
                    f = false;
                }
                json << "}";
            };
            dump("discards", res.discards);
            dump("classes", res.classes);
            dump("known_sigs", res.known_sigs);
            json << ",\"maxima\":{";
            {
                bool f = true;
                for (const auto& [k, v] : res.maxima)
                {
                    json << (f ? "" : ",") << "\"" << json_escape(k) << "\":" << cat(v);
                    f = false;
                }
            }
            json << "},\"hashes\":[";
            {
                bool f = true;
                for (const auto h : res.hashes)
                {
                    json << (f ? "" : ",") << "\"" << std::hex << h << std::dec << "\"";
                    f = false;
                }
            }
            json << "],\"samples\":[";
            {
                bool f = true;
                for (const auto& s : res.samples)
                {
                    json << (f ? "" : ",") << "\"" << json_escape(s) << "\"";
                    f = false;
                }
            }
            json << "],\"failed\":" << (res.failed ? "true" : "false") << ",\"fail_sig\":\""
                 << json_escape(res.fail_sig) << "\",\"fail_msg\":\"" << json_escape(res.fail_msg)
                 << "\",\"fail_path\":\"" << json_escape(res.fail_path) << "\",\"gave_up\":\""
                 << json_escape(res.gave_up) << "\"}";
        }
        json << "}}\n";
        write_file(m_out + "/result.json", json.str());
        return any_failed ? 1 : 0;
    }

private:
    int do_replay(const std::string& path)
    {
        const auto text = read_file(path);
        reader_t   r(text);
        std::string sub;
        r("sub", sub);
        for (const auto& e : m_entries)
        {
            if (e.sub == sub)
            {
                ctx_t      ctx;
                verdict_t  v;
                try
                {
                    v = e.replay(text, ctx);
                }
                catch (const std::exception& ex)
                {
                    v = verdict_t::violation(m_property + "/harness-exception", ex.what());
                }
                if (v.kind == kind_t::known && m_known.count(v.sig) == 0)
                {
                    v.kind = kind_t::violation;
                }
                std::printf("VERDICT %s sig=%s nontrivial=%d msg=%s\n", name(v.kind), v.sig.empty() ? "-" : v.sig.c_str(),
                            ctx.nontrivial ? 1 : 0, v.msg.c_str());
                for (const auto& l : ctx.labels)
                {
                    std::printf("LABEL %s\n", l.c_str());
                }
                std::fflush(stdout);
                return v.kind == kind_t::violation ? 1 : (v.kind == kind_t::known ? 3 : 0);
            }
        }
        std::fprintf(stderr, "unknown sub-check %s\n", sub.c_str());
        return 64;
    }

    struct entry_t
    {
        std::string                                                  sub;
        double                                                       weight{1.0};
        int                                                          max_size{100};
        std::function<verdict_t(const std::string&, ctx_t&)>         replay;
        std::function<void(uint64_t, int, int, sub_result_t&)>       run;
    };

    std::string           m_property;
    std::string           m_out;
    std::set<std::string> m_known;
    std::vector<entry_t> m_entries;
};
} // namespace verif
