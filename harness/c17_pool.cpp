// C17 — thread pool runs every task exactly once, completes, shuts down cleanly
// (DESIGN.md section 5, C17): implementation exploration with generated configurations,
// generated schedule perturbation (delays at the NANO_VERIF schedule points), history
// invariants, trace conformance with the protocol rules and a progress watchdog.
// The same source is built in the plain and the tsan flavour.
#include "common.h"

#include <atomic>
#include <chrono>
#include <nano/core/parallel.h>
#include <nano/core/verif.h>
#include <thread>

using namespace verif;
namespace nv = nano::verif;

namespace
{
// ---------------------------------------------------------------------------------------
// trace + schedule perturbation
// ---------------------------------------------------------------------------------------
struct event_t
{
    uint8_t  point{0};
    uint16_t thread{0};
    uint32_t index{0};
    uint8_t  is_queue{0}; // event on the pool's queue (not on a section object)
};

constexpr size_t trace_capacity = size_t(1) << 21;

std::vector<event_t>  g_trace(trace_capacity);
std::atomic<size_t>   g_trace_n{0};
std::atomic<uint64_t> g_progress{0};
std::atomic<int>      g_active{0};
std::atomic<int>      g_next_thread{0};
std::atomic<int>      g_delay_kind[nv::npoints];
std::atomic<int>      g_delay_budget[nv::npoints];
std::atomic<int>      g_replay_mode{0};
const void*           g_queue = nullptr; // address of the queue of the pool under test (set before threads start)

thread_local int t_thread = -1;

void spin(int iterations)
{
    volatile int sink = 0;
    for (int i = 0; i < iterations; ++i)
    {
        sink = sink + i;
    }
}

void hook(int point, const void* object, std::size_t index)
{
    if (t_thread < 0)
    {
        t_thread = g_next_thread.fetch_add(1);
    }
    g_progress.fetch_add(1, std::memory_order_relaxed);
    const auto slot = g_trace_n.fetch_add(1, std::memory_order_relaxed);
    if (slot < trace_capacity)
    {
        auto& e    = g_trace[slot];
        e.point    = static_cast<uint8_t>(point);
        e.thread   = static_cast<uint16_t>(t_thread);
        e.index    = static_cast<uint32_t>(index);
        e.is_queue = object == g_queue ? 1 : 0;
    }
    // generated delay (only the first hits of a point are delayed so that cases stay short)
    const int kind = g_delay_kind[point].load(std::memory_order_relaxed);
    if (kind != 0 && g_delay_budget[point].fetch_sub(1, std::memory_order_relaxed) > 0)
    {
        switch (kind)
        {
        case 1: std::this_thread::yield(); break;
        case 2: spin(3000); break;
        case 3: std::this_thread::sleep_for(std::chrono::microseconds(100)); break;
        default: std::this_thread::sleep_for(std::chrono::milliseconds(2)); break;
        }
    }
}

// progress watchdog: work outstanding and no schedule-point event / task for a long time
constexpr int watchdog_seconds = 20;

// reads the trace while the (hung) threads may still own slots: diagnostic only, not instrumented
__attribute__((no_sanitize("thread"))) void watchdog()
{
    uint64_t last  = g_progress.load();
    int      quiet = 0;
    for (;;)
    {
        std::this_thread::sleep_for(std::chrono::seconds(1));
        const auto now = g_progress.load();
        if (g_active.load() == 0 || now != last)
        {
            last  = now;
            quiet = 0;
            continue;
        }
        if (++quiet >= watchdog_seconds)
        {
            // dump the tail of the trace, then the verdict (replay) or the case (generation)
            const auto n = std::min(g_trace_n.load(), trace_capacity);
            std::fprintf(stderr, "C17 watchdog: no progress for %d s with work outstanding; last events:\n", watchdog_seconds);
            for (size_t i = n > 60 ? n - 60 : 0; i < n; ++i)
            {
                std::fprintf(stderr, "  #%zu point=%d thread=%d index=%u queue=%d\n", i, g_trace[i].point, g_trace[i].thread, g_trace[i].index,
                             g_trace[i].is_queue);
            }
            if (g_replay_mode.load() != 0)
            {
                std::printf("VERDICT violation sig=C17/deadlock nontrivial=0 msg=no schedule-point event for %d s while work is outstanding\n",
                            watchdog_seconds);
                std::fflush(stdout);
                _exit(1);
            }
            crash_dump();
            _exit(97);
        }
    }
}

void start_watchdog_once()
{
    static std::atomic<int> started{0};
    if (started.exchange(1) == 0)
    {
        std::thread(watchdog).detach();
    }
}

// ---------------------------------------------------------------------------------------
// case
// ---------------------------------------------------------------------------------------
struct case_t
{
    int                           pool_size{2};
    int                           submitters{1};
    std::vector<int>              call_submitter, call_kind, call_elements, call_chunk, call_raise, call_work;
    std::vector<std::vector<int>> call_throws; // indices (index maps) / chunk ordinals (chunk maps) / task ordinals (enqueue) that throw
    int                           destroy_mode{0}; // 0 idle, 1 busy+queued with futures kept, 2 busy+queued with futures dropped
    int                           destroy_tasks{0};
    int                           destroy_work{0};
    std::vector<int>              delay_kind; // per schedule point

    template <class A>
    void io(A& a)
    {
        a("pool_size", pool_size);
        a("submitters", submitters);
        a("call_submitter", call_submitter);
        a("call_kind", call_kind);
        a("call_elements", call_elements);
        a("call_chunk", call_chunk);
        a("call_raise", call_raise);
        a("call_work", call_work);
        a("call_throws", call_throws);
        a("destroy_mode", destroy_mode);
        a("destroy_tasks", destroy_tasks);
        a("destroy_work", destroy_work);
        a("delay_kind", delay_kind);
    }
};

rc::Gen<case_t> gen_case()
{
    const auto sizes = rc::gen::oneOf(gen::range<int>(1, 4), gen::range<int>(1, 16), rc::gen::element(2, 3, 16));
    return rc::gen::mapcat(
        rc::gen::tuple(sizes, gen::range<int>(1, 4), gen::range<int>(1, 6)),
        [](const std::tuple<int, int, int>& psc)
        {
            const int  submitters = std::get<1>(psc);
            const auto call       = rc::gen::mapcat(
                rc::gen::tuple(gen::range<int>(0, submitters - 1), rc::gen::element(0, 0, 1, 1, 1, 2),
                               rc::gen::oneOf(gen::range<int>(0, 12), gen::range<int>(0, 300), gen::range<int>(0, 5000))),
                [](const std::tuple<int, int, int>& ske)
                {
                    const int  kind     = std::get<1>(ske);
                    const int  elements = kind == 2 ? std::min(std::get<2>(ske), 40) : std::get<2>(ske);
                    const auto chunk    = rc::gen::oneOf(rc::gen::element(1, 2, 7, std::max(1, elements - 1), std::max(1, elements), elements + 1),
                                                         gen::range<int>(1, std::max(1, elements + 1)));
                    const auto throws   = rc::gen::oneOf(rc::gen::just(std::vector<int>{}), rc::gen::just(std::vector<int>{}),
                                                         rc::gen::mapcat(rc::gen::element(1, 1, 2, 5),
                                                                         [elements](int count)
                                                                         { return rc::gen::container<std::vector<int>>(static_cast<size_t>(count), gen::range<int>(0, std::max(0, elements))); }));
                    return rc::gen::map(rc::gen::tuple(chunk, gen::chance(60), rc::gen::element(0, 0, 10, 200, 3000), throws),
                                        [=](const std::tuple<int, bool, int, std::vector<int>>& crwt)
                                        { return std::make_tuple(std::get<0>(ske), kind, elements, std::get<0>(crwt), std::get<1>(crwt) ? 1 : 0, std::get<2>(crwt), std::get<3>(crwt)); });
                });
            using call_t = std::tuple<int, int, int, int, int, int, std::vector<int>>;
            return rc::gen::map(
                rc::gen::tuple(rc::gen::container<std::vector<call_t>>(static_cast<size_t>(std::get<2>(psc)), call), rc::gen::element(0, 1, 1, 2),
                               gen::range<int>(1, 24), rc::gen::element(0, 100, 5000, 50000),
                               rc::gen::container<std::vector<int>>(static_cast<size_t>(nv::npoints), rc::gen::element(0, 0, 0, 0, 1, 2, 3, 4))),
                [=](const std::tuple<std::vector<call_t>, int, int, int, std::vector<int>>& t)
                {
                    case_t c;
                    c.pool_size  = std::get<0>(psc);
                    c.submitters = submitters;
                    for (const auto& k : std::get<0>(t))
                    {
                        c.call_submitter.push_back(std::get<0>(k));
                        c.call_kind.push_back(std::get<1>(k));
                        c.call_elements.push_back(std::get<2>(k));
                        c.call_chunk.push_back(std::get<3>(k));
                        c.call_raise.push_back(std::get<4>(k));
                        c.call_work.push_back(std::get<5>(k));
                        c.call_throws.push_back(std::get<6>(k));
                    }
                    c.destroy_mode  = std::get<1>(t);
                    c.destroy_tasks = std::get<2>(t);
                    c.destroy_work  = std::get<3>(t);
                    c.delay_kind    = std::get<4>(t);
                    return c;
                });
        });
}

// ---------------------------------------------------------------------------------------
// per-call record
// ---------------------------------------------------------------------------------------
struct call_record_t
{
    int                                   tasks{0}; // tasks the call consists of
    std::unique_ptr<std::atomic<int>[]>   hits;     // per index
    std::unique_ptr<std::atomic<int>[]>   owner;    // per worker id: a task of this call is running on it
    std::atomic<int>                      started{0}, finished{0};
    std::atomic<int>                      bad_tnum{0}, tnum_clash{0};
    std::atomic<uint64_t>                 tnum_mask{0};
    std::mutex                            mutex;
    std::vector<std::pair<int, int>>      chunks;
    bool                                  threw{false};   // the call raised in the caller
    bool                                  any_throwing{false};
    std::string                           what;
    int                                   finished_at_return{0};
    int                                   started_at_return{0};
};

// thrown by generated tasks; identified by its TYPE only: the exception object is shared (reference counted
// inside the uninstrumented libstdc++.so) between the future's state and the re-thrown copy, so READING it
// in the catching thread is reported by ThreadSanitizer as a race with the worker that drops the last reference
struct task_error
{
};

verdict_t check_case(const case_t& c, ctx_t& ctx)
{
    const auto ncalls = c.call_kind.size();
    if (c.pool_size < 1 || c.submitters < 1 || c.delay_kind.size() != static_cast<size_t>(nv::npoints) || c.call_submitter.size() != ncalls ||
        c.call_elements.size() != ncalls || c.call_chunk.size() != ncalls || c.call_raise.size() != ncalls || c.call_work.size() != ncalls ||
        c.call_throws.size() != ncalls)
    {
        return verdict_t::discard("malformed-case");
    }
    for (size_t k = 0; k < ncalls; ++k)
    {
        if (c.call_elements[k] < 0 || c.call_elements[k] > 5000 || c.call_chunk[k] < 1 || c.call_submitter[k] < 0 || c.call_submitter[k] >= c.submitters)
        {
            return verdict_t::discard("malformed-call");
        }
    }

    start_watchdog_once();

    // reset the global recording state
    g_trace_n.store(0);
    g_next_thread.store(0);
    t_thread = -1;
    for (int p = 0; p < nv::npoints; ++p)
    {
        g_delay_kind[p].store(c.delay_kind[static_cast<size_t>(p)]);
        g_delay_budget[p].store(c.delay_kind[static_cast<size_t>(p)] >= 3 ? 12 : 200);
    }

    nv::callback().store(&hook);
    g_active.store(1);

    auto       pool  = std::make_unique<nano::parallel::pool_t>(static_cast<size_t>(c.pool_size));
    const auto psize = pool->size();
    if (psize != static_cast<size_t>(std::min(c.pool_size, static_cast<int>(nano::parallel::pool_t::max_size()))))
    {
        g_active.store(0);
        nv::callback().store(nullptr);
        return verdict_t::violation("C17/pool/size", cat("size()=", psize, " requested ", c.pool_size));
    }

    std::vector<std::unique_ptr<call_record_t>> records;
    for (size_t k = 0; k < ncalls; ++k)
    {
        auto r     = std::make_unique<call_record_t>();
        const int n = c.call_elements[k];
        r->hits.reset(new std::atomic<int>[static_cast<size_t>(n) + 1]);
        for (int i = 0; i <= n; ++i)
        {
            r->hits[static_cast<size_t>(i)].store(0);
        }
        r->owner.reset(new std::atomic<int>[psize]);
        for (size_t i = 0; i < psize; ++i)
        {
            r->owner[i].store(0);
        }
        records.push_back(std::move(r));
    }

    const auto enter = [psize](call_record_t& r, size_t tnum)
    {
        r.started.fetch_add(1);
        g_progress.fetch_add(1, std::memory_order_relaxed);
        if (tnum >= psize)
        {
            r.bad_tnum.fetch_add(1);
            return false;
        }
        r.tnum_mask.fetch_or(uint64_t(1) << tnum);
        if (r.owner[tnum].exchange(1) != 0)
        {
            r.tnum_clash.fetch_add(1);
        }
        return true;
    };
    const auto leave = [](call_record_t& r, size_t tnum, bool entered)
    {
        if (entered)
        {
            r.owner[tnum].store(0);
        }
        r.finished.fetch_add(1);
    };

    // -- submitters ----------------------------------------------------------------------------
    const auto run_call = [&](size_t k)
    {
        auto&      r        = *records[k];
        const int  elements = c.call_elements[k];
        const int  chunk    = c.call_chunk[k];
        const int  work     = c.call_work[k];
        const bool raise    = c.call_raise[k] != 0;
        const auto& throws  = c.call_throws[k];
        const auto  throwing = [&throws](int ordinal) { return std::find(throws.begin(), throws.end(), ordinal) != throws.end(); };
        try
        {
            switch (c.call_kind[k])
            {
            case 0:
            {
                r.tasks = elements;
                for (int i = 0; i < elements; ++i)
                {
                    r.any_throwing = r.any_throwing || throwing(i);
                }
                pool->map(
                    elements,
                    [&r, &enter, &leave, &throwing, work](int index, size_t tnum)
                    {
                        const bool entered = enter(r, tnum);
                        r.hits[static_cast<size_t>(index)].fetch_add(1);
                        spin(work);
                        leave(r, tnum, entered);
                        if (throwing(index))
                        {
                            throw task_error{};
                        }
                    },
                    raise);
                break;
            }
            case 1:
            {
                r.tasks = (elements + chunk - 1) / chunk;
                for (int i = 0; i < r.tasks; ++i)
                {
                    r.any_throwing = r.any_throwing || throwing(i);
                }
                pool->map(
                    elements, chunk,
                    [&r, &enter, &leave, &throwing, work, chunk](int begin, int end, size_t tnum)
                    {
                        const bool entered = enter(r, tnum);
                        {
                            const std::scoped_lock lock(r.mutex);
                            r.chunks.emplace_back(begin, end);
                        }
                        for (int i = begin; i < end; ++i)
                        {
                            r.hits[static_cast<size_t>(i)].fetch_add(1);
                        }
                        spin(work);
                        leave(r, tnum, entered);
                        if (throwing(begin / chunk))
                        {
                            throw task_error{};
                        }
                    },
                    raise);
                break;
            }
            default:
            {
                r.tasks = elements;
                std::vector<nano::parallel::future_t> futures;
                for (int i = 0; i < elements; ++i)
                {
                    r.any_throwing = r.any_throwing || throwing(i);
                    futures.push_back(pool->enqueue(
                        [&r, &enter, &leave, &throwing, work, i](size_t tnum)
                        {
                            const bool entered = enter(r, tnum);
                            r.hits[static_cast<size_t>(i)].fetch_add(1);
                            spin(work);
                            leave(r, tnum, entered);
                            if (throwing(i))
                            {
                                throw task_error{};
                            }
                        }));
                }
                bool threw = false;
                for (auto& f : futures)
                {
                    try
                    {
                        f.get();
                    }
                    catch (const task_error&)
                    {
                        threw = true;
                    }
                }
                if (threw && raise)
                {
                    throw task_error{};
                }
                break;
            }
            }
        }
        catch (const task_error&)
        {
            r.threw = true;
            r.what  = "task";
        }
        catch (const std::exception& e)
        {
            r.threw = true;
            r.what  = std::string("other: ") + e.what();
        }
        r.finished_at_return = r.finished.load();
        r.started_at_return  = r.started.load();
    };

    {
        std::vector<std::thread> threads;
        for (int s = 0; s < c.submitters; ++s)
        {
            threads.emplace_back(
                [&, s]
                {
                    for (size_t k = 0; k < ncalls; ++k)
                    {
                        if (c.call_submitter[k] == s)
                        {
                            run_call(k);
                        }
                    }
                });
        }
        for (auto& t : threads)
        {
            t.join();
        }
    }

    // -- shutdown --------------------------------------------------------------------------------
    const int                             dtasks = c.destroy_mode == 0 ? 0 : std::max(1, c.destroy_tasks);
    std::unique_ptr<std::atomic<int>[]>   dhits(new std::atomic<int>[static_cast<size_t>(dtasks) + 1]);
    std::vector<nano::parallel::future_t> dfutures;
    std::atomic<int>                      dbad{0};
    for (int i = 0; i <= dtasks; ++i)
    {
        dhits[static_cast<size_t>(i)].store(0);
    }
    for (int i = 0; i < dtasks; ++i)
    {
        const int work = c.destroy_work;
        auto      f    = pool->enqueue(
            [&dhits, &dbad, i, work, psize](size_t tnum)
            {
                g_progress.fetch_add(1, std::memory_order_relaxed);
                if (tnum >= psize)
                {
                    dbad.fetch_add(1);
                }
                dhits[static_cast<size_t>(i)].fetch_add(1);
                spin(work);
            });
        if (c.destroy_mode == 1)
        {
            dfutures.push_back(std::move(f));
        }
    }
    pool.reset(); // the destructor must return (watchdog otherwise)
    g_active.store(0);
    nv::callback().store(nullptr);

    // -- history invariants -------------------------------------------------------------------------
    bool contention = false;
    for (size_t k = 0; k < ncalls; ++k)
    {
        const auto& r        = *records[k];
        const int   elements = c.call_elements[k];
        const char* kind     = c.call_kind[k] == 0 ? "map-index" : c.call_kind[k] == 1 ? "map-chunk" : "enqueue";

        if (r.bad_tnum.load() != 0)
        {
            return verdict_t::violation(cat("C17/", kind, "/worker-id-out-of-range"), cat("pool size ", psize));
        }
        if (r.tnum_clash.load() != 0)
        {
            return verdict_t::violation(cat("C17/", kind, "/worker-id-used-concurrently"), cat("call ", k));
        }
        for (int i = 0; i < elements; ++i)
        {
            if (r.hits[static_cast<size_t>(i)].load() > 1)
            {
                return verdict_t::violation(cat("C17/", kind, "/index-invoked-twice"), cat("call ", k, " index ", i, " hits ", r.hits[static_cast<size_t>(i)].load()));
            }
        }
        // nothing of this call may still be running when the call has returned
        if (r.started_at_return != r.finished_at_return || r.started.load() != r.started_at_return || r.finished.load() != r.finished_at_return)
        {
            return verdict_t::violation(cat("C17/", kind, "/returned-before-tasks-finished"),
                                        cat("call ", k, ": started ", r.started_at_return, " finished ", r.finished_at_return, " at return; finally ", r.started.load(), "/",
                                            r.finished.load()));
        }
        if (!r.threw)
        {
            // normal return: every index exactly once (a non-raising call swallows task exceptions)
            const bool serial_path = psize == 1 || (c.call_kind[k] == 0 ? elements <= 1 : (c.call_kind[k] == 1 ? c.call_chunk[k] >= elements : false));
            if (r.any_throwing && c.call_raise[k] != 0)
            {
                return verdict_t::violation(cat("C17/", kind, "/exception-not-rethrown"), cat("call ", k));
            }
            if (!(r.any_throwing && serial_path)) // a throwing task on the serial path stops the loop by propagating (then r.threw)
            {
                for (int i = 0; i < elements; ++i)
                {
                    if (r.hits[static_cast<size_t>(i)].load() != 1)
                    {
                        return verdict_t::violation(cat("C17/", kind, "/index-not-invoked"), cat("call ", k, " index ", i, " of ", elements));
                    }
                }
                if (r.finished.load() != r.tasks)
                {
                    return verdict_t::violation(cat("C17/", kind, "/task-count"), cat("call ", k, ": ", r.finished.load(), " tasks ran, expected ", r.tasks));
                }
            }
        }
        else
        {
            if (!r.any_throwing)
            {
                return verdict_t::violation(cat("C17/", kind, "/unexpected-exception"), cat("call ", k, ": ", r.what));
            }
            if (r.what != "task")
            {
                return verdict_t::violation(cat("C17/", kind, "/wrong-exception"), cat("call ", k, ": ", r.what));
            }
        }
        if (c.call_kind[k] == 1)
        {
            // chunks tile [0, elements) (those that ran; all of them on a normal return)
            auto chunks = r.chunks;
            std::sort(chunks.begin(), chunks.end());
            for (size_t i = 0; i < chunks.size(); ++i)
            {
                const auto [b, e] = chunks[i];
                const bool ok     = b >= 0 && b < e && e <= elements && b % c.call_chunk[k] == 0 && e == std::min(b + c.call_chunk[k], elements) &&
                                (i == 0 || chunks[i - 1].second <= b);
                if (!ok)
                {
                    return verdict_t::violation("C17/map-chunk/chunks-do-not-tile", cat("call ", k, " chunk [", b, ",", e, ") of ", elements, " by ", c.call_chunk[k]));
                }
            }
            if (!r.threw && !r.any_throwing && !chunks.empty() && (chunks.front().first != 0 || chunks.back().second != elements))
            {
                return verdict_t::violation("C17/map-chunk/chunks-do-not-cover", cat("call ", k));
            }
        }
        const auto mask = r.tnum_mask.load();
        contention      = contention || (mask & (mask - 1)) != 0; // at least two workers served this call
    }

    // shutdown: kept futures are ready; every queued task ran at most once
    int dran = 0, dbroken = 0;
    for (int i = 0; i < dtasks; ++i)
    {
        if (dhits[static_cast<size_t>(i)].load() > 1)
        {
            return verdict_t::violation("C17/shutdown/task-ran-twice", cat("task ", i));
        }
        dran += dhits[static_cast<size_t>(i)].load();
    }
    if (dbad.load() != 0)
    {
        return verdict_t::violation("C17/shutdown/worker-id-out-of-range");
    }
    for (auto& f : dfutures)
    {
        if (f.wait_for(std::chrono::seconds(0)) != std::future_status::ready)
        {
            return verdict_t::violation("C17/shutdown/future-never-ready", cat(dtasks, " tasks queued at destruction"));
        }
        try
        {
            f.get();
        }
        catch (const std::future_error&)
        {
            ++dbroken;
        }
    }
    if (c.destroy_mode == 1 && dran + dbroken != dtasks)
    {
        return verdict_t::violation("C17/shutdown/task-neither-run-nor-discarded", cat("ran ", dran, " broken ", dbroken, " of ", dtasks));
    }

    // -- trace conformance with the protocol rules --------------------------------------------------
    const auto n         = g_trace_n.load();
    bool       conformed = false;
    if (n <= trace_capacity)
    {
        // events on section objects (block_*) are not queue events; queue events are all others
        long              queued = 0;
        bool              stop   = false;
        int               exits = 0, joins = 0;
        std::vector<int>  wstate(psize, 0); // 0 idle, 1 waiting, 2 woke, 3 popped, 4 running, 5 stop-seen, 6 exited
        for (size_t i = 0; i < n; ++i)
        {
            const auto& e = g_trace[i];
            const auto  w = static_cast<size_t>(e.index);
            const auto  bad = [&](const char* what) { return verdict_t::violation(cat("C17/trace/", what), cat("event #", i, " point ", static_cast<int>(e.point), " worker ", e.index)); };
            switch (e.point)
            {
            case nv::enqueue_pushed:
            case nv::map_pushed:
                if (stop)
                {
                    return bad("push-after-stop");
                }
                ++queued;
                break;
            case nv::worker_wait:
                if (w >= psize || (wstate[w] != 0 && wstate[w] != 4))
                {
                    return bad("worker-wait-out-of-order");
                }
                wstate[w] = 1;
                break;
            case nv::worker_woke:
                if (w >= psize || wstate[w] != 1)
                {
                    return bad("worker-woke-out-of-order");
                }
                if (!(queued > 0 || stop))
                {
                    return bad("woke-without-work-or-stop");
                }
                wstate[w] = 2;
                break;
            case nv::worker_popped:
                if (w >= psize || wstate[w] != 2)
                {
                    return bad("worker-popped-out-of-order");
                }
                if (stop)
                {
                    return bad("pop-after-stop");
                }
                if (queued <= 0)
                {
                    return bad("pop-from-empty-queue");
                }
                --queued;
                wstate[w] = 3;
                break;
            case nv::worker_run:
                if (w >= psize || wstate[w] != 3)
                {
                    return bad("worker-run-out-of-order");
                }
                wstate[w] = 4;
                break;
            case nv::worker_ran:
                if (w >= psize || wstate[w] != 4)
                {
                    return bad("worker-ran-out-of-order");
                }
                break;
            case nv::worker_stop:
                if (w >= psize || wstate[w] != 2 || !stop)
                {
                    return bad("worker-stop-without-stop-flag");
                }
                queued    = 0;
                wstate[w] = 5;
                break;
            case nv::worker_exit:
                if (w >= psize || wstate[w] != 5)
                {
                    return bad("worker-exit-without-stop");
                }
                wstate[w] = 6;
                ++exits;
                break;
            case nv::pool_stop_set: stop = true; break;
            case nv::pool_join_end:
                ++joins;
                if (exits < joins)
                {
                    return bad("join-returned-before-worker-exit");
                }
                break;
            default: break;
            }
        }
        if (exits != static_cast<int>(psize) || joins != static_cast<int>(psize))
        {
            return verdict_t::violation("C17/trace/workers-not-all-terminated", cat("exits ", exits, " joins ", joins, " pool ", psize));
        }
        conformed = true;
    }

    ctx.label(cat("pool:", psize == 1 ? "1" : psize <= 3 ? "2-3" : psize <= 8 ? "4-8" : "9-16"));
    ctx.label(cat("submitters:", c.submitters));
    ctx.label(cat("destroy:", c.destroy_mode == 0 ? "idle" : c.destroy_mode == 1 ? "queued-kept" : "queued-dropped"));
    ctx.label_if(dbroken > 0, "destroy:tasks-discarded");
    ctx.label_if(contention, "two-workers-served-one-call");
    ctx.label_if(conformed, "trace-conformed");
    bool any_throw = false, any_delay = false;
    for (size_t k = 0; k < ncalls; ++k)
    {
        any_throw = any_throw || records[k]->any_throwing;
    }
    for (const auto d : c.delay_kind)
    {
        any_delay = any_delay || d != 0;
    }
    ctx.label_if(any_throw, "throwing-task");
    ctx.label_if(any_delay, "delays");
    ctx.maximum("trace-events", static_cast<double>(n));
    ctx.nontrivial = psize >= 2 && contention && conformed;
    return verdict_t::ok();
}
} // namespace

int main(int argc, char** argv)
{
    for (int i = 1; i < argc; ++i)
    {
        if (std::string(argv[i]) == "--replay")
        {
            g_replay_mode.store(1);
        }
    }
    suite_t suite("C17");
    suite.add<case_t>("pool", gen_case, check_case, 1.0);
    return suite.main(argc, argv);
}
