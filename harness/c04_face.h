// C04 — does the optimal face of  min 1/2 x'Qx + c'x, Ax = b, Gx <= h  have a non-trivial recession direction?
//
// The optimal face {x feasible, f(x) = f*} (non-empty) has the recession cone
//     C = { d : Q d = 0, A d = 0, c.d = 0, G d <= 0 }      (all inequality rows)
// The decision is made in floating point (null space by SVD, then a small dense simplex on the cone),
// but an `unbounded` answer is only given together with a direction d that is re-verified against the
// original data:  |K d| <= 1e-9 row-wise relative, G d <= 1e-9 relative, |d|_2 = 1.
// `bounded` / `undetermined` never excuse anything (the known-finding class needs `unbounded`).
#pragma once

#include <Eigen/Dense>
#include <vector>

namespace c04
{
using Eigen::MatrixXd;
using Eigen::VectorXd;

enum class face_kind
{
    bounded,
    unbounded,
    undetermined
};

struct face_t
{
    face_kind kind{face_kind::undetermined};
    VectorXd  d;           // verified recession direction (unbounded)
    bool      line{false}; // the face contains a whole line (G d = 0)
};

// maximise p.z subject to M z <= q (q >= 0), z free.  Bland's rule, dense tableau.  false: no answer.
inline bool simplex_max(const MatrixXd& M, const VectorXd& q, const VectorXd& p, VectorXd& z, double& value)
{
    const int m  = static_cast<int>(M.rows());
    const int k  = static_cast<int>(M.cols());
    const int nc = 2 * k + m;
    MatrixXd  T  = MatrixXd::Zero(m + 1, nc + 1);
    T.block(0, 0, m, k)     = M;
    T.block(0, k, m, k)     = -M;
    T.block(0, 2 * k, m, m) = MatrixXd::Identity(m, m);
    T.col(nc).head(m)       = q;
    T.row(m).head(k)        = -p.transpose();
    T.row(m).segment(k, k)  = p.transpose();
    std::vector<int> basis(static_cast<size_t>(m));
    for (int i = 0; i < m; ++i)
    {
        basis[static_cast<size_t>(i)] = 2 * k + i;
    }
    const double tol = 1e-11;
    for (int iter = 0; iter < 20000; ++iter)
    {
        int e = -1;
        for (int j = 0; j < nc; ++j)
        {
            if (T(m, j) < -tol)
            {
                e = j;
                break;
            }
        }
        if (e < 0)
        {
            z = VectorXd::Zero(k);
            for (int i = 0; i < m; ++i)
            {
                const int bj = basis[static_cast<size_t>(i)];
                if (bj < k)
                {
                    z(bj) += T(i, nc);
                }
                else if (bj < 2 * k)
                {
                    z(bj - k) -= T(i, nc);
                }
            }
            value = T(m, nc);
            return true;
        }
        int    l    = -1;
        double best = 0.0;
        for (int i = 0; i < m; ++i)
        {
            if (T(i, e) > tol)
            {
                const double ratio = T(i, nc) / T(i, e);
                if (l < 0 || ratio < best - 1e-13 ||
                    (ratio <= best + 1e-13 && basis[static_cast<size_t>(i)] < basis[static_cast<size_t>(l)]))
                {
                    best = ratio;
                    l    = i;
                }
            }
        }
        if (l < 0)
        {
            return false; // unbounded: cannot happen for the problems posed here
        }
        T.row(l) /= T(l, e);
        for (int i = 0; i <= m; ++i)
        {
            if (i != l && T(i, e) != 0.0)
            {
                T.row(i) -= T(i, e) * T.row(l);
            }
        }
        basis[static_cast<size_t>(l)] = e;
    }
    return false;
}

// null space of the rows of K (already scaled); ambiguous = a singular value in the grey zone
inline MatrixXd null_space(const MatrixXd& K, const int n, bool& ambiguous)
{
    ambiguous = false;
    if (K.rows() == 0)
    {
        return MatrixXd::Identity(n, n);
    }
    Eigen::JacobiSVD<MatrixXd> svd(K, Eigen::ComputeFullV);
    const auto&                s    = svd.singularValues();
    const double               smax = s.size() > 0 ? s(0) : 0.0;
    int                        rank = 0;
    for (int i = 0; i < s.size(); ++i)
    {
        if (smax > 0.0 && s(i) > 1e-7 * smax)
        {
            ++rank;
        }
        else if (smax > 0.0 && s(i) > 1e-12 * smax)
        {
            ambiguous = true;
        }
    }
    return svd.matrixV().rightCols(n - rank);
}

inline face_t optimal_face_recession(const MatrixXd& Q, const VectorXd& c, const MatrixXd& A, const MatrixXd& G)
{
    face_t    face;
    const int n = static_cast<int>(c.size());

    // K: rows that must vanish on d (each scaled to unit size, zero rows skipped)
    std::vector<VectorXd> krows;
    if (Q.size() > 0)
    {
        const double qn = Q.norm();
        if (qn > 0.0)
        {
            for (int i = 0; i < Q.rows(); ++i)
            {
                krows.emplace_back(Q.row(i).transpose() / qn);
            }
        }
    }
    for (int i = 0; i < A.rows(); ++i)
    {
        const double an = A.row(i).norm();
        if (an > 0.0)
        {
            krows.emplace_back(A.row(i).transpose() / an);
        }
    }
    if (c.norm() > 0.0)
    {
        krows.emplace_back(c / c.norm());
    }
    MatrixXd K(static_cast<long>(krows.size()), n);
    for (size_t i = 0; i < krows.size(); ++i)
    {
        K.row(static_cast<long>(i)) = krows[i].transpose();
    }

    bool           ambiguous = false;
    const MatrixXd N         = null_space(K, n, ambiguous);
    const int      k         = static_cast<int>(N.cols());
    if (k == 0)
    {
        face.kind = ambiguous ? face_kind::undetermined : face_kind::bounded;
        return face;
    }

    std::vector<VectorXd> grows;
    for (int i = 0; i < G.rows(); ++i)
    {
        const double gn = G.row(i).norm();
        if (gn > 0.0)
        {
            grows.emplace_back(G.row(i).transpose() / gn);
        }
    }
    MatrixXd Gh(static_cast<long>(grows.size()), n);
    for (size_t i = 0; i < grows.size(); ++i)
    {
        Gh.row(static_cast<long>(i)) = grows[i].transpose();
    }
    // cone in null-space coordinates: W z <= 0. Rows and basis are unit-scaled, so an entry at rounding level is a zero (an
    // inequality row parallel to an equality row / to c gives W = 1e-17, which the relative rank test below would take for rank 1)
    const MatrixXd W = (Gh * N).unaryExpr([](double w) { return std::fabs(w) <= 1e-12 ? 0.0 : w; });

    VectorXd z;
    bool     found = false;
    bool     line  = false;
    if (W.rows() == 0)
    {
        z     = VectorXd::Unit(k, 0);
        found = true;
        line  = true;
    }
    else
    {
        // maximise -(1'W) z  s.t.  W z <= 0,  -(1'W) z <= 1 : value 1 iff some cone element has W z != 0
        const int      m = static_cast<int>(W.rows());
        const VectorXd p = -W.colwise().sum().transpose();
        MatrixXd       M(m + 1, k);
        M.topRows(m)     = W;
        M.row(m)         = p.transpose();
        VectorXd q       = VectorXd::Zero(m + 1);
        q(m)             = 1.0;
        double   value   = 0.0;
        VectorXd zz;
        if (!simplex_max(M, q, p, zz, value))
        {
            return face; // undetermined
        }
        if (value > 0.5)
        {
            z     = zz;
            found = true;
        }
        else
        {
            // the cone is the null space of W
            bool           amb2 = false;
            const MatrixXd NW   = null_space(W, k, amb2);
            if (NW.cols() > 0)
            {
                z     = NW.col(NW.cols() - 1);
                found = true;
                line  = true;
            }
            else if (amb2 || value > 1e-6)
            {
                return face; // undetermined
            }
        }
    }
    if (!found)
    {
        face.kind = ambiguous ? face_kind::undetermined : face_kind::bounded;
        return face;
    }

    // verification of the direction against the original (scaled) rows
    VectorXd d = N * z;
    if (!(d.norm() > 0.0) || !d.allFinite())
    {
        return face;
    }
    d /= d.norm();
    const double kres = K.rows() > 0 ? (K * d).cwiseAbs().maxCoeff() : 0.0;
    const double gmax = Gh.rows() > 0 ? (Gh * d).maxCoeff() : 0.0;
    if (kres <= 1e-9 && gmax <= 1e-9)
    {
        face.kind = face_kind::unbounded;
        face.d    = d;
        face.line = line && (Gh.rows() == 0 || (Gh * d).cwiseAbs().maxCoeff() <= 1e-9);
    }
    return face;
}
} // namespace c04
