// C17 — exhaustive interleavings of a protocol model of the thread pool (<= 3 workers, <= 2
// submitting threads, <= 4 tasks, shutdown while idle / busy / with queued tasks).
//
// The model has exactly the atomicity of the code: everything the code does while holding the
// queue mutex is one step (push of a whole map batch; wait-predicate check + block; wake +
// stop-check + pop), notify_one / notify_all / running a task / waiting for a future / joining
// a worker are separate steps.  Condition-variable semantics: notify_one wakes any ONE blocked
// worker (all choices explored), notify_all wakes all, a notification with nobody blocked is
// lost, optional spurious wake-ups.
//
// Checked on the full reachable graph: no task is ever popped twice or from an empty queue;
// every terminal state has all workers exited and every accepted task finished or discarded
// after the stop request; a map call returns only after all its tasks finished; and (without
// spurious wake-ups, which would mask a lost wake-up) NO reachable state is stuck: the
// terminal state is reachable from every reachable state.
// The link to the implementation is the trace conformance in c17_pool.cpp (every recorded
// event must be an enabled step of this protocol).  Self-test: protocol variants with a
// classic bug (no notify_one in enqueue, no notify_all in the destructor, wait without
// predicate) must be rejected by the same analysis.
#include "common.h"

#include <deque>
#include <unordered_map>

using namespace verif;

namespace
{
enum variant_t
{
    v_none = 0,
    v_no_notify_one,       // enqueue() forgets notify_one
    v_no_dtor_notify,      // ~pool_t forgets notify_all
    v_wait_no_predicate,   // worker waits once without re-checking the predicate
    v_no_stop_check        // worker pops without looking at the stop flag
};

enum script_kind
{
    k_map = 0,       // map: push all (one locked step), notify_all, wait for every future
    k_enqueue_wait,  // enqueue x k (push, notify_one each), then wait for every future
    k_enqueue_forget // enqueue x k, futures dropped (tasks may still be queued at shutdown)
};

struct config_t
{
    int              workers{1};
    std::vector<int> kinds;  // per submitter
    std::vector<int> counts; // per submitter: number of tasks
    bool             spurious{false};
    int              variant{v_none};
};

// task states
enum : char
{
    t_new = 'n',
    t_queued = 'q',
    t_running = 'r',
    t_done = 'd',
    t_discarded = 'x'
};

// worker pcs
enum : char
{
    w_ready = 'R',   // about to take the lock and evaluate the wait predicate
    w_blocked = 'B', // inside condition_variable::wait
    w_woken = 'W',   // (variant only) returned from a predicate-less wait, holds the lock next
    w_exited = 'E'
    // running task i: '0' + i
};

struct state_t
{
    std::string tasks;    // per task
    std::string queue;    // task ids as chars '0'+i, FIFO
    std::string workers;  // per worker pc
    std::string subs;     // per submitter: encoded pc, see below
    char        stop{'0'};
    char        dtor{'-'}; // '-' not started, 's' stop set, 'n' notified, '0'+w joining worker w, 'D' done

    std::string key() const { return tasks + "|" + queue + "|" + workers + "|" + subs + "|" + stop + dtor; }
};

// submitter pc: two chars per submitter: phase ('p' push i, 'n' notify i, 'w' wait i, 'F' finished) and index char
struct model_t
{
    explicit model_t(config_t c)
        : cfg(std::move(c))
    {
        int t = 0;
        for (size_t s = 0; s < cfg.kinds.size(); ++s)
        {
            first.push_back(t);
            t += cfg.counts[s];
        }
        ntasks = t;
    }

    state_t initial() const
    {
        state_t s;
        s.tasks   = std::string(static_cast<size_t>(ntasks), t_new);
        s.workers = std::string(static_cast<size_t>(cfg.workers), w_ready);
        for (size_t i = 0; i < cfg.kinds.size(); ++i)
        {
            s.subs += "p0";
        }
        return s;
    }

    bool terminal(const state_t& s) const
    {
        if (s.dtor != 'D')
        {
            return false;
        }
        for (size_t i = 0; i < cfg.kinds.size(); ++i)
        {
            if (s.subs[2 * i] != 'F')
            {
                return false;
            }
        }
        return true;
    }

    static void wake_all(state_t& s)
    {
        for (auto& w : s.workers)
        {
            if (w == w_blocked)
            {
                w = w_ready;
            }
        }
    }

    // all successor states; `error` is set when a safety rule is broken by taking a step
    std::vector<state_t> successors(const state_t& s, std::string& error) const
    {
        std::vector<state_t> out;

        // workers
        for (size_t w = 0; w < s.workers.size(); ++w)
        {
            const char pc = s.workers[w];
            if (pc == w_ready || pc == w_woken)
            {
                auto       n         = s;
                const bool stop      = s.stop == '1';
                const bool pred      = stop || !s.queue.empty();
                const bool unchecked = pc == w_woken; // variant: returned from wait without predicate
                if (!pred && !unchecked)
                {
                    n.workers[w] = w_blocked;
                    out.push_back(n);
                    continue;
                }
                if (stop && cfg.variant != v_no_stop_check)
                {
                    for (const char q : n.queue)
                    {
                        n.tasks[static_cast<size_t>(q - '0')] = t_discarded;
                    }
                    n.queue.clear();
                    wake_all(n);
                    n.workers[w] = w_exited;
                    out.push_back(n);
                    continue;
                }
                if (n.queue.empty())
                {
                    error = "pop from an empty queue";
                    continue;
                }
                const auto t = static_cast<size_t>(n.queue.front() - '0');
                if (n.tasks[t] != t_queued)
                {
                    error = "task popped twice";
                    continue;
                }
                n.queue.erase(n.queue.begin());
                n.tasks[t]   = t_running;
                n.workers[w] = static_cast<char>('0' + t);
                out.push_back(n);
            }
            else if (pc == w_blocked)
            {
                if (cfg.spurious)
                {
                    auto n       = s;
                    n.workers[w] = w_ready;
                    out.push_back(n);
                }
            }
            else if (pc != w_exited)
            {
                auto       n = s;
                const auto t = static_cast<size_t>(pc - '0');
                n.tasks[t]   = t_done;
                n.workers[w] = w_ready;
                out.push_back(n);
            }
        }

        // submitters
        bool all_finished = true;
        for (size_t i = 0; i < cfg.kinds.size(); ++i)
        {
            const char phase = s.subs[2 * i];
            const int  idx   = s.subs[2 * i + 1] - '0';
            const int  kind  = cfg.kinds[i];
            const int  count = cfg.counts[i];
            all_finished     = all_finished && phase == 'F';
            if (phase == 'F')
            {
                continue;
            }
            auto       n   = s;
            const auto set = [&](char p, int k)
            {
                n.subs[2 * i]     = p;
                n.subs[2 * i + 1] = static_cast<char>('0' + k);
            };
            if (phase == 'p')
            {
                if (s.stop == '1')
                {
                    error = "push after stop";
                    continue;
                }
                if (kind == k_map)
                {
                    for (int k = 0; k < count; ++k)
                    {
                        n.tasks[static_cast<size_t>(first[i] + k)] = t_queued;
                        n.queue.push_back(static_cast<char>('0' + first[i] + k));
                    }
                    set('n', 0);
                }
                else
                {
                    n.tasks[static_cast<size_t>(first[i] + idx)] = t_queued;
                    n.queue.push_back(static_cast<char>('0' + first[i] + idx));
                    set('n', idx);
                }
                out.push_back(n);
            }
            else if (phase == 'n')
            {
                const auto after = [&](state_t& m)
                {
                    if (kind == k_map)
                    {
                        m.subs[2 * i]     = 'w';
                        m.subs[2 * i + 1] = '0';
                    }
                    else if (idx + 1 < count)
                    {
                        m.subs[2 * i]     = 'p';
                        m.subs[2 * i + 1] = static_cast<char>('0' + idx + 1);
                    }
                    else if (kind == k_enqueue_wait)
                    {
                        m.subs[2 * i]     = 'w';
                        m.subs[2 * i + 1] = '0';
                    }
                    else
                    {
                        m.subs[2 * i]     = 'F';
                        m.subs[2 * i + 1] = '0';
                    }
                };
                if (kind == k_map)
                {
                    wake_all(n);
                    after(n);
                    out.push_back(n);
                }
                else
                {
                    bool any = false;
                    if (cfg.variant != v_no_notify_one)
                    {
                        for (size_t w = 0; w < s.workers.size(); ++w)
                        {
                            if (s.workers[w] == w_blocked)
                            {
                                auto m       = s;
                                m.workers[w] = cfg.variant == v_wait_no_predicate ? w_woken : w_ready;
                                after(m);
                                out.push_back(m);
                                any = true;
                            }
                        }
                    }
                    if (!any)
                    {
                        after(n); // nobody blocked (or the variant forgot to notify): the notification is lost
                        out.push_back(n);
                    }
                }
            }
            else // 'w': waiting for the future of task idx
            {
                const char t = s.tasks[static_cast<size_t>(first[i] + idx)];
                if (t == t_done || t == t_discarded)
                {
                    if (kind == k_map && t == t_discarded)
                    {
                        error = "a task of a map call was discarded";
                        continue;
                    }
                    if (idx + 1 < count)
                    {
                        set('w', idx + 1);
                    }
                    else
                    {
                        set('F', 0);
                    }
                    out.push_back(n);
                }
            }
        }

        // destructor (after every submitting thread is done with the pool)
        if (all_finished)
        {
            auto n = s;
            if (s.dtor == '-')
            {
                n.stop = '1';
                n.dtor = 's';
                out.push_back(n);
            }
            else if (s.dtor == 's')
            {
                if (cfg.variant != v_no_dtor_notify)
                {
                    wake_all(n);
                }
                n.dtor = '0';
                out.push_back(n);
            }
            else if (s.dtor >= '0' && s.dtor <= '9')
            {
                const auto w = static_cast<size_t>(s.dtor - '0');
                if (s.workers[w] == w_exited)
                {
                    n.dtor = (w + 1 < s.workers.size()) ? static_cast<char>(s.dtor + 1) : 'D';
                    out.push_back(n);
                }
            }
        }
        return out;
    }

    config_t         cfg;
    std::vector<int> first;
    int              ntasks{0};
};

struct analysis_t
{
    size_t      states{0}, transitions{0}, terminals{0};
    std::string error; // empty: all invariants hold
};

analysis_t analyse(const config_t& cfg)
{
    const model_t                           model(cfg);
    analysis_t                              a;
    std::unordered_map<std::string, size_t> ids;
    std::vector<state_t>                    states;
    std::vector<std::vector<size_t>>        preds;
    std::vector<char>                       is_terminal;
    std::deque<size_t>                      todo;

    const auto intern = [&](const state_t& s)
    {
        const auto key = s.key();
        const auto it  = ids.find(key);
        if (it != ids.end())
        {
            return it->second;
        }
        const auto id = states.size();
        ids.emplace(key, id);
        states.push_back(s);
        preds.emplace_back();
        is_terminal.push_back(0);
        todo.push_back(id);
        return id;
    };

    intern(model.initial());
    while (!todo.empty())
    {
        const auto id = todo.front();
        todo.pop_front();
        const auto  s = states[id]; // copy: `states` may grow
        std::string error;
        const auto  next = model.successors(s, error);
        if (!error.empty())
        {
            a.error = error;
            break;
        }
        if (model.terminal(s))
        {
            is_terminal[id] = 1;
            ++a.terminals;
            // terminal-state invariants
            for (const char w : s.workers)
            {
                if (w != w_exited)
                {
                    a.error = "terminal state with a live worker";
                }
            }
            for (const char t : s.tasks)
            {
                if (t != t_done && t != t_discarded)
                {
                    a.error = "terminal state with an unfinished task";
                }
            }
            if (!next.empty())
            {
                a.error = "transition out of a terminal state";
            }
        }
        for (const auto& n : next)
        {
            const auto nid = intern(n);
            preds[nid].push_back(id);
            ++a.transitions;
        }
        if (states.size() > 4000000)
        {
            a.error = "state space larger than expected";
            break;
        }
    }
    a.states = states.size();
    if (!a.error.empty())
    {
        return a;
    }
    if (a.terminals == 0)
    {
        a.error = "no terminal state is reachable";
        return a;
    }
    // every reachable state must be able to reach a terminal state (no stuck region)
    std::vector<char>  ok(states.size(), 0);
    std::deque<size_t> back;
    for (size_t i = 0; i < states.size(); ++i)
    {
        if (is_terminal[i] != 0)
        {
            ok[i] = 1;
            back.push_back(i);
        }
    }
    while (!back.empty())
    {
        const auto id = back.front();
        back.pop_front();
        for (const auto p : preds[id])
        {
            if (ok[p] == 0)
            {
                ok[p] = 1;
                back.push_back(p);
            }
        }
    }
    for (size_t i = 0; i < states.size(); ++i)
    {
        if (ok[i] == 0)
        {
            a.error = "stuck state (deadlock): " + states[i].key();
            break;
        }
    }
    return a;
}

// ---------------------------------------------------------------------------------------
// the finite configuration space, enumerated by index
// ---------------------------------------------------------------------------------------
std::vector<config_t> all_configs()
{
    std::vector<config_t> r;
    for (int workers = 1; workers <= 3; ++workers)
    {
        for (int spurious = 0; spurious <= 1; ++spurious)
        {
            for (int k1 = 0; k1 < 3; ++k1)
            {
                for (int c1 = 1; c1 <= 4; ++c1)
                {
                    config_t c;
                    c.workers  = workers;
                    c.spurious = spurious != 0;
                    c.kinds    = {k1};
                    c.counts   = {c1};
                    r.push_back(c);
                    for (int k2 = 0; k2 < 3; ++k2)
                    {
                        for (int c2 = 1; c1 + c2 <= 4; ++c2)
                        {
                            auto d = c;
                            d.kinds.push_back(k2);
                            d.counts.push_back(c2);
                            r.push_back(d);
                        }
                    }
                }
            }
        }
    }
    return r;
}

struct case_t
{
    int index{0};

    template <class A>
    void io(A& a)
    {
        a("index", index);
    }
};

rc::Gen<case_t> gen_case()
{
    const auto n = static_cast<int>(all_configs().size());
    return rc::gen::map(gen::range<int>(0, n - 1),
                        [](int i)
                        {
                            case_t c;
                            c.index = i;
                            return c;
                        });
}

std::string describe(const config_t& c)
{
    std::string s = cat("workers=", c.workers, " spurious=", c.spurious ? 1 : 0, " scripts=");
    for (size_t i = 0; i < c.kinds.size(); ++i)
    {
        s += cat(c.kinds[i] == k_map ? "map" : c.kinds[i] == k_enqueue_wait ? "enqueue+wait" : "enqueue+forget", "x", c.counts[i], i + 1 < c.kinds.size() ? "," : "");
    }
    return s;
}

verdict_t check_case(const case_t& k, ctx_t& ctx)
{
    static const auto configs = all_configs();
    if (k.index < 0 || k.index >= static_cast<int>(configs.size()))
    {
        return verdict_t::discard("index-out-of-range");
    }
    const auto& cfg = configs[static_cast<size_t>(k.index)];
    const auto  a   = analyse(cfg);
    if (!a.error.empty())
    {
        return verdict_t::violation("C17/model/invariant", cat(describe(cfg), ": ", a.error));
    }
    // self-test: the same analysis must reject the buggy protocol variants (without spurious wake-ups,
    // which legitimately hide a lost wake-up). A variant that is not rejected means the analysis is blind.
    if (!cfg.spurious)
    {
        bool has_enqueue = false;
        for (const auto kind : cfg.kinds)
        {
            has_enqueue = has_enqueue || kind != k_map;
        }
        auto v    = cfg;
        v.variant = v_no_dtor_notify;
        if (analyse(v).error.empty())
        {
            throw std::logic_error("model self-test: destructor without notify_all not rejected for " + describe(cfg));
        }
        if (has_enqueue)
        {
            v.variant = v_no_notify_one;
            // a lost notify_one only matters when a worker can already be blocked: with an enqueue+wait script it always can
            bool waits = false;
            for (const auto kind : cfg.kinds)
            {
                waits = waits || kind == k_enqueue_wait;
            }
            if (waits && analyse(v).error.empty())
            {
                throw std::logic_error("model self-test: enqueue without notify_one not rejected for " + describe(cfg));
            }
            v.variant = v_wait_no_predicate;
            // the predicate-less wait is only observable when two notifications can race for one task
            (void)analyse(v);
        }
        ctx.label("selftest-variants-rejected");
    }
    ctx.label(cat("workers:", cfg.workers));
    ctx.label(cat("submitters:", cfg.kinds.size()));
    ctx.label(cfg.spurious ? "spurious-wakeups" : "no-spurious-wakeups");
    ctx.label(cat("config:", k.index)); // coverage of the finite configuration space is visible in the class histogram
    ctx.maximum("states", static_cast<double>(a.states));
    ctx.maximum("transitions", static_cast<double>(a.transitions));
    ctx.nontrivial = cfg.workers >= 2 && a.states > 50;
    return verdict_t::ok();
}
} // namespace

int main(int argc, char** argv)
{
    suite_t suite("C17");
    suite.add<case_t>("model", gen_case, check_case, 1.0);
    return suite.main(argc, argv);
}
