// C20 — order statistics and histograms vs a sorted-array reference (DESIGN.md section 5, C20).
#include "common.h"

#include <nano/core/histogram.h>
#include <nano/core/stats.h>
#include <nano/machine/stats.h>

using namespace verif;

namespace
{
constexpr double eps = std::numeric_limits<double>::epsilon();

// ---- reference ---------------------------------------------------------------------------
struct position_t
{
    long   lo{0}, hi{0};    // exact floor / ceil of p*(n-1)/100
    bool   near_int{false}; // exact position within 1e-9 of an integer without being one
    long   nearest{0};
};

position_t exact_position(double p, long n)
{
    // p has 53 significant bits, n-1 < 2^10: the product is exact in long double (64 bits)
    const long double q = static_cast<long double>(p) * static_cast<long double>(n - 1);
    position_t        r;
    if (std::fmod(q, 100.0L) == 0.0L)
    {
        r.lo = r.hi = static_cast<long>(q / 100.0L);
        return r;
    }
    long k = static_cast<long>(std::floor(q / 100.0L));
    while (static_cast<long double>(k + 1) * 100.0L <= q)
    {
        ++k;
    }
    while (static_cast<long double>(k) * 100.0L > q)
    {
        --k;
    }
    r.lo               = k;
    r.hi               = k + 1;
    const long double f = q / 100.0L - static_cast<long double>(k);
    if (f < 1e-9L)
    {
        r.near_int = true;
        r.nearest  = k;
    }
    else if (f > 1.0L - 1e-9L)
    {
        r.near_int = true;
        r.nearest  = k + 1;
    }
    return r;
}

// all values the statement allows for percentile p of the sorted list
std::vector<double> accepted_percentiles(const std::vector<double>& sorted, double p, bool& ambiguous)
{
    const auto          n   = static_cast<long>(sorted.size());
    const auto          pos = exact_position(p, n);
    std::vector<double> acc;
    const auto          mid = [&](long a, long b) { return (sorted[static_cast<size_t>(a)] + sorted[static_cast<size_t>(b)]) / 2; };
    acc.push_back(pos.lo == pos.hi ? sorted[static_cast<size_t>(pos.lo)] : mid(pos.lo, pos.hi));
    ambiguous = pos.near_int;
    if (pos.near_int)
    {
        // the floating-point position the library has to compute may round onto the integer
        acc.push_back(sorted[static_cast<size_t>(pos.nearest)]);
        if (pos.nearest > 0)
        {
            acc.push_back(mid(pos.nearest - 1, pos.nearest));
        }
        if (pos.nearest + 1 < n)
        {
            acc.push_back(mid(pos.nearest, pos.nearest + 1));
        }
    }
    return acc;
}

bool same(double a, double b)
{
    return (std::isnan(a) && std::isnan(b)) || a == b;
}

bool among(double v, const std::vector<double>& acc)
{
    for (const auto a : acc)
    {
        if (same(v, a))
        {
            return true;
        }
    }
    return false;
}

// ---- percentile sub-check ------------------------------------------------------------------
struct pcase_t
{
    bool                integers{false};
    std::vector<double> values;
    std::vector<double> percentages;

    template <class A>
    void io(A& a)
    {
        a("integers", integers);
        a("values", values);
        a("percentages", percentages);
    }
};

rc::Gen<std::vector<double>> gen_values(bool integers, size_t maxn)
{
    return rc::gen::mapcat(
        gen::range<int>(0, 5),
        [=](int style) -> rc::Gen<std::vector<double>>
        {
            rc::Gen<double> elem = gen::smallint(-4, 4);
            if (integers)
            {
                elem = style == 0   ? gen::smallint(-3, 3)
                       : style == 1 ? gen::smallint(-1000, 1000)
                       : style == 2 ? gen::smallint(0, 1)
                       : style == 3 ? gen::smallint(-100000, 100000)
                       : style == 4 ? gen::smallint(-30000, 30000)       // sums beyond 16 bits
                                    : gen::smallint(-1000000000, 1000000000); // sums beyond 32 bits
            }
            else
            {
                elem = style == 0   ? gen::smallint(-3, 3)
                       : style == 1 ? gen::sym(1.0)
                       : style == 2 ? rc::gen::map(gen::smallint(-20, 20), [](double v) { return v / 10.0; })
                       : style == 3 ? gen::sym(1e6)
                       : style == 4 ? rc::gen::map(gen::smallint(-4000, 4000), [](double v) { return v / 8.0; })          // floats
                                    : rc::gen::map(gen::smallint(-8000000, 8000000), [](double v) { return v * 0.5; }); // floats with 23-bit mantissas
            }
            return rc::gen::mapcat(gen::range<size_t>(1, maxn),
                                   [=](size_t n) { return rc::gen::container<std::vector<double>>(n, elem); });
        });
}

rc::Gen<pcase_t> gen_pcase()
{
    return rc::gen::mapcat(
        rc::gen::arbitrary<bool>(),
        [](bool integers)
        {
            // sizes: mostly small (every remainder class of n-1), some up to 500
            const auto sizes = rc::gen::oneOf(gen::range<size_t>(1, 12), gen::range<size_t>(1, 40), gen::range<size_t>(1, 500));
            return rc::gen::mapcat(
                sizes,
                [=](size_t maxn)
                {
                    return rc::gen::mapcat(
                        gen_values(integers, maxn),
                        [=](const std::vector<double>& values)
                        {
                            const auto n  = static_cast<double>(values.size());
                            const auto pg = rc::gen::oneOf(
                                rc::gen::map(gen::range<int>(0, 800), [](int k) { return k / 8.0; }),
                                gen::real(0.0, 100.0),
                                rc::gen::element(0.0, 100.0, 50.0, 1.0, 5.0, 10.0, 20.0, 80.0, 90.0, 95.0, 99.0),
                                // percentages that make the position integral, or integral + 1/2, up to rounding
                                rc::gen::map(gen::range<int>(0, 2 * 500),
                                             [=](int j)
                                             {
                                                 const auto d = std::max(1.0, n - 1.0);
                                                 return std::min(100.0, 50.0 * static_cast<double>(j) / d);
                                             }));
                            return rc::gen::map(rc::gen::container<std::vector<double>>(6, pg),
                                                [=](std::vector<double> ps)
                                                {
                                                    pcase_t c;
                                                    c.integers    = integers;
                                                    c.values      = values;
                                                    c.percentages = std::move(ps);
                                                    return c;
                                                });
                        });
                });
        });
}

template <class T>
verdict_t check_percentiles_typed(const pcase_t& c, ctx_t& ctx)
{
    std::vector<T> data;
    for (const auto v : c.values)
    {
        data.push_back(static_cast<T>(v));
    }
    std::vector<double> sorted(c.values);
    std::sort(sorted.begin(), sorted.end());
    std::vector<T> tsorted(data);
    std::sort(tsorted.begin(), tsorted.end());

    const bool has_ties = std::adjacent_find(sorted.begin(), sorted.end()) != sorted.end();
    bool       any_fractional = false;

    for (const auto p : c.percentages)
    {
        if (!(p >= 0.0 && p <= 100.0))
        {
            return verdict_t::discard("percentage-out-of-range");
        }
        bool       ambiguous = false;
        const auto acc       = accepted_percentiles(sorted, p, ambiguous);
        const auto pos       = exact_position(p, static_cast<long>(sorted.size()));
        any_fractional       = any_fractional || (pos.lo != pos.hi && !ambiguous);
        ctx.label_if(ambiguous, "near-integer-position");

        auto       copy = data; // the unsorted variant reorders its input
        const auto u    = nano::percentile(copy.begin(), copy.end(), p);
        const auto s    = nano::percentile_sorted(tsorted.begin(), tsorted.end(), p);
        if (!among(u, acc))
        {
            return verdict_t::violation("C20/percentile/unsorted", cat("p=", p, " n=", sorted.size(), " got=", u, " want=", acc[0]));
        }
        if (!among(s, acc))
        {
            return verdict_t::violation("C20/percentile/sorted", cat("p=", p, " n=", sorted.size(), " got=", s, " want=", acc[0]));
        }
        if (!ambiguous && !same(u, s))
        {
            return verdict_t::violation("C20/percentile/variants-disagree", cat("p=", p, " unsorted=", u, " sorted=", s));
        }
        // the unsorted variant must keep the multiset of values
        std::sort(copy.begin(), copy.end());
        if (copy != tsorted)
        {
            return verdict_t::violation("C20/percentile/input-corrupted", cat("p=", p));
        }
    }
    {
        bool       ambiguous = false;
        const auto acc       = accepted_percentiles(sorted, 50.0, ambiguous);
        auto       copy      = data;
        const auto m         = nano::median(copy.begin(), copy.end());
        const auto ms        = nano::median_sorted(tsorted.begin(), tsorted.end());
        if (!among(m, acc) || !among(ms, acc))
        {
            return verdict_t::violation("C20/median", cat("n=", sorted.size(), " median=", m, " median_sorted=", ms, " want=", acc[0]));
        }
    }
    // ml::store_stats: count, mean and the nine fixed percentiles
    if constexpr (std::is_same_v<T, double>)
    {
        nano::tensor_mem_t<nano::scalar_t, 1> values(static_cast<nano::tensor_size_t>(data.size()));
        for (size_t i = 0; i < data.size(); ++i)
        {
            values(static_cast<nano::tensor_size_t>(i)) = data[i];
        }
        nano::tensor_mem_t<nano::scalar_t, 1> stats(12);
        nano::ml::store_stats(values.tensor(), stats.tensor());
        const auto  st    = nano::ml::load_stats(stats);
        long double sum   = 0.0L;
        long double asum  = 0.0L;
        for (const auto v : sorted)
        {
            sum += v;
            asum += std::fabs(v);
        }
        const auto n    = static_cast<double>(sorted.size());
        const auto mean = static_cast<double>(sum / n);
        if (st.m_count != n)
        {
            return verdict_t::violation("C20/store_stats/count", cat("count=", st.m_count, " n=", n));
        }
        const auto tol = 1e3 * eps * static_cast<double>(asum) / n;
        if (std::fabs(st.m_mean - mean) > 10 * tol)
        {
            return verdict_t::violation("C20/store_stats/mean", cat("mean=", st.m_mean, " want=", mean));
        }
        if (std::fabs(st.m_mean - mean) > tol)
        {
            return verdict_t::borderline("store_stats/mean");
        }
        const double ps[]  = {1, 5, 10, 20, 50, 80, 90, 95, 99};
        const double got[] = {st.m_per01, st.m_per05, st.m_per10, st.m_per20, st.m_per50,
                              st.m_per80, st.m_per90, st.m_per95, st.m_per99};
        for (int i = 0; i < 9; ++i)
        {
            bool ambiguous = false;
            if (!among(got[i], accepted_percentiles(sorted, ps[i], ambiguous)))
            {
                return verdict_t::violation("C20/store_stats/percentile", cat("p=", ps[i], " got=", got[i]));
            }
        }
    }
    ctx.label(c.integers ? "integers" : "reals");
    ctx.label_if(has_ties, "ties");
    ctx.label_if(sorted.size() == 1, "single-value");
    ctx.label_if(sorted.front() < 0, "negatives");
    ctx.nontrivial = sorted.size() >= 3 && any_fractional && sorted.front() != sorted.back();
    return verdict_t::ok();
}

verdict_t check_percentiles(const pcase_t& c, ctx_t& ctx)
{
    if (c.values.empty())
    {
        return verdict_t::discard("empty");
    }
    // storage type of the list, as for the histograms below
    double mag   = 0.0;
    bool   exact = true;
    for (const auto v : c.values)
    {
        mag   = std::max(mag, std::fabs(v));
        exact = exact && static_cast<double>(static_cast<float>(v)) == v;
    }
    if (c.integers)
    {
        if (c.values.size() % 3 == 1 && mag <= 2.0e9)
        {
            ctx.label("storage:int32");
            return check_percentiles_typed<int32_t>(c, ctx);
        }
        if (c.values.size() % 3 == 2 && mag <= 30000.0)
        {
            ctx.label("storage:int16");
            return check_percentiles_typed<int16_t>(c, ctx);
        }
        ctx.label("storage:int64");
        return check_percentiles_typed<int64_t>(c, ctx);
    }
    if (c.values.size() % 2 == 1 && exact)
    {
        ctx.label("storage:float");
        return check_percentiles_typed<float>(c, ctx);
    }
    ctx.label("storage:double");
    return check_percentiles_typed<double>(c, ctx);
}

// ---- histogram sub-check ---------------------------------------------------------------------
struct hcase_t
{
    bool                integers{false};
    int                 mode{0}; // 0 thresholds, 1 ratios, 2 percentiles, 3 exponents, 4 equidistant ratios, 5 equidistant percentiles
    std::vector<double> values;
    std::vector<double> params; // thresholds / ratios / percentiles / {base} / {bins}
    std::vector<double> queries;

    template <class A>
    void io(A& a)
    {
        a("integers", integers);
        a("mode", mode);
        a("values", values);
        a("params", params);
        a("queries", queries);
    }
};

rc::Gen<hcase_t> gen_hcase()
{
    return rc::gen::mapcat(
        rc::gen::pair(rc::gen::arbitrary<bool>(), gen::range<int>(0, 5)),
        [](const std::pair<bool, int>& im)
        {
            const bool integers = im.first;
            const int  mode     = im.second;
            return rc::gen::mapcat(
                gen_values(integers, 60),
                [=](const std::vector<double>& values)
                {
                    const auto lo = *std::min_element(values.begin(), values.end());
                    const auto hi = *std::max_element(values.begin(), values.end());
                    // thresholds: data values, mid-points, values outside the range, duplicates
                    const auto thr = rc::gen::oneOf(rc::gen::elementOf(values),
                                                    rc::gen::map(rc::gen::pair(rc::gen::elementOf(values), rc::gen::elementOf(values)),
                                                                 [](const std::pair<double, double>& ab) { return (ab.first + ab.second) / 2; }),
                                                    gen::real(lo - 2.0, hi + 2.0));
                    rc::Gen<std::vector<double>> params = rc::gen::just(std::vector<double>{});
                    switch (mode)
                    {
                    case 0:
                        params = rc::gen::mapcat(gen::range<size_t>(1, 20),
                                                 [=](size_t k) { return rc::gen::container<std::vector<double>>(k, thr); });
                        break;
                    case 1:
                        params = rc::gen::mapcat(gen::range<size_t>(1, 10),
                                                 [=](size_t k)
                                                 { return rc::gen::container<std::vector<double>>(k, gen::real(1e-3, 0.999)); });
                        break;
                    case 2:
                        params = rc::gen::mapcat(gen::range<size_t>(1, 10),
                                                 [=](size_t k)
                                                 { return rc::gen::container<std::vector<double>>(k, gen::real(0.1, 99.9)); });
                        break;
                    case 3: params = rc::gen::map(rc::gen::element(2.0, 10.0, 2.718281828459045, 1.5), [](double b) { return std::vector<double>{b}; }); break;
                    default: params = rc::gen::map(gen::range<int>(2, 12), [](int b) { return std::vector<double>{static_cast<double>(b)}; }); break;
                    }
                    return rc::gen::mapcat(
                        params,
                        [=](const std::vector<double>& ps)
                        {
                            const auto q = rc::gen::oneOf(
                                rc::gen::elementOf(values), gen::real(lo - 3.0, hi + 3.0),
                                rc::gen::map(rc::gen::pair(rc::gen::elementOf(values), gen::range<int>(-1, 1)),
                                             [](const std::pair<double, int>& vi)
                                             {
                                                 return vi.second == 0  ? vi.first
                                                        : vi.second > 0 ? std::nextafter(vi.first, 1e300)
                                                                        : std::nextafter(vi.first, -1e300);
                                             }),
                                rc::gen::map(rc::gen::pair(rc::gen::elementOf(values), gen::real(-1.0, 1.0)),
                                             [](const std::pair<double, double>& vd) { return vd.first + vd.second; }));
                            return rc::gen::map(rc::gen::container<std::vector<double>>(12, q),
                                                [=](std::vector<double> qs)
                                                {
                                                    hcase_t c;
                                                    c.integers = integers;
                                                    c.mode     = mode;
                                                    c.values   = values;
                                                    c.params   = ps;
                                                    c.queries  = std::move(qs);
                                                    return c;
                                                });
                        });
                });
        });
}

long rule_bin(const std::vector<double>& thresholds, double v)
{
    long k = 0;
    for (const auto t : thresholds)
    {
        k += (t <= v) ? 1 : 0;
    }
    return k;
}

template <class T>
verdict_t check_histogram_typed(const hcase_t& c, ctx_t& ctx)
{
    std::vector<T> data;
    for (const auto v : c.values)
    {
        data.push_back(static_cast<T>(v));
    }
    std::vector<double> sorted(c.values);
    std::sort(sorted.begin(), sorted.end());

    const auto to_tensor = [](const std::vector<double>& v)
    {
        nano::tensor_mem_t<nano::scalar_t, 1> t(static_cast<nano::tensor_size_t>(v.size()));
        for (size_t i = 0; i < v.size(); ++i)
        {
            t(static_cast<nano::tensor_size_t>(i)) = v[i];
        }
        return t;
    };

    nano::histogram_t h;
    switch (c.mode)
    {
    case 0: h = nano::histogram_t::make_from_thresholds(data.begin(), data.end(), to_tensor(c.params)); break;
    case 1: h = nano::histogram_t::make_from_ratios(data.begin(), data.end(), to_tensor(c.params)); break;
    case 2: h = nano::histogram_t::make_from_percentiles(data.begin(), data.end(), to_tensor(c.params)); break;
    case 3: h = nano::histogram_t::make_from_exponents(data.begin(), data.end(), c.params.at(0)); break;
    case 4: h = nano::histogram_t::make_from_ratios(data.begin(), data.end(), static_cast<nano::tensor_size_t>(c.params.at(0))); break;
    default: h = nano::histogram_t::make_from_percentiles(data.begin(), data.end(), static_cast<nano::tensor_size_t>(c.params.at(0))); break;
    }

    // the thresholds the object reports define the bins
    std::vector<double> thr;
    for (nano::tensor_size_t i = 0; i < h.thresholds().size(); ++i)
    {
        thr.push_back(h.thresholds()(i));
    }
    if (thr.empty())
    {
        return verdict_t::discard("no-thresholds");
    }
    if (!std::is_sorted(thr.begin(), thr.end()))
    {
        return verdict_t::violation("C20/histogram/thresholds-not-sorted");
    }
    for (const auto t : thr)
    {
        if (!std::isfinite(t))
        {
            return verdict_t::violation("C20/histogram/threshold-not-finite");
        }
    }
    const auto bins = static_cast<long>(thr.size()) + 1;
    if (h.bins() != bins || h.counts().size() != bins || h.means().size() != bins || h.medians().size() != bins)
    {
        return verdict_t::violation("C20/histogram/bin-count", cat("bins=", h.bins(), " thresholds=", thr.size()));
    }
    // derived thresholds
    if (c.mode == 0)
    {
        auto want = c.params;
        std::sort(want.begin(), want.end());
        if (want != thr)
        {
            return verdict_t::violation("C20/histogram/thresholds-changed");
        }
    }
    if (c.mode == 1 || c.mode == 2)
    {
        auto ps = c.params;
        std::sort(ps.begin(), ps.end());
        for (size_t i = 0; i < ps.size(); ++i)
        {
            if (c.mode == 1)
            {
                const auto want = sorted.front() + ps[i] * (sorted.back() - sorted.front());
                if (std::fabs(thr[i] - want) > 1e3 * eps * (std::fabs(sorted.front()) + std::fabs(sorted.back())))
                {
                    return verdict_t::violation("C20/histogram/ratio-threshold", cat("i=", i, " got=", thr[i], " want=", want));
                }
            }
            else
            {
                bool ambiguous = false;
                if (!among(thr[i], accepted_percentiles(sorted, ps[i], ambiguous)))
                {
                    return verdict_t::violation("C20/histogram/percentile-threshold", cat("i=", i, " p=", ps[i], " got=", thr[i]));
                }
            }
        }
    }

    // partition, counts, means, medians
    std::vector<std::vector<double>> members(static_cast<size_t>(bins));
    for (const auto v : sorted)
    {
        members[static_cast<size_t>(rule_bin(thr, v))].push_back(v);
    }
    long total     = 0;
    int  non_empty = 0;
    for (long b = 0; b < bins; ++b)
    {
        const auto& m = members[static_cast<size_t>(b)];
        total += h.count(b);
        if (h.count(b) != static_cast<long>(m.size()))
        {
            return verdict_t::violation("C20/histogram/count", cat("bin=", b, " count=", h.count(b), " want=", m.size()));
        }
        if (m.empty())
        {
            if (!std::isnan(h.mean(b)) || !std::isnan(h.median(b)))
            {
                return verdict_t::violation("C20/histogram/empty-bin-not-nan", cat("bin=", b));
            }
            continue;
        }
        ++non_empty;
        long double sum = 0.0L, asum = 0.0L;
        for (const auto v : m)
        {
            sum += v;
            asum += std::fabs(v);
        }
        const auto mean = static_cast<double>(sum / static_cast<long double>(m.size()));
        const auto tol  = 1e3 * eps * static_cast<double>(asum) / static_cast<double>(m.size());
        if (!(std::fabs(h.mean(b) - mean) <= 10 * tol))
        {
            return verdict_t::violation("C20/histogram/mean", cat("bin=", b, " mean=", h.mean(b), " want=", mean));
        }
        if (!(std::fabs(h.mean(b) - mean) <= tol))
        {
            return verdict_t::borderline("histogram/mean");
        }
        bool ambiguous = false;
        if (!among(h.median(b), accepted_percentiles(m, 50.0, ambiguous)))
        {
            return verdict_t::violation("C20/histogram/median", cat("bin=", b, " median=", h.median(b)));
        }
    }
    if (total != static_cast<long>(sorted.size()))
    {
        return verdict_t::violation("C20/histogram/partition", cat("sum of counts=", total, " n=", sorted.size()));
    }

    // bin(v) == counting rule, for real and integer arguments
    bool on_threshold = false, non_integer_query = false;
    for (const auto v : sorted)
    {
        on_threshold = on_threshold || std::binary_search(thr.begin(), thr.end(), v);
    }
    auto queries = c.queries;
    queries.insert(queries.end(), thr.begin(), thr.end());
    for (const auto q : queries)
    {
        if (!std::isfinite(q) || std::fabs(q) > 1e15)
        {
            continue;
        }
        non_integer_query = non_integer_query || q != std::floor(q);
        const auto got  = h.bin(q);
        const auto want = rule_bin(thr, q);
        if (got != want)
        {
            // F2 (fixed): `bin` used to truncate its argument to an integer first
            return verdict_t::violation(q != std::floor(q) ? "C20/histogram/bin/real-argument" : "C20/histogram/bin/integral-argument",
                                        cat("bin(", q, ")=", got, " rule=", want));
        }
        const auto iq = static_cast<int64_t>(std::floor(q));
        if (h.bin(iq) != rule_bin(thr, static_cast<double>(iq)))
        {
            return verdict_t::violation("C20/histogram/bin/integer-type", cat("bin(", iq, ")=", h.bin(iq)));
        }
    }
    // every data value is reported in the bin it was counted in
    for (const auto v : sorted)
    {
        const auto b = h.bin(v);
        if (b != rule_bin(thr, v))
        {
            return verdict_t::violation("C20/histogram/bin/data-value", cat("bin(", v, ")=", b, " rule=", rule_bin(thr, v)));
        }
    }

    static const char* modes[] = {"thresholds", "ratios", "percentiles", "exponents", "equidistant-ratios", "equidistant-percentiles"};
    ctx.label(modes[c.mode]);
    ctx.label(c.integers ? "integers" : "reals");
    ctx.label_if(std::adjacent_find(thr.begin(), thr.end()) != thr.end(), "duplicate-thresholds");
    ctx.label_if(thr.front() < sorted.front() || thr.back() > sorted.back(), "threshold-outside-range");
    ctx.label_if(on_threshold, "value-on-threshold");
    ctx.label_if(non_empty < bins, "empty-bin");
    ctx.nontrivial = non_empty >= 2 && on_threshold && non_integer_query;
    return verdict_t::ok();
}

verdict_t check_histogram(const hcase_t& c, ctx_t& ctx)
{
    if (c.values.empty() || c.params.empty())
    {
        return verdict_t::discard("empty");
    }
    if (c.mode == 1)
    {
        for (const auto r : c.params)
        {
            if (!(r > 0.0 && r < 1.0))
            {
                return verdict_t::discard("ratio-out-of-domain");
            }
        }
    }
    if (c.mode == 2)
    {
        for (const auto p : c.params)
        {
            if (!(p > 0.0 && p < 100.0))
            {
                return verdict_t::discard("percentile-out-of-domain");
            }
        }
    }
    if (c.mode == 3 && !(c.params[0] > 1.0))
    {
        return verdict_t::discard("base-out-of-domain");
    }
    if (c.mode >= 4 && !(c.params[0] >= 2.0))
    {
        return verdict_t::discard("bins-out-of-domain");
    }
    // storage type of the list (the reference always works on the generated doubles, which every chosen type holds exactly)
    double mag   = 0.0;
    bool   exact = true; // every value is a float
    for (const auto v : c.values)
    {
        mag   = std::max(mag, std::fabs(v));
        exact = exact && static_cast<double>(static_cast<float>(v)) == v;
    }
    if (c.integers)
    {
        switch (c.values.size() % 3)
        {
        case 1:
            if (mag <= 2.0e9)
            {
                ctx.label("storage:int32");
                return check_histogram_typed<int32_t>(c, ctx);
            }
            break;
        case 2:
            if (mag <= 30000.0)
            {
                ctx.label("storage:int16");
                return check_histogram_typed<int16_t>(c, ctx);
            }
            break;
        default: break;
        }
        ctx.label("storage:int64");
        return check_histogram_typed<int64_t>(c, ctx);
    }
    if (c.values.size() % 2 == 1 && exact)
    {
        ctx.label("storage:float");
        return check_histogram_typed<float>(c, ctx);
    }
    ctx.label("storage:double");
    return check_histogram_typed<double>(c, ctx);
}
} // namespace

#ifndef VERIF_NO_MAIN
int main(int argc, char** argv)
{
    suite_t suite("C20");
    suite.add<pcase_t>("percentile", gen_pcase, check_percentiles, 1.0);
    suite.add<hcase_t>("histogram", gen_hcase, check_histogram, 1.0);
    return suite.main(argc, argv);
}
#endif
